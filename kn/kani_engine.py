"""Engine K: Kani in place on a scratch copy of /repo's working tree (leaf functions only)."""
import json
import os

HERE = os.path.dirname(os.path.abspath(__file__))


def registry():
    p = os.path.join(HERE, "harnesses.json")
    if os.path.exists(p):
        with open(p) as f:
            return json.load(f)
    return {}


def harnesses_for(prop):
    return {h: d for h, d in registry().items() if prop in d["props"]}


def run(prop, harnesses, scratch, tier):
    raise NotImplementedError
