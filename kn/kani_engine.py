"""Engine K: Kani on a scratch copy of /repo's working tree (leaf functions only; loop-free, full finite domain)."""
import json
import os
import re
import shutil
import signal
import subprocess
import time

HERE = os.path.dirname(os.path.abspath(__file__))
REPO = os.environ.get("VERIF_REPO", "/repo")
MEM_LIMIT_KB = 24 * 1024 * 1024


def registry():
    p = os.path.join(HERE, "harnesses.json")
    if os.path.exists(p):
        with open(p) as f:
            return json.load(f)
    return {}


def harnesses_for(prop):
    return {h: d for h, d in registry().items() if prop in d["props"]}


def run(prop, harnesses, scratch, tier):
    """copies the working tree (no target/, no .git), runs `cargo kani` once for all harnesses of the property"""
    from runner import Undecided
    t0 = time.time()
    dst = os.path.join(scratch, "kani-repo")
    r = subprocess.run(["rsync", "-a", "--exclude", "target", "--exclude", ".git", REPO + "/", dst + "/"], capture_output=True, text=True)
    if r.returncode != 0:
        raise Undecided("kani: rsync failed: " + r.stderr[-300:])
    env = dict(os.environ)
    env["CARGO_NET_OFFLINE"] = "true"
    env["CARGO_TARGET_DIR"] = os.path.join(scratch, "kani-target")
    cmd = ["cargo", "kani", "--features", "verif-kani", "-Z", "function-contracts", "-Z", "concrete-playback", "--concrete-playback=print"]
    for h in harnesses:
        cmd += ["--harness", harnesses[h]["path"]]
    log = os.path.join(scratch, "kani.log")
    with open(log, "w") as lf:
        p = subprocess.Popen(["bash", "-c", "ulimit -v %d; exec \"$@\"" % MEM_LIMIT_KB, "bash"] + cmd, cwd=dst, env=env,
                             stdout=lf, stderr=subprocess.STDOUT, start_new_session=True)
        try:
            p.wait(timeout=int(os.environ.get("VERIF_KANI_TIMEOUT", "1500")))
        except subprocess.TimeoutExpired:
            os.killpg(p.pid, signal.SIGKILL)
            p.wait()
            raise Undecided("kani: timeout")
        finally:
            try:
                os.killpg(p.pid, signal.SIGKILL)  # cbmc children survive their parent
            except ProcessLookupError:
                pass
    text = open(log, errors="replace").read()
    res = {"cmd": "(scratch copy of /repo) " + " ".join(cmd), "harnesses": {}, "wall_s": round(time.time() - t0, 1)}
    # split per harness
    chunks = re.split(r"Checking harness ", text)
    seen = {}
    for ch in chunks[1:]:
        name = ch.split("...")[0].strip()
        seen[name] = ch
    if not seen:
        raise Undecided("kani produced no harness results (build failure / ICE): " + text[-600:].replace("\n", " | "))
    for h, d in harnesses.items():
        ch = seen.get(d["path"]) or next((c for n, c in seen.items() if n.endswith(h)), None)
        hr = {"obligation": d["obligation"], "clause": d["clause"], "props": d["props"]}
        if ch is None:
            hr["status"] = "MISSING"
            hr["log"] = ""
        else:
            m = re.search(r"VERIFICATION:- (SUCCESSFUL|FAILED)", ch)
            failed_checks = re.findall(r"Failed Checks: (.*)", ch)
            unwind = [f for f in failed_checks if "unwinding assertion" in f]
            if d.get("cover"):
                unsat = re.findall(r"Status: (UNSATISFIABLE|UNREACHABLE)", ch)
                hr["status"] = "SUCCESS" if (m and m.group(1) == "SUCCESSFUL" and not unsat) else "VACUOUS"
            elif not m:
                hr["status"] = "NO-VERDICT"
            elif m.group(1) == "SUCCESSFUL":
                hr["status"] = "SUCCESS"
            elif unwind and len(unwind) == len(failed_checks):
                hr["status"] = "UNWIND"
            else:
                hr["status"] = "FAILURE"
            hr["failed_checks"] = failed_checks
            # counterexample: concrete-playback prints the byte vectors of every kani::any() in order
            cex = re.findall(r"vec!\[([0-9, ]*)\]", ch)
            if cex:
                hr["cex"] = [[int(x) for x in v.split(",") if x.strip()] for v in cex]
            hr["log"] = "Checking harness " + ch[-3500:]
            mt = re.search(r"Verification Time: ([0-9.]+)s", ch)
            hr["solver_s"] = float(mt.group(1)) if mt else None
            hr["checks"] = len(re.findall(r"^Check \d+:", ch, re.M))
        res["harnesses"][h] = hr
    return res
