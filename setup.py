#!/usr/bin/env python3
"""MANIFEST.setup_cmd: nothing to build (the framework is python3 + the pre-installed verus / kani).
Checks the tools are present and warms the Verus start-up cache."""
import shutil, subprocess, sys, tempfile, os
ok = True
for tool in ("verus", "cargo", "python3"):
    if not shutil.which(tool):
        print("missing tool:", tool); ok = False
d = tempfile.mkdtemp(prefix="verif-setup-")
try:
    open(os.path.join(d, "w.rs"), "w").write("use vstd::prelude::*;\nverus!{ fn f(x: u8) -> (r: u8) ensures r == x { x } }\nfn main(){}\n")
    r = subprocess.run(["verus", "w.rs"], cwd=d, capture_output=True, text=True, timeout=600)
    print(r.stdout.strip().splitlines()[-1] if r.stdout.strip() else r.stderr[-300:])
    ok = ok and r.returncode == 0
finally:
    shutil.rmtree(d, ignore_errors=True)
sys.exit(0 if ok else 1)
