#!/usr/bin/env python3
"""print the bounded stand-in table (DESIGN §9.4) from replays/index*.json"""
import json, glob, os
V = os.path.dirname(os.path.dirname(os.path.abspath(__file__)))
rows = []
for f in sorted(glob.glob(V + "/replays/index*.json")):
    for n, e in json.load(open(f)).items():
        if e.get("standin"):
            s = e["standin"]
            rows.append((n, s["for"], ", ".join(s.get("props", [])), s["bound"], len(e.get("tests", []))))
print("| stand-in | for | property | bound | tests |")
print("|---|---|---|---|---|")
for n, fo, p, b, k in sorted(rows, key=lambda r: (r[2], r[0])):
    print("| `%s` | %s | %s | %s | %d |" % (n, fo.replace("|", "/"), p, b.replace("|", "/"), k))
