import subprocess, sys, os, concurrent.futures as cf
jobs=[(p,k) for p in sys.argv[1:] for k in (1,2)]
def work(i, p, k):
    R=os.environ.get("ROUND","6"); name="%s-r%sm%d"%(p,R,k); src="/tmp/m%s-%s/out/mutant%d"%(R,p,k)
    if not os.path.exists(src+"/patch.diff"): return name,"no patch",""
    r=subprocess.run(["python3","tools/seed.py","confirm",src,p,name],cwd="/verif",capture_output=True,text=True)
    out=r.stdout[-1500:]+r.stderr[-800:]
    if r.returncode!=0: return name,"REJECT",out
    env=dict(os.environ,SEED_WT="/tmp/w-seed-%d/repo"%i)
    r2=subprocess.run(["python3","tools/seed.py","run",name],cwd="/verif",capture_output=True,text=True,env=env)
    return name,"KEEP",r2.stdout[-1200:]+r2.stderr[-500:]
import queue
q=queue.Queue()
for i in range(5): q.put(i)
def wrap(p,k):
    i=q.get()
    try: return work(i,p,k)
    finally: q.put(i)
with cf.ThreadPoolExecutor(5) as ex:
    for f in cf.as_completed([ex.submit(wrap,p,k) for p,k in jobs]):
        n,v,o=f.result(); print("=== %s %s\n%s"%(n,v,o),flush=True)
