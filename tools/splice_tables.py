#!/usr/bin/env python3
"""replace the two generated tables of DESIGN.md (the as-built table of section 8, the stand-in table of section 9.4) by the
output of tools/gen_asbuilt.py / tools/gen_standins.py"""
import os, re, subprocess
V = os.path.dirname(os.path.dirname(os.path.abspath(__file__)))
p = os.path.join(V, "DESIGN.md")
s = open(p).read()
for head, tool in (("| property | units (engine) | functions under contract |", "gen_asbuilt.py"), ("| stand-in | for | property | bound | tests |", "gen_standins.py")):
    out = subprocess.run(["python3", os.path.join(V, "tools", tool)], capture_output=True, text=True, check=True).stdout.rstrip("\n")
    i = s.index(head)
    j = i
    lines = s[i:].split("\n")
    k = 0
    while k < len(lines) and lines[k].startswith("|"):
        k += 1
    old = "\n".join(lines[:k])
    s = s[:i] + out + s[i + len(old):]
open(p, "w").write(s)
print("spliced")
