#!/usr/bin/env python3
"""tools/run_all.py <patch.diff> [label]  - apply a patch to /repo, run EVERY claimed check (quick), undo; print one line per check.
Used for false-alarm testing (harmless refactorings must give no exit 1) and for cross-property effects of seeded changes."""
import json, os, subprocess, sys, concurrent.futures as cf
VERIF = os.path.dirname(os.path.dirname(os.path.abspath(__file__)))
patch = os.path.abspath(sys.argv[1]); label = sys.argv[2] if len(sys.argv) > 2 else os.path.basename(patch)
props = [c["property_id"] for c in json.load(open(VERIF + "/MANIFEST.json"))["checks"]]
sys.path.insert(0, os.path.dirname(os.path.abspath(__file__)))
import seed
WORK = seed.prepare_worktree()
r = subprocess.run(["git", "-C", WORK, "apply", patch], capture_output=True, text=True)
assert r.returncode == 0, "patch does not apply: " + r.stderr
ENV = dict(os.environ, VERIF_REPO=WORK)
def one(p):
    q = subprocess.run(["./check", p, "--tier", "quick"], cwd=VERIF, capture_output=True, text=True, env=ENV)
    lines = [l[:260] for l in q.stdout.splitlines() if l.startswith(("VIOLATION", "UNDECIDED"))]
    return p, q.returncode, lines
try:
    with cf.ThreadPoolExecutor(max_workers=6) as ex:
        res = list(ex.map(one, props))
finally:
    subprocess.run("git -C %s checkout -- . && git -C %s clean -fdq -- src tests" % (WORK, WORK), shell=True)
summary = {p: rc for p, rc, _ in res}
print("%s: exit1=%s exit2=%s" % (label, [p for p, rc in summary.items() if rc == 1], [p for p, rc in summary.items() if rc == 2]))
for p, rc, lines in res:
    if rc:
        for l in lines[:2]:
            print("   %s %d %s" % (p, rc, l))
json.dump({"label": label, "results": {p: {"exit": rc, "lines": lines} for p, rc, lines in res}}, open("/tmp/run_all_%s.json" % label.replace("/", "_"), "w"), indent=1)
