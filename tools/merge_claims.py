#!/usr/bin/env python3
"""merge claims.d/<unit>.json into claims.json / vx/assumed.json; print proposed known findings"""
import json, sys, glob, os
V = os.path.dirname(os.path.dirname(os.path.abspath(__file__)))
claims = json.load(open(V + "/claims.json"))
assumed = json.load(open(V + "/vx/assumed.json"))
units = sys.argv[1:]
for u in units:
    d = json.load(open(V + "/claims.d/%s.json" % u))
    for c in d.get("checks", []):
        pid = c["property_id"]
        ex = [x for x in claims["checks"] if x["property_id"] == pid]
        if ex:
            e = ex[0]
            for k in ("technique", "level_text", "level_note"):
                if c.get(k) and c[k] not in e[k]:
                    e[k] = e[k].rstrip() + " | " + c[k]
        else:
            claims["checks"].append({k: c[k] for k in ("property_id", "engine", "technique", "level_text", "level_note")})
        claims["not_applicable"] = [n for n in claims["not_applicable"] if n["property_id"] != pid]
    for pid, lst in d.get("assumed", {}).items():
        cur = assumed.setdefault(pid, [])
        for a in lst:
            if a not in cur:
                cur.append(a)
    for k in d.get("known_findings", []):
        print("PROPOSED", k)
claims["checks"].sort(key=lambda x: x["property_id"])
json.dump(claims, open(V + "/claims.json", "w"), indent=1)
json.dump(assumed, open(V + "/vx/assumed.json", "w"), indent=1)
