#!/usr/bin/env python3
"""apply a builder's patch file to /repo as ONE commit (message = text before the first `diff --git`,
or the given default for hook patches). Drops hunks that only add tests if --no-tests is given."""
import subprocess, sys, re
import os
f = os.path.abspath(sys.argv[1])
default = sys.argv[2] if len(sys.argv) > 2 else None
t = open(f).read()
i = t.index("diff --git")
msg = t[:i].strip() or default
if msg.startswith("From ") and "Subject:" in msg:  # git format-patch header
    import re
    msg = default or re.sub(r"^\[PATCH[^\]]*\]\s*", "", re.sub(r"\s+", " ", msg.split("Subject:", 1)[1].split("---")[0]).strip())
assert msg, "no commit message"
r = subprocess.run(["git", "-C", "/repo", "apply", "--index", f], capture_output=True, text=True)
if r.returncode != 0:
    print("APPLY FAILED", f, r.stderr); sys.exit(1)
subprocess.run(["git", "-C", "/repo", "commit", "-q", "-m", msg], check=True)
print(subprocess.run(["git", "-C", "/repo", "log", "--oneline", "-1"], capture_output=True, text=True).stdout.strip())
