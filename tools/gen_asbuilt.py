#!/usr/bin/env python3
"""print the as-built claim table (DESIGN §8) from the evidence files of the last run against /repo"""
import json, glob, os
V = os.path.dirname(os.path.dirname(os.path.abspath(__file__)))
print("| property | units (engine) | functions under contract | obligations discharged | bounded stand-ins (not proved) | known findings |")
print("|---|---|---|---|---|---|")
for f in sorted(glob.glob(V + "/evidence/C*.json")):
    e = json.load(open(f))
    c = e["coverage"]
    units = ", ".join(c.get("units", []))
    eng = "V" + (" + K" if c.get("kani") else "")
    st = ", ".join("`%s`" % s["name"] for s in c.get("bounded_standins", [])) or "–"
    kf = ", ".join("`%s`" % k for k in c.get("known_finding_obligations", [])) or "–"
    print("| %s | %s (%s) | %d | %d / %d | %s | %s |" % (e["property_id"], units, eng, len(c.get("functions_under_contract", [])), c.get("discharged", 0), c.get("obligations", 0), st, kf))
