#!/usr/bin/env python3
"""tools/seed.py confirm <src_dir> <Cxx> <name>   confirm a seeded change in a scratch worktree and keep it in /verif/seeded/<name>/
   tools/seed.py run <name> [Cxx ...]             apply seeded/<name>/patch.diff to /repo, run the checks, undo
"""
import json, os, re, shutil, subprocess, sys, time

VERIF = os.path.dirname(os.path.dirname(os.path.abspath(__file__)))
REPO = "/repo"


def sh(cmd, cwd=None, env=None, timeout=3000):
    p = subprocess.run(cmd, shell=True, cwd=cwd, env=env, capture_output=True, text=True, timeout=timeout)
    return p.returncode, p.stdout + p.stderr


def howto(src):
    t = open(os.path.join(src, "demo_howto.txt")).read()
    t = re.sub(r"\\\s*\n\s*", " ", t)  # join continued lines
    m = re.search(r"((?:src|tests)/[A-Za-z0-9_/\.\-]+\.rs)", t)
    f = m.group(1) if m else None
    c = re.search(r"cargo test[^\n]*", t)
    cmd = c.group(0) if c else None
    cmd = re.sub(r"CARGO_TARGET_DIR=\S+\s*", "", cmd) if cmd else None
    if cmd:
        cmd = cmd.split("#")[0].strip()
    return f, cmd, t


def place_demo(wt, src, f):
    demo = open(os.path.join(src, "demo.rs")).read()
    p = os.path.join(wt, f)
    if f.startswith("tests/") and not os.path.exists(p):
        open(p, "w").write(demo)
        return
    s = open(p).read()
    how = open(os.path.join(src, "demo_howto.txt")).read()
    if re.search(r">>\s*%s|to the END of %s" % (re.escape(f), re.escape(f)), how) or re.search(r"(?i)at the (very )?end of the file|append(ed)? (it )?to the end of the file", how):
        open(p, "w").write(s.rstrip("\n") + "\n\n" + demo + "\n")
        return
    i = s.rstrip().rfind("}")
    open(p, "w").write(s[:i] + "\n" + demo + "\n}\n" + s[i + 1:].lstrip("\n") if s[i + 1:].strip() else s[:i] + "\n" + demo + "\n}\n")


def confirm(src, prop, name):
    wt = "/tmp/s-confirm-%s" % name
    tgt = wt + "-target"
    sh("git -C %s worktree remove --force %s" % (REPO, wt))
    rc, out = sh("git -C %s worktree add --detach %s HEAD" % (REPO, wt))
    assert rc == 0, out
    env = dict(os.environ, CARGO_TARGET_DIR=tgt)
    ran = []
    try:
        f, cmd, text = howto(src)
        assert f and cmd, "cannot parse demo_howto.txt"
        cmd = cmd.strip().rstrip("`'\" ")
        if "--offline" not in cmd:
            cmd = cmd.replace("cargo test", "cargo test --offline")
        # 1. demo passes without the patch
        place_demo(wt, src, f)
        rc0, out0 = sh(cmd, cwd=wt, env=env)
        ran.append({"cmd": cmd, "tree": "unmodified + demo", "exit": rc0, "tail": out0[-600:]})
        ok_clean = rc0 == 0 and re.search(r"test result: ok\. [1-9]", out0) is not None
        # 2. with the patch: suite passes, demo fails
        rc, out = sh("git apply %s" % os.path.join(src, "patch.diff"), cwd=wt)
        assert rc == 0, "patch does not apply: " + out
        rc1, out1 = sh(cmd, cwd=wt, env=env)
        ran.append({"cmd": cmd, "tree": "patched + demo", "exit": rc1, "tail": out1[-600:]})
        demo_fails = rc1 != 0 and ("FAILED" in out1 or "panicked" in out1)
        # existing suite on the patched tree without the demo
        sh("git checkout -- . && git clean -fdq -- src tests", cwd=wt)
        rc, out = sh("git apply %s" % os.path.join(src, "patch.diff"), cwd=wt)
        assert rc == 0, out
        rc2, out2 = sh("cargo test --offline --workspace 2>&1 | grep -E '^test result|FAILED|error(\\[|:)'", cwd=wt, env=env)
        ran.append({"cmd": "cargo test --offline --workspace", "tree": "patched", "tail": out2[-800:]})
        suite_ok = "FAILED" not in out2 and "error" not in out2 and "test result: ok" in out2
        rc3, out3 = sh("cargo test --offline --lib --features mocks 2>&1 | grep -E '^test result|FAILED|error(\\[|:)'", cwd=wt, env=env)
        ran.append({"cmd": "cargo test --offline --lib --features mocks", "tree": "patched", "tail": out3[-400:]})
        suite_ok = suite_ok and "FAILED" not in out3 and "test result: ok" in out3
        verdict = ok_clean and demo_fails and suite_ok
        print("confirm %s: demo passes clean=%s, demo fails patched=%s, suite passes patched=%s => %s" % (name, ok_clean, demo_fails, suite_ok, "KEEP" if verdict else "REJECT"))
        if verdict:
            dst = os.path.join(VERIF, "seeded", name)
            os.makedirs(dst, exist_ok=True)
            for fn in ("patch.diff", "demo.rs", "demo_howto.txt"):
                shutil.copy(os.path.join(src, fn), os.path.join(dst, fn))
            meta = json.load(open(os.path.join(src, "meta.json")))
            meta = {"property": prop, "summary": meta.get("summary"), "needs": meta.get("needs"), "files": meta.get("files"),
                    "author_ran": meta.get("ran"), "confirmed": ran, "confirmed_at": time.strftime("%Y-%m-%d %H:%M")}
            json.dump(meta, open(os.path.join(dst, "meta.json"), "w"), indent=1)
        else:
            for r in ran:
                print(json.dumps(r)[:900])
        return verdict
    finally:
        sh("git -C %s worktree remove --force %s" % (REPO, wt))
        shutil.rmtree(tgt, ignore_errors=True)


def prepare_worktree():
    wt = os.environ.get("SEED_WT", "/tmp/w-seed/repo")
    head = subprocess.run("git -C %s rev-parse HEAD" % REPO, shell=True, capture_output=True, text=True).stdout.strip()
    if not os.path.isdir(wt):
        rc, out = sh("git -C %s worktree add --detach %s HEAD" % (REPO, wt))
        assert rc == 0, out
    sh("git -C %s checkout -- . && git -C %s clean -fdq -- src tests && git -C %s checkout -q --detach %s" % (wt, wt, wt, head))
    return wt


def run(name, props):
    dst = os.path.join(VERIF, "seeded", name)
    meta = json.load(open(os.path.join(dst, "meta.json")))
    props = props or [meta["property"]]
    # the patch is applied in a dedicated worktree of /repo's HEAD (VERIF_REPO), so that /repo itself stays clean
    # and checks running elsewhere are not disturbed; set SEED_IN_REPO=1 to apply to /repo as the brief describes
    work = REPO if os.environ.get("SEED_IN_REPO") else prepare_worktree()
    rc, out = sh("git -C %s status --porcelain" % work)
    assert out.strip() == "", "%s not clean: %s" % (work, out)
    rc, out = sh("git -C %s apply %s" % (work, os.path.join(dst, "patch.diff")))
    assert rc == 0, "patch does not apply to %s: %s" % (work, out)
    env = dict(os.environ, VERIF_REPO=work)
    REPO_RUN = work
    res = {}
    try:
        for p in props:
            rc, out = sh("./check %s --tier quick" % p, cwd=VERIF, env=env)
            lines = [l for l in out.splitlines() if l.startswith(("VIOLATION", "UNDECIDED", "KNOWN-FINDING"))]
            res[p] = {"exit": rc, "lines": [l[:400] for l in lines if not l.startswith("KNOWN")]}
            print("%s on %s: exit=%d %s" % (p, name, rc, " | ".join(l[:300] for l in lines if not l.startswith("KNOWN"))))
    finally:
        sh("git -C %s checkout -- ." % REPO_RUN)
        sh("git -C %s clean -fdq -- src tests" % REPO_RUN)
    meta.setdefault("check_results", {}).update(res)
    json.dump(meta, open(os.path.join(dst, "meta.json"), "w"), indent=1)
    return res


if __name__ == "__main__":
    if sys.argv[1] == "confirm":
        sys.exit(0 if confirm(sys.argv[2], sys.argv[3], sys.argv[4]) else 1)
    elif sys.argv[1] == "run":
        run(sys.argv[2], sys.argv[3:])
