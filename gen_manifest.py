#!/usr/bin/env python3
"""Regenerates MANIFEST.json from claims.json (kept valid at all times)."""
import json, os, subprocess
HERE = os.path.dirname(os.path.abspath(__file__))
claims = json.load(open(os.path.join(HERE, "claims.json")))
hooks_commits = subprocess.run(["git", "-C", "/repo", "log", "--reverse", "--format=%h", "--grep=^verif hook"], capture_output=True, text=True).stdout.split() or claims["hooks"]["source_commits"]
fix_commits = subprocess.run(["git", "-C", "/repo", "log", "--reverse", "--format=%h %s", "--grep=^fix:"], capture_output=True, text=True).stdout.strip().splitlines()
m = {
    "version": 1,
    "setup_cmd": "python3 /verif/setup.py",
    "hooks": {
        "guard": "cargo features `verif-hooks` (off by default; test builds only: include!s of the replay tests) and `verif-kani` (off by default; enabled only by the Kani engine: loop-free harnesses)",
        "enable": "cargo test --offline --lib --features mocks,tls,tls-ring,sni,verif-hooks with VERIF_DIR=/verif (replay tests); cargo kani --features verif-kani (engine K). Engine V (Verus) needs no hook: it reads the sources.",
        "baseline_off_cmd": "cd /repo && cargo nextest run --workspace --no-fail-fast --offline || cargo test --workspace --no-fail-fast --offline",
        "source_commits": hooks_commits,
        "add_only": True,
    },
    "engines": [dict(e, serves_properties=sorted(c["property_id"] for c in claims["checks"] if e["name"] in c["engine"])) for e in claims["engines"]],
    "checks": [],
    "notes": claims.get("notes", "") + " | fix: commits in /repo (genuine defects repaired, see KNOWN_FINDINGS.txt): " + "; ".join(fix_commits),
    "not_applicable": claims["not_applicable"],
}
for c in claims["checks"]:
    pid = c["property_id"]
    m["checks"].append({
        "property_id": pid,
        "quick_cmd": "./check %s --tier quick" % pid,
        "thorough_cmd": "./check %s --tier thorough" % pid,
        "evidence_file": "/verif/evidence/%s.json" % pid,
        "replay_cmd_template": "./check %s --replay {path}" % pid,
        "engine": c["engine"],
        "level_claimed": {"category": "proof", "text": c["level_text"], "design_ref": c.get("design_ref", "DESIGN.md section 5")},
        "level_note": c["level_note"],
        "technique": c["technique"],
    })
json.dump(m, open(os.path.join(HERE, "MANIFEST.json"), "w"), indent=1)
print("MANIFEST.json: %d checks, %d not applicable" % (len(m["checks"]), len(m["not_applicable"])))
