"""Replay templates: concrete tests against the REAL crate for obligations (DESIGN 3.5)."""
import json
import os
import subprocess
import signal

HERE = os.path.dirname(os.path.abspath(__file__))
VERIF = os.path.dirname(HERE)
REPO = os.environ.get("VERIF_REPO", "/repo")
FEATURES = "mocks,tls,tls-ring,sni,verif-hooks"


def index():
    """replays/index*.json: obligation -> {"test": "<module path>::<test fn>"}"""
    import glob
    res = {}
    for p in sorted(glob.glob(os.path.join(VERIF, "replays", "index*.json"))):
        with open(p) as f:
            res.update(json.load(f))
    return res


def cargo_test(tests, scratch, timeout=1500, extra_env=None, test_timeout=None):
    """run the named replay tests of the real crate (hooks on); returns {test: (passed, log)}"""
    env = dict(os.environ)
    env["RUST_BACKTRACE"] = "0"
    # dependency build cache (re-created when absent; cargo's fingerprints rebuild the crate itself whenever
    # /repo's working tree changed).  VERIF_CARGO_CACHE="" -> build in the scratch dir and delete afterwards.
    cache = os.environ.get("VERIF_CARGO_CACHE", "/var/tmp/verif-cargo-target")
    if cache and os.path.realpath(REPO) != "/repo":
        import hashlib
        cache = "%s-%s" % (cache, hashlib.md5(os.path.realpath(REPO).encode()).hexdigest()[:8])  # one cache per tree
    env["CARGO_TARGET_DIR"] = cache if cache else os.path.join(scratch, "target")
    env["CARGO_NET_OFFLINE"] = "true"
    env["VERIF_DIR"] = VERIF
    env.update(extra_env or {})
    res = {}
    global _ISOLATED
    if _ISOLATED is None:
        _ISOLATED = _isolate_broken_replay_files(env, scratch, timeout)
        _ISOLATED = (_ISOLATED, env["VERIF_DIR"])
    blanked, env["VERIF_DIR"] = _ISOLATED
    for t in tests:
        cmd = ["cargo", "test", "--offline", "--lib", "--features", FEATURES, t, "--", "--exact", "--nocapture", "--test-threads", "1"]
        p = subprocess.Popen(cmd, cwd=REPO, env=env, stdout=subprocess.PIPE, stderr=subprocess.STDOUT, text=True, start_new_session=True)
        try:
            # the binary is already built (isolation step above): a scenario normally ends within seconds, the real-time
            # ones within ~15 s; a test still running after VERIF_REPLAY_TIMEOUT s hangs on this tree -> "did not run"
            out, _ = p.communicate(timeout=test_timeout or int(os.environ.get("VERIF_REPLAY_TIMEOUT", "300")))
        except subprocess.TimeoutExpired:
            os.killpg(p.pid, signal.SIGKILL)
            out, _ = p.communicate()
            res[t] = (None, "TIMEOUT (the scenario did not end on this tree)\n" + out[-3000:])
            continue
        ran = "running 1 test" in out
        passed = ran and "test result: ok. 1 passed" in out
        failed = ran and ("test result: FAILED" in out or "panicked at" in out)
        if not ran:
            why = "replay test did not run (build failure or test not found)"
            if blanked:
                why += "; replay file(s) that do not compile against this tree were left out of the build: %s" % ", ".join(sorted(blanked))
            res[t] = (None, why + "\n" + out[-4000:])
        else:
            res[t] = (passed and not failed, " ".join(cmd) + "\n" + out[-4000:])
    return res


_ISOLATED = None  # (blanked replay files, VERIF_DIR to build with): decided once per process


def _isolate_broken_replay_files(env, scratch, timeout):
    """The replay templates are compiled INTO the crate under test and may name private items.  A change that renames
    or re-types such an item breaks the build of the whole test binary, and with it every replay and every bounded
    stand-in of every property.  To keep that local: build once; if the compiler reports errors located in
    /verif/replays/<f>.rs, point VERIF_DIR at a scratch copy of the replay directory in which exactly those files are
    empty and build again.  Tests of the blanked files then "did not run" (undecided, never an alarm); all others run.
    Mutates env["VERIF_DIR"]; returns the set of blanked file names."""
    import re
    import shutil
    blanked = set()
    src = os.path.join(VERIF, "replays")
    for _ in range(4):
        cmd = ["cargo", "test", "--offline", "--lib", "--features", FEATURES, "--no-run"]
        p = subprocess.Popen(cmd, cwd=REPO, env=env, stdout=subprocess.PIPE, stderr=subprocess.STDOUT, text=True, start_new_session=True)
        try:
            out, _ = p.communicate(timeout=timeout)
        except subprocess.TimeoutExpired:
            os.killpg(p.pid, signal.SIGKILL)
            p.communicate()
            return blanked
        if p.returncode == 0:
            return blanked
        bad = _error_files(out, os.path.join(env["VERIF_DIR"], "replays")) - blanked
        if not bad:
            return blanked  # the crate itself does not build (or the error is elsewhere): nothing to isolate
        blanked |= bad
        # a stable place (same path for the same tree and the same set of left-out files): `env!("VERIF_DIR")` is part
        # of the crate's text, a path that changed from call to call would recompile the crate for every replay
        import hashlib
        key = hashlib.md5((os.path.realpath(REPO) + "|" + ",".join(sorted(blanked))).encode()).hexdigest()[:10]
        alt = os.path.join(os.environ.get("VERIF_ALT_ROOT", "/var/tmp"), "verif-replays-alt-" + key)
        shutil.rmtree(alt, ignore_errors=True)
        os.makedirs(os.path.join(alt, "replays"))
        for f in os.listdir(src):
            if not f.endswith(".rs"):
                continue
            if f in blanked:
                open(os.path.join(alt, "replays", f), "w").write("// left out: does not compile against the tree under test\n")
                os.utime(os.path.join(alt, "replays", f), (1, 1))  # fixed mtime: cargo must not see a change on every run
            else:
                shutil.copy2(os.path.join(src, f), os.path.join(alt, "replays", f))  # keeps the mtime
        env["VERIF_DIR"] = alt
    return blanked


def _error_files(out, replay_dir):
    """replay files that carry the PRIMARY span of an `error` diagnostic: the first `-->` of each diagnostic that starts
    with `error`.  Warnings and secondary spans do not count - the "consider importing ..." help of an error located in
    replays/eyeballs_internal.rs points at the `use` items of the including module in replays/eyeballs.rs, and blanking
    that file as well takes every public-surface template and stand-in of the unit out of the build."""
    import re
    files = set()
    kind, seen_primary = None, False
    for ln in out.splitlines():
        m = re.match(r"(error|warning)(\[[A-Z0-9]+\])?:", ln)
        if m:
            kind, seen_primary = m.group(1), False
            continue
        if kind == "error" and not seen_primary:
            m = re.match(r"\s*-->\s*(\S+?):\d+:\d+\s*$", ln)
            if m:
                seen_primary = True
                d, f = os.path.split(m.group(1))
                if d == replay_dir and re.fullmatch(r"[A-Za-z0-9_]+\.rs", f):
                    files.add(f)
    return files


def run_for(obligation, scratch, extra_env=None):
    idx = index()
    ent = idx.get(obligation)
    if not ent:
        return {"reproduced": False, "log": "no replay template for obligation %s" % obligation}
    tests = ent.get("tests") or [ent["test"]]
    r = cargo_test(tests, scratch, extra_env=extra_env)
    logs = []
    for t in tests:
        ok, log = r[t]
        if ok is False:
            return {"reproduced": True, "log": "replay test %s FAILS on the real code:\n%s" % (t, log), "test": t}
        logs.append("replay test %s %s\n%s" % (t, "passes on the real code (the scenario it encodes does not fail)" if ok else "did not run", log[-1500:]))
    return {"reproduced": False, "log": "\n".join(logs)}


def rerun(path):
    print(open(path).read())
    return 0
