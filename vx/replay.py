"""Replay templates: concrete tests against the REAL crate for obligations (DESIGN 3.5)."""
import json
import os
import subprocess
import signal

HERE = os.path.dirname(os.path.abspath(__file__))
VERIF = os.path.dirname(HERE)
REPO = os.environ.get("VERIF_REPO", "/repo")
FEATURES = "mocks,tls,tls-ring,sni,verif-hooks"


def index():
    """replays/index*.json: obligation -> {"test": "<module path>::<test fn>"}"""
    import glob
    res = {}
    for p in sorted(glob.glob(os.path.join(VERIF, "replays", "index*.json"))):
        with open(p) as f:
            res.update(json.load(f))
    return res


def cargo_test(tests, scratch, timeout=1500, extra_env=None):
    """run the named replay tests of the real crate (hooks on); returns {test: (passed, log)}"""
    env = dict(os.environ)
    env["RUST_BACKTRACE"] = "0"
    # dependency build cache (re-created when absent; cargo's fingerprints rebuild the crate itself whenever
    # /repo's working tree changed).  VERIF_CARGO_CACHE="" -> build in the scratch dir and delete afterwards.
    cache = os.environ.get("VERIF_CARGO_CACHE", "/var/tmp/verif-cargo-target")
    if cache and os.path.realpath(REPO) != "/repo":
        import hashlib
        cache = "%s-%s" % (cache, hashlib.md5(os.path.realpath(REPO).encode()).hexdigest()[:8])  # one cache per tree
    env["CARGO_TARGET_DIR"] = cache if cache else os.path.join(scratch, "target")
    env["CARGO_NET_OFFLINE"] = "true"
    env["VERIF_DIR"] = VERIF
    env.update(extra_env or {})
    res = {}
    for t in tests:
        cmd = ["cargo", "test", "--offline", "--lib", "--features", FEATURES, t, "--", "--exact", "--nocapture", "--test-threads", "1"]
        p = subprocess.Popen(cmd, cwd=REPO, env=env, stdout=subprocess.PIPE, stderr=subprocess.STDOUT, text=True, start_new_session=True)
        try:
            out, _ = p.communicate(timeout=timeout)
        except subprocess.TimeoutExpired:
            os.killpg(p.pid, signal.SIGKILL)
            out, _ = p.communicate()
            res[t] = (None, "TIMEOUT\n" + out[-3000:])
            continue
        ran = "running 1 test" in out
        passed = ran and "test result: ok. 1 passed" in out
        failed = ran and ("test result: FAILED" in out or "panicked at" in out)
        if not ran:
            res[t] = (None, "replay test did not run (build failure or test not found)\n" + out[-4000:])
        else:
            res[t] = (passed and not failed, " ".join(cmd) + "\n" + out[-4000:])
    return res


def run_for(obligation, scratch, extra_env=None):
    idx = index()
    ent = idx.get(obligation)
    if not ent:
        return {"reproduced": False, "log": "no replay template for obligation %s" % obligation}
    tests = ent.get("tests") or [ent["test"]]
    r = cargo_test(tests, scratch, extra_env=extra_env)
    logs = []
    for t in tests:
        ok, log = r[t]
        if ok is False:
            return {"reproduced": True, "log": "replay test %s FAILS on the real code:\n%s" % (t, log), "test": t}
        logs.append("replay test %s %s\n%s" % (t, "passes on the real code (the scenario it encodes does not fail)" if ok else "did not run", log[-1500:]))
    return {"reproduced": False, "log": "\n".join(logs)}


def rerun(path):
    print(open(path).read())
    return 0
