"""Small Rust-aware scanner used by the extractor.

It does *not* parse Rust.  It masks comments, string/char literals so that brace
matching and regex searches over the masked text are reliable, and it locates
items (struct / enum / const / fn / impl blocks / fns inside impl blocks) by
name, never by line number.
"""
import re


class ScanError(Exception):
    """Lost anchor / ambiguous anchor / unsupported construct -> exit 2, never a violation."""


def mask(src: str) -> str:
    """Return a string of the same length where the *contents* of comments,
    string literals and char literals are replaced by spaces (newlines kept)."""
    out = list(src)
    i, n = 0, len(src)

    def blank(a, b):
        for k in range(a, b):
            if out[k] != "\n":
                out[k] = " "

    while i < n:
        c = src[i]
        if src.startswith("//", i):
            j = src.find("\n", i)
            j = n if j < 0 else j
            blank(i, j)
            i = j
        elif src.startswith("/*", i):
            depth, j = 1, i + 2
            while j < n and depth:
                if src.startswith("/*", j):
                    depth += 1
                    j += 2
                elif src.startswith("*/", j):
                    depth -= 1
                    j += 2
                else:
                    j += 1
            blank(i, j)
            i = j
        elif c == '"' or (c in "br" and re.match(r'(b?r#*"|b")', src[i:i + 12])):
            m = re.match(r'(b?)(r(#*))?"', src[i:])
            raw = m.group(2) is not None
            hashes = m.group(3) or ""
            j = i + m.end()
            if raw:
                endtok = '"' + hashes
                k = src.find(endtok, j)
                if k < 0:
                    raise ScanError("unterminated raw string")
                blank(j, k)
                i = k + len(endtok)
            else:
                k = j
                while k < n and src[k] != '"':
                    k += 2 if src[k] == "\\" else 1
                blank(j, k)
                i = k + 1
        elif c == "'":
            # char literal or lifetime
            m = re.match(r"'(\\.[^']*|[^\\'])'", src[i:])
            if m:
                blank(i + 1, i + m.end() - 1)
                i += m.end()
            else:
                i += 1
        elif c == "b" and src.startswith("b'", i):
            m = re.match(r"b'(\\.[^']*|[^\\'])'", src[i:])
            if m:
                blank(i + 2, i + m.end() - 1)
                i += m.end()
            else:
                i += 1
        else:
            # skip identifiers so that e.g. `br` inside a name is not taken as a string prefix
            m = re.match(r"[A-Za-z_][A-Za-z0-9_]*", src[i:])
            if m and not re.match(r'(b?r#*"|b")', src[i:i + 12]):
                i += m.end()
            else:
                i += 1
    return "".join(out)


OPEN = {"(": ")", "[": "]", "{": "}"}
CLOSE = {v: k for k, v in OPEN.items()}


def match_close(m: str, i: int) -> int:
    """m[i] is an opening bracket in masked text; return index of its partner."""
    stack = []
    n = len(m)
    j = i
    while j < n:
        c = m[j]
        if c in OPEN:
            stack.append(c)
        elif c in CLOSE:
            if not stack or stack[-1] != CLOSE[c]:
                raise ScanError("unbalanced bracket at offset %d" % j)
            stack.pop()
            if not stack:
                return j
        j += 1
    raise ScanError("unbalanced bracket (eof)")


def find_body_open(m: str, start: int) -> int:
    """From `start` (at or after an item keyword) find the `{` that opens the
    item's body: the first `{` at paren/bracket/angle-free depth.  Also stops at
    `;` (bodiless item) and returns -1 in that case."""
    depth = 0
    j = start
    n = len(m)
    while j < n:
        c = m[j]
        if c in "([":
            depth += 1
        elif c in ")]":
            depth -= 1
        elif c == "{" and depth == 0:
            return j
        elif c == ";" and depth == 0:
            return -1
        j += 1
    raise ScanError("no body found")


def leading_attrs(src: str, m: str, item_start: int):
    """Attributes (`#[...]`, possibly multi-line) that directly precede the item.
    Doc comments and blank lines are skipped.  Returns a list of attribute texts
    (whitespace-normalised), nearest last."""
    res = []
    pos = src.rfind("\n", 0, item_start) + 1  # start of the item's line
    if src[pos:item_start].strip():
        return res
    while pos > 0:
        k = pos - 1  # newline ending previous line
        pls = src.rfind("\n", 0, k) + 1
        pline = src[pls:k].strip()
        if pline == "" :
            break
        if pline.startswith("//"):
            pos = pls
            continue
        if pline.endswith("]"):
            # find the `#[` that opens this attribute (may be several lines up)
            q = k
            depth = 0
            start = -1
            while q >= 0:
                c = m[q]
                if c == "]":
                    depth += 1
                elif c == "[":
                    depth -= 1
                    if depth == 0:
                        start = q
                        break
                q -= 1
            if start > 0 and m[start - 1] == "#":
                ls = src.rfind("\n", 0, start) + 1
                if src[ls:start - 1].strip() == "":
                    res.insert(0, re.sub(r"\s+", " ", src[start - 1:k].strip()))
                    pos = ls
                    continue
        break
    return res


class Item:
    def __init__(self, kind, name, start, body_open, end, header="", impl_header=None):
        self.kind = kind
        self.name = name
        self.start = start  # start of item keyword / visibility
        self.body_open = body_open
        self.end = end  # offset one past the closing brace or `;`
        self.header = header
        self.impl_header = impl_header


VIS = r"(?:pub(?:\s*\([^)]*\))?\s+)?"
FNQ = r"(?:(?:const|async|unsafe|extern\s+\"[^\"]*\")\s+)*"


class Source:
    def __init__(self, path: str):
        self.path = path
        with open(path) as f:
            self.src = f.read()
        self.m = mask(self.src)

    # ------------------------------------------------------------------
    def _item_end(self, kw_pos: int) -> tuple:
        bo = find_body_open(self.m, kw_pos)
        if bo < 0:
            # the `;` that ends a bodiless item is the first one outside brackets (`[T; 5]` has one inside)
            depth, j = 0, kw_pos
            while j < len(self.m):
                c = self.m[j]
                if c in "([{":
                    depth += 1
                elif c in ")]}":
                    depth -= 1
                elif c == ";" and depth == 0:
                    break
                j += 1
            return -1, j + 1
        end = match_close(self.m, bo) + 1
        return bo, end

    def _depth_at(self, pos: int, lo: int = 0) -> int:
        seg = self.m[lo:pos]
        return seg.count("{") - seg.count("}")

    def find_mod(self, name: str, lo=0, hi=None):
        hi = len(self.m) if hi is None else hi
        hits = []
        for mm in re.finditer(r"(?m)^[ \t]*" + VIS + r"mod\s+" + re.escape(name) + r"\s*\{", self.m[lo:hi]):
            s = lo + mm.start()
            if self._depth_at(s, lo) == 0:
                bo = lo + mm.end() - 1
                hits.append((bo + 1, match_close(self.m, bo)))
        if len(hits) != 1:
            raise ScanError("lost anchor: mod %s in %s (%d matches)" % (name, self.path, len(hits)))
        return hits[0]

    def find_plain(self, kind: str, name: str, lo=0, hi=None, pick=None) -> Item:
        """struct / enum / const / static / trait / fn (free) / type at brace depth 0 of [lo,hi).
        pick=k (1-based, optional): the item is defined more than once under item-level #[cfg]s
        (e.g. `struct Acceptor` with / without feature "stream"); take the k-th definition in textual order."""
        hi = len(self.m) if hi is None else hi
        if kind == "fn":
            pat = r"(?m)^[ \t]*(" + VIS + FNQ + r"fn\s+" + re.escape(name) + r")\b"
        else:
            pat = r"(?m)^[ \t]*(" + VIS + kind + r"\s+" + re.escape(name) + r")\b"
        hits = []
        for mm in re.finditer(pat, self.m[lo:hi]):
            s = lo + mm.start(1)
            if self._depth_at(s, lo) == 0:
                hits.append(s)
        if pick is not None and len(hits) > 1 and 1 <= pick <= len(hits):
            hits = [hits[pick - 1]]
        if len(hits) != 1:
            raise ScanError("lost anchor: %s %s in %s (%d matches)" % (kind, name, self.path, len(hits)))
        s = hits[0]
        bo, end = self._item_end(s)
        if kind == "struct" and bo < 0:
            # tuple struct `struct X(..);` handled by _item_end via ';'
            pass
        return Item(kind, name, s, bo, end)

    def impl_blocks(self, lo=0, hi=None):
        hi = len(self.m) if hi is None else hi
        res = []
        for mm in re.finditer(r"(?m)^[ \t]*((?:unsafe\s+)?impl\b)", self.m[lo:hi]):
            s = lo + mm.start(1)
            if self._depth_at(s, lo) != 0:
                continue
            bo = find_body_open(self.m, s)
            if bo < 0:
                continue
            end = match_close(self.m, bo) + 1
            header = re.sub(r"\s+", " ", self.src[s:bo]).strip()
            res.append(Item("impl", header, s, bo, end, header=header))
        return res

    def find_impl_fn(self, impl_pat: str, name: str, lo=0, hi=None) -> Item:
        """fn `name` inside the impl block(s) whose whitespace-normalised header
        matches the regex impl_pat.  Exactly one match is required."""
        rx = re.compile(impl_pat)
        hits = []
        for blk in self.impl_blocks(lo, hi):
            if not rx.search(blk.header):
                continue
            inner_lo, inner_hi = blk.body_open + 1, blk.end - 1
            pat = r"(?m)^[ \t]*(" + VIS + FNQ + r"fn\s+" + re.escape(name) + r")\b"
            for mm in re.finditer(pat, self.m[inner_lo:inner_hi]):
                s = inner_lo + mm.start(1)
                if self._depth_at(s, inner_lo) == 0:
                    bo, end = self._item_end(s)
                    hits.append(Item("fn", name, s, bo, end, impl_header=blk))
        if len(hits) != 1:
            raise ScanError("lost anchor: fn %s in impl /%s/ of %s (%d matches)" % (name, impl_pat, self.path, len(hits)))
        return hits[0]

    def text(self, a: int, b: int) -> str:
        return self.src[a:b]
