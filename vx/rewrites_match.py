"""Rewrite rules R16 / R17 / R18 (opt-in per fn: `:: matchrw=orsplit,guardelse,ready`), used by unit `checkout`.

Verus rejects two `match` shapes that occur in src/client/pool/checkout.rs once the enum pin-projections are
erased (R6e) and the arms therefore bind by `&mut`:

  "pattern containing both an or-pattern (|) and a binding by mutable reference"
  "match arm containing both a match-guard and a binding by mutable reference"

Both rules are purely structural and meaning preserving; anything outside the stated shape raises Unsupported
(the fn is then stubbed: undecided, never an alarm).

R16 `orsplit`    an arm whose pattern is a top-level alternation and binds a variable
                     P1 | P2 [if g] => BODY
                 becomes one arm per alternative with the body text repeated
                     P1 [if g] => BODY,  P2 [if g] => BODY
                 (Rust tries the alternatives of an or-pattern left to right and runs the same body: identical.)

R17 `guardelse`  a guarded arm that binds a variable and is followed by exactly one more arm, the unguarded
                 catch-all `_ => ELSE`
                     P if g => BODY,  _ => ELSE
                 becomes
                     P => { if g BODY-as-block else { ELSE } },  _ => ELSE
                 (if P matches and g is false, matching falls through to the only remaining arm `_`, i.e. ELSE;
                 `_` binds nothing, so ELSE means the same in both places.  g is evaluated exactly once in both
                 forms.)
"""
import re

from rustscan import mask, match_close

BIND_RE = re.compile(r"(?<![A-Za-z0-9_:])(?!(?:ref|mut|_)\b)[a-z_][a-z0-9_]*\b(?!\s*(?:::|\(|\{|!))")


class Arm:
    __slots__ = ("start", "end", "pat", "guard", "body", "is_block")


def _split_top(m, a, b, sep):
    """positions of `sep` (a single char) at bracket depth 0 in m[a:b]"""
    out, depth = [], 0
    i = a
    while i < b:
        c = m[i]
        if c in "([{":
            depth += 1
        elif c in ")]}":
            depth -= 1
        elif c == sep and depth == 0:
            out.append(i)
        i += 1
    return out


def parse_arms(t, m, bo, bc, unsupported):
    """arms of the match body t[bo+1:bc] (m = masked t)"""
    arms = []
    i = bo + 1
    while True:
        while i < bc and m[i] in " \t\r\n":
            i += 1
        if i >= bc:
            break
        a = Arm()
        a.start = i
        depth, j = 0, i
        while j < bc:
            c = m[j]
            if c in "([{":
                depth += 1
            elif c in ")]}":
                depth -= 1
            elif c == "=" and depth == 0 and m[j + 1] == ">":
                break
            j += 1
        if j >= bc:
            raise unsupported("match arm without `=>`")
        head = (i, j)
        # guard: ` if ` at depth 0 of the head
        g = None
        depth = 0
        for k in range(i, j):
            c = m[k]
            if c in "([{":
                depth += 1
            elif c in ")]}":
                depth -= 1
            elif depth == 0 and m[k:k + 2] == "if" and re.match(r"\bif\b", m[k:k + 3] + " ") and (k == i or not (m[k - 1].isalnum() or m[k - 1] == "_")) and not (m[k + 2].isalnum() or m[k + 2] == "_"):
                g = k
                break
        a.pat = t[i:(g if g is not None else j)].strip()
        a.guard = t[g + 2:j].strip() if g is not None else None
        k = j + 2
        while k < bc and m[k] in " \t\r\n":
            k += 1
        if m[k] == "{":
            e = match_close(m, k)
            a.body = t[k:e + 1]
            a.is_block = True
            k2 = e + 1
            while k2 < bc and m[k2] in " \t\r\n":
                k2 += 1
            if k2 < bc and m[k2] == ",":
                k = k2 + 1
            elif k2 < bc and m[k2] in ".?":
                raise unsupported("match arm whose block is continued by a method call")
            else:
                k = e + 1
        else:
            depth, e = 0, k
            while e < bc:
                c = m[e]
                if c in "([{":
                    depth += 1
                elif c in ")]}":
                    depth -= 1
                elif c == "," and depth == 0:
                    break
                e += 1
            a.body = t[k:e].strip()
            if "::<" in a.body:
                raise unsupported("turbofish in a match arm expression")
            a.is_block = False
            k = e + 1 if e < bc else e
        a.end = k
        arms.append(a)
        i = k
    return arms


def _binds(pat):
    return BIND_RE.search(mask(pat)) is not None


def _alternatives(pat):
    m = mask(pat)
    cuts = _split_top(m, 0, len(m), "|")
    if not cuts:
        return [pat]
    parts, a = [], 0
    for c in cuts:
        parts.append(pat[a:c].strip())
        a = c + 1
    parts.append(pat[a:].strip())
    return [p for p in parts if p]


def _render(pat, guard, body):
    return "%s%s => %s," % (pat, (" if " + guard) if guard else "", body)


def expand_ready(rw):
    """R18 `ready`: `ready!(E)` is replaced by its definition in core::task
           match E { Poll::Ready(t) => t, Poll::Pending => { return Poll::Pending; } }
    (the argument of a foreign macro is opaque to `verus!`: neither proof hints nor closure contracts can be
    placed inside it; the expansion is the macro's documented body, with a fresh variable name)."""
    n = 0
    while True:
        m = mask(rw.t)
        mm = re.search(r"(?<![A-Za-z0-9_])(?:std::task::|core::task::)?ready!\s*\(", m)
        if not mm:
            break
        pc = match_close(m, mm.end() - 1)
        arg = rw.t[mm.end():pc]
        rep = ("(match %s { std::task::Poll::Ready(ready_value__) => ready_value__, "
               "std::task::Poll::Pending => { return std::task::Poll::Pending; } })") % arg
        rw.t = rw.t[:mm.start()] + rep + rw.t[pc + 1:]
        n += 1
    rw.note("R18", n)


def apply(rw, which, unsupported):
    which = set(x.strip() for x in which.split(",") if x.strip())
    if "ready" in which:
        expand_ready(rw)
    n16 = n17 = 0
    progress = True
    while progress:
        progress = False
        t = rw.t
        m = mask(t)
        for mm in re.finditer(r"\bmatch\b", m):
            # the match body is the first `{` at depth 0 after the scrutinee
            depth, j = 0, mm.end()
            while j < len(m):
                c = m[j]
                if c in "([":
                    depth += 1
                elif c in ")]":
                    depth -= 1
                elif c == "{" and depth == 0:
                    break
                j += 1
            if j >= len(m):
                continue
            bo, bc = j, match_close(m, j)
            arms = parse_arms(t, m, bo, bc, lambda s: unsupported("unsupported construct: %s in %s" % (s, rw.what)))
            ls = t.rfind("\n", 0, arms[0].start) + 1 if arms else 0
            ind = t[ls:arms[0].start] if arms and t[ls:arms[0].start].strip() == "" else "            "
            new = None
            for k, a in enumerate(arms):
                alts = _alternatives(a.pat)
                if "orsplit" in which and len(alts) > 1 and _binds(a.pat):
                    new = (a.start, a.end, ("\n" + ind).join(_render(p, a.guard, a.body) for p in alts))
                    n16 += 1
                    break
                if "guardelse" in which and a.guard is not None and _binds(a.pat):
                    rest = arms[k + 1:]
                    # R17b: the NEXT arm has the very same pattern text and no guard: `P if g => A, P => E` is
                    # `P => if g { A } else { E }` (same bindings in both bodies); later arms are untouched
                    if rest and rest[0].guard is None and re.sub(r"\s+", "", rest[0].pat) == re.sub(r"\s+", "", a.pat):
                        blk = a.body if a.is_block else "{ %s }" % a.body
                        els = rest[0].body if rest[0].is_block else "{ %s }" % rest[0].body
                        new = (a.start, rest[0].end, "%s => { if %s %s else %s }," % (a.pat, a.guard, blk, els))
                        n17 += 1
                        break
                    if not (len(rest) == 1 and rest[0].pat == "_" and rest[0].guard is None):
                        raise unsupported("unsupported construct: guarded match arm binding a variable that is not followed by a single `_` arm (R17) in %s" % rw.what)
                    blk = a.body if a.is_block else "{ %s }" % a.body
                    els = rest[0].body if rest[0].is_block else "{ %s }" % rest[0].body
                    new = (a.start, a.end, "%s => { if %s %s else %s }," % (a.pat, a.guard, blk, els))
                    n17 += 1
                    break
            if new:
                s, e, rep = new
                rw.t = t[:s] + rep + t[e:]
                progress = True
                break
    rw.note("R16", n16)
    rw.note("R17", n17)
    return rw.t
