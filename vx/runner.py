"""Engine V, steps 2-7: run Verus on a generated unit, map diagnostics to obligations,
run the reach (vacuity) pass and the assumption scan."""
import json
import os
import re
import shutil
import subprocess
import sys
import tempfile
import time
import signal

sys.path.insert(0, os.path.dirname(os.path.abspath(__file__)))
import extract  # noqa: E402
from rustscan import ScanError  # noqa: E402

VERUS = shutil.which("verus") or "/opt/veriftools/verus/verus"
RLIMIT = os.environ.get("VERIF_RLIMIT", "60")


class Undecided(Exception):
    pass


def run_cmd(cmd, cwd, timeout):
    """run in its own process group; kill the group on timeout"""
    p = subprocess.Popen(cmd, cwd=cwd, stdout=subprocess.PIPE, stderr=subprocess.PIPE, text=True,
                         start_new_session=True)
    try:
        out, err = p.communicate(timeout=timeout)
    except subprocess.TimeoutExpired:
        try:
            os.killpg(p.pid, signal.SIGKILL)
        except ProcessLookupError:
            pass
        out, err = p.communicate()
        return None, out, err
    return p.returncode, out, err


def verus_cmd(fname, extra=()):
    return [VERUS, fname, "--error-format=json", "--output-json", "--time", "--triggers-mode", "silent",
            "--multiple-errors", "40", "--rlimit", RLIMIT] + list(extra)


def parse_diags(err_text):
    diags = []
    raw = []
    for ln in err_text.splitlines():
        ln = ln.strip()
        if not ln.startswith("{"):
            if ln:
                raw.append(ln)
            continue
        try:
            d = json.loads(ln)
        except ValueError:
            raw.append(ln)
            continue
        if d.get("level") in ("error", "warning", "note"):
            diags.append(d)
    return diags, raw


NOT_SAT = ("postcondition not satisfied", "precondition not satisfied", "invariant not satisfied",
           "assertion failed", "unable to prove post-condition of closure", "assertion not satisfied",
           "loop invariant not satisfied", "loop invariant not preserved", "possible arithmetic underflow/overflow",
           "possible division by zero", "recommendation not met", "failed precondition",
           "unable to prove pre-condition", "termination", "decreases not satisfied",
           "index out of bounds", "unreachable", "call to non-returning function")


def _our_span(s):
    """the span itself if it lies in the unit file, else the outermost macro call site that does, else None"""
    cur = s
    for _ in range(12):
        if "/" not in (cur.get("file_name") or ""):
            if cur is not s:
                cur = dict(cur, is_primary=s.get("is_primary"), label=s.get("label"))
            return cur
        exp = cur.get("expansion")
        if not exp or not exp.get("span"):
            return None
        cur = exp["span"]
    return None


def classify(unit, diags):
    """-> (failed: {obl: [diag summaries]}, unattributed: [summaries], hard_errors: [summaries])"""
    failed, unattr, hard = {}, [], []
    line_obl = {}
    for name, o in unit.obligations.items():
        for ln in o["lines"]:
            line_obl.setdefault(ln, []).append(name)
    # continuation: a clause may span several lines, tag on its last line -> map span ranges
    for d in diags:
        if d.get("level") != "error":
            continue
        msg = d.get("message", "")
        if msg.startswith("aborting due to"):
            continue
        spans = d.get("spans", [])
        summary = {"message": msg, "spans": [(s.get("line_start"), s.get("line_end"), s.get("label"), s.get("is_primary")) for s in spans]}
        is_proof_failure = any(k in msg for k in NOT_SAT)
        if _is_rlimit(msg):
            continue  # a solver resource limit is neither a front-end error nor a failed obligation: see verify_unit
        if not is_proof_failure:
            hard.append(summary)
            continue
        hit = set()
        # a span inside vstd / core (the `requires` of a panic spec, the body of `unreachable!`): its line numbers are
        # not ours - follow the macro expansion chain back to the call site in the unit file, else drop it
        spans = [x for x in (_our_span(s) for s in spans) if x is not None]
        for s in spans:
            if (s.get("label") or "").startswith("at the end of the function body"):
                continue  # covers the whole body: would blame every tagged hint inside it for a failed postcondition
            for ln in range(s.get("line_start", 0), s.get("line_end", 0) + 1):
                for name in line_obl.get(ln, []):
                    hit.add(name)
        # which function does the failure sit in?
        fn = None
        ours = [s for s in spans if "/" not in (s.get("file_name") or "")]
        prim = [s for s in ours if s.get("is_primary")] or ours or [s for s in spans if s.get("is_primary")] or spans
        if prim:
            fn = fn_at_line(unit, prim[0].get("line_start", 0))
        summary["function"] = fn
        if not hit and fn and "precondition not satisfied" in msg:
            # panic sites (`unreachable!`, `debug_assert!`, `expect`, `unwrap`: vstd gives them the
            # precondition `false` / `is Ok`) carry no clause line of ours.  Convention: an obligation named
            # `*.no_panic` written on a contract line of function f owns every otherwise unattributed
            # precondition failure inside f.
            for name, o in unit.obligations.items():
                if name.endswith(".no_panic") and any(fn_at_line(unit, ln) == fn for ln in o["lines"]):
                    hit.add(name)
        if hit:
            for name in hit:
                failed.setdefault(name, []).append(summary)
        else:
            unattr.append(summary)
    return failed, unattr, hard


def _is_rlimit(msg):
    return "Resource limit" in msg or "rlimit" in msg.lower() or "timed out" in msg.lower()


_FN_RE = re.compile(r"^\s*(?:pub\s+)?(?:async\s+)?(?:proof\s+|spec\s+|open\s+spec\s+|closed\s+spec\s+)?fn\s+([A-Za-z_][A-Za-z0-9_]*)")


def fn_at_line(unit, line):
    """name of the fn whose text contains `line` (1-based) - nearest `fn` header above"""
    for i in range(min(line, len(unit.lines)) - 1, -1, -1):
        m = _FN_RE.match(unit.lines[i])
        if m:
            return m.group(1)
    return None


def scan_assumptions(unit):
    """mechanical scan: every assume/admit/external_body/assume_specification/axiom/uninterp in the
    generated text; any inside an extracted item is an error"""
    found = []
    bad = []
    pat = re.compile(r"\b(assume\s*\(|admit\s*\(|external_body|assume_specification|axiom\s+fn|uninterp\s+spec|external_type_specification|external_trait_specification)")
    for i, ln in enumerate(unit.lines):
        code = ln.split("//")[0]
        m = pat.search(code)
        if not m:
            continue
        origin = unit.origin[i]
        item = (m.group(1).strip(" ("), code.strip()[:140], origin[1])
        if origin[0] == "import":
            # (additive) the `external_body` of an imported contract (`//@ import`): not an assumption of this unit - the
            # contract text is the one the exporting unit proves; listed under its own kind, once per stub
            item = ("imported-contract", origin[1], "proved in unit %s" % origin[1].rsplit(" ", 1)[-1])
            if item not in found:
                found.append(item)
            continue
        if origin[0] == "repo":
            bad.append(item)
        else:
            found.append(item)
    return found, bad


def _run_verus(text, fname, scratch, extra=()):
    with open(fname, "w") as f:
        f.write(text)
    cmd = verus_cmd(os.path.basename(fname), extra)
    rc, out, err = run_cmd(cmd, scratch, int(os.environ.get("VERIF_VERUS_TIMEOUT", "900")))
    if rc is None:
        raise Undecided("verus timeout")
    return cmd, out, err


def fn_key_at(unit, line):
    for k, (a, b) in unit.fn_lines.items():
        if a <= line <= b:
            return k
    return None


def verify_unit(unit_name, scratch, reach=True, mutate=None, seed=None, tag="", tolerate_rlimit=False):
    """returns a dict describing the run.  Raises Undecided for tool problems.

    Isolation loop: a front-end (rustc / unsupported-construct) error located inside an extracted fn does not
    abort the unit.  First the statement-anchored proof hints of that fn are dropped (they may mention locals that
    no longer exist); if its body still does not pass the front end the fn is emitted as an `external_body` stub:
    callers are still checked against its contract, its own obligations become UNDECIDED (never a violation
    without a failing replay on the real code)."""
    t0 = time.time()
    extra = []
    if seed is not None:
        extra = ["--smt-option", "smt.random_seed=%d" % seed]
    stub, nohints = set(), set()
    attempts = []
    unit = None
    for attempt in range(8):
        try:
            unit = extract.build_unit(unit_name, reach=False, mutate=mutate, stub=stub, nohints=nohints)
        except ScanError as e:
            raise Undecided("extraction: %s" % e)
        fname = os.path.join(scratch, "%s%s.rs" % (unit_name, tag))
        cmd, out, err = _run_verus(unit.text(), fname, scratch, extra)
        try:
            oj = json.loads(out)
        except ValueError:
            raise Undecided("verus produced no JSON: %s" % (err[-2000:],))
        diags, raw = parse_diags(err)
        failed, unattr, hard = classify(unit, diags)
        vr = oj.get("verification-results", {})
        if not hard:
            break
        progressed = False
        for h in hard:
            prim = [sp for sp in h["spans"] if sp[3]] or h["spans"]
            key = fn_key_at(unit, prim[0][0]) if prim else None
            if key is None:
                continue
            if key in getattr(unit, "imports", {}):
                # (additive) the error sits in an imported contract: its text does not compile against this unit (a spec
                # function it mentions is not in scope, or the exporting contract changed shape) - nothing to isolate
                raise Undecided("imported contract %s (from unit %s) does not pass the front end in unit %s: %s"
                                % (key, unit.imports[key]["unit"], unit_name, h["message"][:300]))
            if key not in nohints and unit.fn_has_hints.get(key):
                nohints.add(key)
                progressed = True
            elif key not in stub and key not in unit.stubbed:
                stub.add(key)
                progressed = True
            attempts.append("%s: %s" % (key, h["message"][:160]))
        if not progressed:
            msgs = "; ".join(h["message"][:300] for h in hard[:5]) or "; ".join(raw[:5])
            raise Undecided("verus front-end / tool error in unit %s (outside the extracted functions): %s" % (unit_name, msgs))
    else:
        raise Undecided("verus front-end errors persist in unit %s: %s" % (unit_name, "; ".join(attempts[-4:])))
    rl = [d for d in diags if d.get("level") == "error" and _is_rlimit(d.get("message", ""))]
    rl_fns = sorted({fn_at_line(unit, sp.get("line_start", 0)) or "?" for d in rl for sp in d.get("spans", [])[:1]})
    if vr.get("encountered-vir-error") or (not vr.get("success") and not failed and not unattr and not rl):
        raise Undecided("verus tool error in unit %s: %s" % (unit_name, "; ".join(raw[:5])))
    if rl and not tolerate_rlimit:
        raise Undecided("solver resource limit in unit %s (fn %s): %s" % (unit_name, ", ".join(rl_fns), rl[0]["message"][:200]))
    res = {
        "unit": unit, "failed": failed, "unattributed": unattr, "verified": vr.get("verified", 0),
        "errors": vr.get("errors", 0), "times": oj.get("times-ms", {}), "cmd": " ".join(cmd), "wall_s": time.time() - t0,
        "file": fname, "stderr": err, "stubbed": dict(unit.stubbed), "isolation": attempts, "rlimit_fns": rl_fns,
        "imports": dict(getattr(unit, "imports", {})),
    }
    # ---- reach pass: every contracted, non-stubbed function must fail at its REACH line
    if reach:
        try:
            runit = extract.build_unit(unit_name, reach=True, mutate=mutate, stub=stub, nohints=nohints)
        except ScanError as e:
            raise Undecided("extraction (reach): %s" % e)
        rname = os.path.join(scratch, "%s%s_reach.rs" % (unit_name, tag))
        _, rout, rerr = _run_verus(runit.text(), rname, scratch)
        rdiags, _ = parse_diags(rerr)
        reach_lines = {}
        for i, ln in enumerate(runit.lines, 1):
            m = re.search(r"// REACH (\S+)", ln)
            if m:
                reach_lines[i] = m.group(1)
        hit = set()
        for d in rdiags:
            if d.get("level") != "error" or "assertion failed" not in d.get("message", ""):
                continue
            for sp in d.get("spans", []):
                for ln in range(sp.get("line_start", 0), sp.get("line_end", 0) + 1):
                    if ln in reach_lines:
                        hit.add(ln)
        missing = [reach_lines[ln] for ln in reach_lines if ln not in hit]
        res["reach_total"] = len(reach_lines)
        res["reach_hit"] = len(hit)
        if missing:
            raise Undecided("vacuity: precondition of %s is contradictory or its entry is unreachable (reach pass did not fail there)" % ", ".join(missing))
    found, bad = scan_assumptions(unit)
    if bad:
        raise Undecided("assumption inside extracted code: %r" % (bad[:3],))
    res["trusted"] = found
    return res
