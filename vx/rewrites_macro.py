"""Rewrite rule R21 (opt-in per fn: `:: macros=dispatch_core,dispatch`), used by the units `streams*`.

The enum-dispatch methods of src/stream/core.rs and src/stream/tls.rs have bodies that are a single call of a
file-local `macro_rules!` macro (`dispatch_core!(self.poll_read(cx, buf))`).  `verus!` cannot look into a foreign macro
call, and writing the expansion down by hand would verify a look-alike.  R21 performs the expansion mechanically:

    NAME!( ARGS )   ->   ( TRANSCRIPTION )

where the macro's *definition* is read from the same source file of the repository on every run, ARGS are matched
against its (single) pattern and the fragments are substituted into its (single) transcriber - i.e. what rustc does
for this shape of macro.  A changed definition (an arm dropped, another method called, arguments reordered) therefore
changes the verified text.  Everything outside the supported shape raises Unsupported (the fn is stubbed: undecided,
never an alarm):

  * exactly one rule `( PATTERN ) => { BODY }`;
  * PATTERN is a sequence of literal punctuation tokens, `$x:ident`, `$x:expr` and `$( $x:expr ),+` / `,*`
    (a repetition must be closed by a literal token, e.g. the `)` of an argument list);
  * BODY mentions fragments as `$x` and repetitions as `$( $x ),+` / `,*` only;
  * hygiene: `macro_rules!` hygiene only concerns local bindings.  An identifier that the BODY itself binds or uses
    (`stream`) must not occur in an `expr` fragment of the call (it would be captured by the plain-text substitution
    but not by rustc) - refused.  `ident` fragments (`self`, the method name) are substituted as they are.
"""
import re

from rustscan import mask, match_close

_FRAG = re.compile(r"\$([A-Za-z_][A-Za-z0-9_]*)\s*:\s*([a-z]+)")
_IDENT = re.compile(r"[A-Za-z_][A-Za-z0-9_]*")
_KEYWORDS = {"match", "if", "else", "let", "mut", "ref", "return", "as", "in", "for", "while", "loop", "move", "true", "false"}


def _definition(src, name, unsupported):
    m = src.m
    hits = [mm for mm in re.finditer(r"\bmacro_rules!\s*%s\s*\{" % re.escape(name), m)]
    if len(hits) != 1:
        raise unsupported("macro_rules! %s: %d definitions in the source file" % (name, len(hits)))
    bo = hits[0].end() - 1
    bc = match_close(m, bo)
    i = bo + 1
    while m[i] in " \t\r\n":
        i += 1
    if m[i] != "(":
        raise unsupported("macro_rules! %s: rule does not start with `(`" % name)
    pe = match_close(m, i)
    pattern = src.src[i + 1:pe]
    j = pe + 1
    while m[j] in " \t\r\n":
        j += 1
    if m[j:j + 2] != "=>":
        raise unsupported("macro_rules! %s: `=>` expected" % name)
    j += 2
    while m[j] in " \t\r\n":
        j += 1
    if m[j] != "{":
        raise unsupported("macro_rules! %s: transcriber is not a `{ .. }` block" % name)
    be = match_close(m, j)
    body = src.src[j + 1:be]
    rest = m[be + 1:bc].strip()
    if rest not in ("", ";"):
        raise unsupported("macro_rules! %s has more than one rule" % name)
    # (comments inside the transcriber are removed by R2 afterwards: R21 runs first)
    return pattern, body


def _parse_pattern(p, name, unsupported):
    """-> list of ('lit', tok) | ('ident', x) | ('expr', x) | ('rep', x, op)"""
    elems = []
    i = 0
    while i < len(p):
        c = p[i]
        if c in " \t\r\n":
            i += 1
            continue
        if p.startswith("$(", i):
            pc = match_close(mask(p), i + 1)
            inner = p[i + 2:pc].strip()
            fm = _FRAG.fullmatch(inner)
            tail = re.match(r"\s*,\s*([+*])", p[pc + 1:])
            if not fm or fm.group(2) != "expr" or not tail:
                raise unsupported("macro_rules! %s: repetition `%s` is not `$( $x:expr ),+`" % (name, p[i:pc + 1]))
            elems.append(("rep", fm.group(1), tail.group(1)))
            i = pc + 1 + tail.end()
            continue
        if c == "$":
            fm = _FRAG.match(p, i)
            if not fm or fm.group(2) not in ("ident", "expr"):
                raise unsupported("macro_rules! %s: fragment at `%s` is neither ident nor expr" % (name, p[i:i + 24]))
            elems.append((fm.group(2), fm.group(1)))
            i = fm.end()
            continue
        if c.isalnum() or c == "_":
            im = _IDENT.match(p, i)
            elems.append(("lit", im.group(0)))
            i = im.end()
            continue
        elems.append(("lit", c))
        i += 1
    return elems


def _scan_to(m, pos, end, stop):
    """first offset >= pos where one of the characters `stop` occurs at bracket depth 0 (else end)"""
    depth, j = 0, pos
    while j < end:
        c = m[j]
        if depth == 0 and c in stop:
            return j
        if c in "([{":
            depth += 1
        elif c in ")]}":
            depth -= 1
        j += 1
    return end


def _match(elems, t, name, unsupported):
    m = mask(t)
    pos, end = 0, len(t)
    binds = {}
    for k, e in enumerate(elems):
        while pos < end and t[pos] in " \t\r\n":
            pos += 1
        if e[0] == "lit":
            if not t.startswith(e[1], pos):
                raise unsupported("call of %s! does not match its pattern at `%s`" % (name, t[pos:pos + 24]))
            pos += len(e[1])
        elif e[0] == "ident":
            im = _IDENT.match(t, pos)
            if not im:
                raise unsupported("call of %s!: identifier expected at `%s`" % (name, t[pos:pos + 24]))
            binds[e[1]] = im.group(0)
            pos = im.end()
        else:
            nxt = elems[k + 1] if k + 1 < len(elems) else None
            if nxt is not None and (nxt[0] != "lit" or nxt[1] not in (")", "]", "}", ",", ";")):
                raise unsupported("macro_rules! %s: an expr fragment must be followed by a closing token, `,` or `;`" % name)
            if e[0] == "expr":
                j = _scan_to(m, pos, end, nxt[1] if nxt else "")
                frag = t[pos:j].strip()
                if not frag:
                    raise unsupported("call of %s!: empty expression" % name)
                binds[e[1]] = frag
            else:
                if nxt is not None and nxt[1] in (",", ";"):
                    raise unsupported("macro_rules! %s: repetition not closed by a bracket" % name)
                j = _scan_to(m, pos, end, nxt[1] if nxt else "")
                parts, a = [], pos
                while True:
                    c = _scan_to(m, a, j, ",")
                    parts.append(t[a:c].strip())
                    if c >= j:
                        break
                    a = c + 1
                if parts == [""]:
                    parts = []
                if any(x == "" for x in parts) or (e[2] == "+" and not parts):
                    raise unsupported("call of %s!: argument list does not match `$(..),%s`" % (name, e[2]))
                binds[e[1]] = parts
            pos = j
    if t[pos:].strip():
        raise unsupported("call of %s!: trailing tokens `%s`" % (name, t[pos:].strip()[:24]))
    return binds


def _transcribe(body, binds, elems, name, unsupported):
    kinds = {e[1]: e[0] for e in elems if e[0] != "lit"}
    # hygiene (see module doc)
    own = set(_IDENT.findall(re.sub(r"\$[A-Za-z_][A-Za-z0-9_]*", " ", mask(body)))) - _KEYWORDS
    for x, v in binds.items():
        if kinds[x] == "ident":
            continue
        for frag in (v if isinstance(v, list) else [v]):
            clash = own & set(_IDENT.findall(mask(frag)))
            clash = {c for c in clash if c[0].islower() or c[0] == "_"}
            if clash:
                raise unsupported("call of %s!: argument `%s` mentions `%s`, which the macro body uses itself (hygiene)" % (name, frag, sorted(clash)[0]))

    def rep(mm):
        x = mm.group(1)
        if kinds.get(x) != "rep":
            raise unsupported("macro_rules! %s: `$(%s)` is not a repetition of the pattern" % (name, x))
        return ", ".join(binds[x])

    out = re.sub(r"\$\(\s*\$([A-Za-z_][A-Za-z0-9_]*)\s*\)\s*,\s*[+*]", rep, body)

    def one(mm):
        x = mm.group(1)
        if kinds.get(x) not in ("ident", "expr"):
            raise unsupported("macro_rules! %s: `$%s` is not a fragment of the pattern" % (name, x))
        return binds[x] if kinds[x] == "ident" else "(" + binds[x] + ")" if not _IDENT.fullmatch(binds[x]) else binds[x]

    out = re.sub(r"\$([A-Za-z_][A-Za-z0-9_]*)", one, out)
    if "$" in mask(out):
        raise unsupported("macro_rules! %s: transcriber construct outside R21" % name)
    return out.strip()


def apply(rw, names, unsupported_cls):
    def unsupported(s):
        return unsupported_cls("unsupported construct: %s in %s" % (s, rw.what))

    n = 0
    for name in [x.strip() for x in names.split(",") if x.strip()]:
        while True:
            m = mask(rw.t)
            mm = re.search(r"(?<![A-Za-z0-9_:])%s!\s*([(\[{])" % re.escape(name), m)
            if not mm:
                break
            pattern, body = _definition(rw.macro_src, name, unsupported)
            elems = _parse_pattern(pattern, name, unsupported)
            pc = match_close(m, mm.end() - 1)
            binds = _match(elems, rw.t[mm.end():pc], name, unsupported)
            rw.t = rw.t[:mm.start()] + "(" + _transcribe(body, binds, elems, name, unsupported) + ")" + rw.t[pc + 1:]
            n += 1
    rw.note("R21", n)
