"""Rewrite rule R22 (opt-in per fn, `:: entryrw=1`), for the one construct Verus 0.2026.09.13 rejects here:

  a closure that captures a `&mut` place of its environment (`|| { .. self.counter = .. }`) handed to
  `Entry::or_insert_with`.

R22   RECV.entry(K).or_insert_with(|| BODY)
        ->
      (match RECV.entry(K) { Entry::Occupied(vx_slot) => vx_slot.into_mut(), Entry::Vacant(vx_slot) => vx_slot.insert({ BODY }) })

This is the body of `or_insert_with` itself, with the closure call `default()` replaced by the closure's body
(beta reduction of a closure without parameters that is called exactly once, at that place):

  std 1.98, library/std/src/collections/hash/map.rs, impl<'a, K, V> Entry<'a, K, V>:
      pub fn or_insert_with<F: FnOnce() -> V>(self, default: F) -> &'a mut V {
          match self {
              Occupied(entry) => entry.into_mut(),
              Vacant(entry) => entry.insert(default()),
          }
      }

  http 1.3.1, src/header/map.rs, impl<'a, T> Entry<'a, T>  (`VacantEntry::insert(v)` IS `try_insert(v).expect("size overflows
  MAX_SIZE")`, so `or_try_insert_with(default).expect(..)` and the match below with `e.insert(default())` are the same):
      pub fn or_insert_with<F: FnOnce() -> T>(self, default: F) -> &'a mut T {
          self.or_try_insert_with(default).expect("size overflows MAX_SIZE")
      }
      pub fn or_try_insert_with<F: FnOnce() -> T>(self, default: F) -> Result<&'a mut T, MaxSizeReached> {
          use self::Entry::*;
          match self {
              Occupied(e) => Ok(e.into_mut()),
              Vacant(e) => e.try_insert(default()),
          }
      }

R22v  the same expansion for an `or_insert_with` called on a LET-BOUND entry variable,
        let Ok(v) = RECV.try_entry(K) else { ELSE };   (or  let v = RECV.entry(K);)
        ...
        v.or_insert_with(|| BODY)
          ->
        (match v { Entry::Occupied(vx_slot) => vx_slot.into_mut(), Entry::Vacant(vx_slot) => vx_slot.insert({ BODY }) })
      The `let .. else` itself is left as written (Verus 0.2026.09.13 accepts let-else; probe in notes/smallfns.md), so no
      desugaring is part of the rule.  Accepted only when `v` is a plain identifier (not a field, not a path) and the fn
      text contains exactly such a binding of `v` - i.e. `v` IS an Entry obtained from `try_entry` / `entry`; anything
      else is refused as before.

WHAT IS KEPT: the order of evaluation (RECV, K, the entry lookup, then BODY only in the vacant case), BODY token for token
(as a block expression), the `&mut V` result.  The unit must have an `Entry` with variants `Occupied` / `Vacant` in scope
(`std::collections::hash_map::Entry`, or the stand-in for `http::header::Entry`).

REFUSED (Unsupported -> the fn is stubbed: undecided, never an alarm) - anything outside that exact shape:
  * `.or_insert_with(` not directly preceded by `.entry(<one balanced argument list>)`;
  * the argument is not exactly one closure literal without parameters `|| BODY` (a `move` closure, a closure with
    parameters, a fn path, a second argument);
  * BODY contains `return`, `?`, `.await`, `break` or `continue` anywhere (also inside a nested closure or loop, where
    they would be harmless - the rule does not try to tell): in the closure they leave the closure, after inlining they
    would leave the enclosing fn / loop;
  * the receiver RECV is not a plain postfix chain (identifiers, `.field`, `::path`, `(..)` argument lists, `[..]`, `?`-free);
  * the binder name `vx_slot` already occurs in the fn.
Every `.entry(..).or_insert_with(..)` of the fn is rewritten (textual order); a fn without one is left alone (x0).
"""
import re

from rustscan import mask, match_close

BINDER = "vx_slot"
_LEAVES = re.compile(r"(?<![A-Za-z0-9_])(return|break|continue)(?![A-Za-z0-9_])|\?|\.\s*await(?![A-Za-z0-9_])")


def _match_open(m, close):
    """index of the bracket that closes at `close` (scan backwards over the masked text)"""
    pairs = {")": "(", "]": "[", "}": "{"}
    want = pairs[m[close]]
    depth = 0
    i = close
    while i >= 0:
        c = m[i]
        if c in ")]}":
            depth += 1
        elif c in "([{":
            depth -= 1
            if depth == 0:
                return i if c == want else -1
        i -= 1
    return -1


def _receiver_start(m, dot):
    """start of the postfix chain that ends right before the `.` at index `dot`"""
    i = dot
    while True:
        # skip whitespace to the left
        j = i - 1
        while j >= 0 and m[j].isspace():
            j -= 1
        if j < 0:
            return -1
        c = m[j]
        if c in ")]":
            o = _match_open(m, j)
            if o < 0:
                return -1
            i = o
            # an argument list / index belongs to the path or method name before it (or is a parenthesised expr)
            k = o - 1
            while k >= 0 and m[k].isspace():
                k -= 1
            if k >= 0 and (m[k].isalnum() or m[k] == "_" or m[k] == ">"):
                continue
            return o
        if c.isalnum() or c == "_":
            k = j
            while k >= 0 and (m[k].isalnum() or m[k] == "_"):
                k -= 1
            i = k + 1
            # what precedes the identifier: `.` or `::` continue the chain
            p = k
            while p >= 0 and m[p].isspace():
                p -= 1
            if p >= 0 and m[p] == ".":
                i = p
                continue
            if p >= 1 and m[p] == ":" and m[p - 1] == ":":
                i = p - 1
                continue
            return i
        return -1


def apply_entryrw(rw, unsupported):
    n = 0
    if re.search(r"(?<![A-Za-z0-9_])%s(?![A-Za-z0-9_])" % BINDER, mask(rw.t)):
        raise unsupported("unsupported construct: identifier `%s` already in use (R22) in %s" % (BINDER, rw.what))
    pos = 0
    while True:
        t = rw.t
        m = mask(t)
        mm = re.compile(r"\.\s*or_insert_with\s*\(").search(m, pos)
        if not mm:
            break

        def bad(why):
            snippet = re.sub(r"\s+", " ", t[max(0, mm.start() - 40):mm.end() + 30])
            return unsupported("unsupported construct: %s near `%s` (R22) in %s" % (why, snippet, rw.what))

        # --- the argument: exactly `|| BODY` ---
        ao = mm.end() - 1
        ac = match_close(m, ao)
        arg, arg_m = t[ao + 1:ac], m[ao + 1:ac]
        cm = re.match(r"\s*\|\s*\|", arg_m)
        if not cm:
            raise bad("argument of or_insert_with is not a closure literal without parameters `|| ..`")
        body, body_m = arg[cm.end():], arg_m[cm.end():]
        if re.match(r"\s*->", body_m):
            raise bad("closure with a declared return type")
        if not body_m.strip():
            raise bad("empty closure body")
        # one argument only: no `,` at depth 0 of the argument (a trailing comma is tolerated)
        depth = 0
        for k, c in enumerate(body_m):
            if c in "([{":
                depth += 1
            elif c in ")]}":
                depth -= 1
            elif c == "," and depth == 0 and body_m[k + 1:].strip():
                raise bad("or_insert_with called with more than one argument")
        body = body.rstrip()
        if body.endswith(","):
            body = body[:-1].rstrip()
        lv = _LEAVES.search(mask(body))
        if lv:
            raise bad("closure body contains `%s` (would leave the enclosing fn after inlining)" % lv.group(0).strip())
        # --- `.entry(K)` directly before ---
        j = mm.start() - 1
        while j >= 0 and m[j].isspace():
            j -= 1
        if j >= 0 and (m[j].isalnum() or m[j] == "_"):
            # R22v: receiver is a let-bound Entry variable
            k = j
            while k >= 0 and (m[k].isalnum() or m[k] == "_"):
                k -= 1
            var = m[k + 1:j + 1]
            q = k
            while q >= 0 and m[q].isspace():
                q -= 1
            if q >= 0 and m[q] in ".:":
                raise bad("receiver of `.or_insert_with(` is a field or path, not a let-bound Entry variable")
            bind = re.search(r"\blet\s+Ok\s*\(\s*%s\s*\)\s*=[^;{]*?\.\s*try_entry\s*\(|\blet\s+%s\s*=[^;{]*?\.\s*entry\s*\(" % (re.escape(var), re.escape(var)), m[:k + 1])
            if not re.match(r"[a-z_][a-z0-9_]*$", var) or not bind:
                raise bad("`%s.or_insert_with(` but `%s` is not bound by `let Ok(%s) = ...try_entry(..) else` / `let %s = ...entry(..)`" % (var, var, var, var))
            blk = body.strip()
            if not (blk.startswith("{") and match_close(mask(blk), 0) == len(blk) - 1):
                blk = "{ " + blk + " }"
            new = ("(match %s { Entry::Occupied(%s) => %s.into_mut(), Entry::Vacant(%s) => %s.insert(%s) })"
                   % (var, BINDER, BINDER, BINDER, BINDER, blk))
            rw.t = t[:k + 1] + new + t[ac + 1:]
            pos = k + 1 + len(new)
            n += 1
            continue
        if j < 0 or m[j] != ")":
            raise bad("`.or_insert_with(` is not directly preceded by `.entry(..)`")
        ko = _match_open(m, j)
        em = re.search(r"\.\s*entry\s*$", m[:ko]) if ko > 0 else None
        if not em:
            raise bad("`.or_insert_with(` is not directly preceded by `.entry(..)`")
        rs = _receiver_start(m, em.start())
        if rs < 0 or not m[rs:em.start()].strip():
            raise bad("receiver of `.entry(..)` is not a plain postfix chain")
        if "?" in m[rs:em.start()]:
            raise bad("receiver of `.entry(..)` contains `?`")
        head = t[rs:j + 1]  # RECV.entry(K)
        blk = body.strip()
        if not (blk.startswith("{") and match_close(mask(blk), 0) == len(blk) - 1):
            blk = "{ " + blk + " }"
        new = ("(match %s { Entry::Occupied(%s) => %s.into_mut(), Entry::Vacant(%s) => %s.insert(%s) })"
               % (head, BINDER, BINDER, BINDER, BINDER, blk))
        rw.t = t[:rs] + new + t[ac + 1:]
        pos = rs + len(new)
        n += 1
    rw.note("R22", n)
