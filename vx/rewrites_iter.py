"""Rewrite rules R25 / R26 / R27 / R29 (opt-in per fn; R28 is rewrites_fnptr.py), used by unit `addrsort` for `SocketAddrs::sort_preferred` and
`SocketAddrs::set_port` (src/client/conn/dns.rs).  Verus 0.2026.09.13 rejects these shapes outright:

  `for (i, x) in e.iter().enumerate()`         iterator adapter (`Enumerate` has no specification)
  `for x in &mut e`                            `<&mut VecDeque<T> as IntoIterator>::into_iter` / `IterMut` not supported
  `|(a, b)| ..`                                "closure parameters must be simple variables" (pattern parameter)
  `o.and_then(|i| self.0.remove(i))`           closure capturing a `&mut` place of its environment

Each rule below replaces the construct by what it abbreviates - its definition in core / alloc - and nothing else; every
token of the loop / closure BODY is kept.  Anything outside the exact shape raises Unsupported: the fn is then emitted as
a stub, its obligations are undecided (exit 2), never an alarm.  A fn that does not contain the construct is left alone
(`R2x x0` is not even noted).

R25 `:: enumloop=1`
        for (I, X) in E.iter().enumerate() { BODY }
          ->
        { let mut I: usize = 0; while I < E.len() { let X = &E[I]; BODY I += 1; } }

    Why this is the same program.  E is a place expression (`self.0`, `a.b.c`: identifiers and field accesses only, so
    evaluating it has no effect and may be repeated) of a std sequence type (`VecDeque<T>`, `Vec<T>`, `[T]`): for those
    `iter()` is documented to yield `&E[0], &E[1], .., &E[len-1]` in index order (front to back) and `Enumerate` (core,
    iter/adapters/enumerate.rs: `let a = self.iter.next()?; let i = self.count; self.count += 1; Some((i, a))`, count
    starting at 0, type usize) pairs the k-th item with k.  `E.iter()` borrows E (shared) for the whole loop, so the
    borrow checker - on the real crate - guarantees that BODY does not modify E: `E.len()` and `E[I]` read the same list
    in every iteration.  `I` is bound immutably by the pattern, so BODY cannot assign it (rustc); the rule additionally
    refuses any `let` in BODY that rebinds I (the appended `I += 1` must hit the counter).  `break` leaves the loop in
    both forms, `return` / `?` leave the fn in both forms.  `continue` would skip the appended increment: refused.  The
    new names live in a block of their own, so nothing after the loop can see them (as with the `for` pattern).
    `I += 1` cannot overflow: I < E.len() <= usize::MAX.  If E is not indexable by usize / has no `len()` the rewritten
    text does not compile -> stub.
    REFUSED: pattern other than a pair of plain identifiers (I must not be `_`), I == X, E not a plain place path, root
    identifier of E equal to I, anything between `E` and `{` other than `.iter().enumerate()`, `continue` in BODY, a
    `let` pattern / closure parameter in BODY mentioning I, an assignment to I, a loop label on the `for`.

R29 `:: mutiter=1`
        for X in &mut E { BODY }
          ->
        { let mut vx_i: usize = 0; while vx_i < E.len() { let X = &mut E[vx_i]; BODY vx_i += 1; } }

    `<&mut VecDeque<T> as IntoIterator>::into_iter` is `self.iter_mut()` (alloc, vec_deque/mod.rs), documented to yield a
    mutable reference to every element exactly once, front to back; `IndexMut::index_mut(i)` is the reference to the same
    i-th element.  E is exclusively borrowed for the whole loop, so BODY reaches the list only through X (borrow checker
    on the real crate): its length cannot change.  Same refusals as R25 (X a plain identifier; `continue`; the binder
    `vx_i` already in use; E not a plain place path).

R26 `:: closurepat=1`
        |(a, b)| BODY            ->        |vx_tup<k>: (_, _)| { let (a, b) = vx_tup<k>; BODY }

    A closure parameter is an irrefutable pattern matched against the argument; `|P| e` and `|x| { let P = x; e }` bind
    the same names to the same components of the same value (Rust reference, "Closure expressions": parameters are
    patterns exactly as in `let`).  k counts the rewritten closures of the fn (textual order), so a `//@ closure`
    directive can name the parameter and give it its type.  Only tuple patterns of plain identifiers / `_` without type
    annotation are accepted; BODY is kept token for token (an expression body is put into the new block as its tail).

R27 `:: andthen=1`
        RECV.and_then(|x| BODY)   ->   (match RECV { Some(x) => BODY, None => None })

    This is the body of `Option::and_then` with the call `f(x)` beta-reduced (the closure literal is called exactly once,
    at that place, with that argument):
      core 1.98, library/core/src/option.rs, impl<T> Option<T>:
          pub fn and_then<U, F>(self, f: F) -> Option<U> where F: FnOnce(T) -> Option<U> {
              match self {
                  Some(x) => f(x),
                  None => None,
              }
          }
    RECV is evaluated once in both forms; creating the closure has no effect.  Needed because the closures here capture
    `&mut self.0`.  REFUSED: RECV not a plain place path (so in particular not an `Option` of another type such as
    `Result::and_then` on a call result - if RECV is not an `Option` the match does not type-check -> stub), the argument
    not a closure literal with exactly one parameter that is a plain identifier or `_` (no `move`, no type annotation,
    no return type), BODY containing `return`, `?`, `.await`, `break`, `continue` (they would leave the closure, after
    inlining the enclosing fn / loop), a second argument.
"""
import re

from rustscan import mask, match_close

ID = r"[A-Za-z_][A-Za-z0-9_]*"
PLACE = r"%s(?:\s*\.\s*[A-Za-z0-9_]+)*" % ID
_LEAVES = re.compile(r"(?<![A-Za-z0-9_])(return|break|continue)(?![A-Za-z0-9_])|\?|\.\s*await(?![A-Za-z0-9_])")


def _word(name):
    return re.compile(r"(?<![A-Za-z0-9_])%s(?![A-Za-z0-9_])" % re.escape(name))


def _snip(t, a, b):
    return re.sub(r"\s+", " ", t[max(0, a):b])[:100]


def _check_body_counter(body_m, name, rule, bad):
    """BODY must not `continue`, must not rebind or assign `name`"""
    if re.search(r"(?<![A-Za-z0-9_])continue(?![A-Za-z0-9_])", body_m):
        raise bad("`continue` in the loop body (would skip the increment)")
    w = r"(?<![A-Za-z0-9_])%s(?![A-Za-z0-9_])" % re.escape(name)
    for mm in re.finditer(r"(?<![A-Za-z0-9_])let\s+([^=;]+?)\s*(?:=(?!=)|;)", body_m):
        if re.search(w, mm.group(1).split(":")[0]):
            raise bad("the loop body rebinds `%s` with `let`" % name)
    for mm in re.finditer(r"\|([^|]*)\|", body_m):
        if re.search(w, mm.group(1)):
            raise bad("a closure parameter / or-pattern in the loop body mentions `%s`" % name)
    if re.search(w + r"\s*(?:[-+*/%^&|]|<<|>>)?=(?!=)", body_m) or re.search(r"&\s*mut\s+" + w, body_m):
        raise bad("the loop body assigns / mutably borrows `%s`" % name)


def _loop_rewrite(rw, unsupported, rule, head_re, near_re, build):
    """shared driver of R25 / R29: every `for` loop whose header matches `head_re` is rewritten by `build`; a `for`
    header that matches only the looser `near_re` is outside the exact shape -> Unsupported"""
    n = 0
    pos = 0
    while True:
        t = rw.t
        m = mask(t)
        mm = head_re.search(m, pos)
        near = near_re.search(m, pos)
        if near and (not mm or near.start() < mm.start()):
            raise unsupported("unsupported construct: `for` loop outside the exact shape of %s near `%s` in %s"
                              % (rule, _snip(t, near.start(), near.end() + 20), rw.what))
        if not mm:
            break

        def bad(why, mm=mm, t=t):
            return unsupported("unsupported construct: %s near `%s` (%s) in %s" % (why, _snip(t, mm.start(), mm.end() + 20), rule, rw.what))

        # a loop label (`'a: for ..`) - refuse
        if re.search(r"'%s\s*:\s*$" % ID, m[:mm.start()]):
            raise bad("labelled loop")
        bo = mm.end() - 1
        bc = match_close(m, bo)
        body, body_m = t[bo + 1:bc], m[bo + 1:bc]
        new = build(mm, body, body_m, bad)
        rw.t = t[:mm.start()] + new + t[bc + 1:]
        pos = mm.start() + len(new)
        n += 1
    rw.note(rule, n)


def _close_body(body):
    """BODY text followed by the increment: a tail expression without `;` (unit typed) gets its `;`"""
    b = body.rstrip()
    if b and b[-1] not in ";}":
        b += ";"
    return b


def apply_enumloop(rw, unsupported):
    head = re.compile(r"(?<![A-Za-z0-9_'])for\s*\(\s*(%s)\s*,\s*(%s)\s*\)\s*in\s+(%s)\s*\.\s*iter\s*\(\s*\)\s*\.\s*enumerate\s*\(\s*\)\s*\{" % (ID, ID, PLACE))
    near = re.compile(r"(?<![A-Za-z0-9_'])for\b[^{;]*?\.\s*enumerate\s*\(\s*\)[^{;]*\{")

    def build(mm, body, body_m, bad):
        i, x, e = mm.group(1), mm.group(2), re.sub(r"\s+", "", mm.group(3))
        if i == "_":
            raise bad("the index is not bound to a name")
        if i == x:
            raise bad("index and item bound to the same name")
        if re.match(ID, e).group(0) == i:
            raise bad("the sequence expression starts with the index name")
        _check_body_counter(body_m, i, "R25", bad)
        ind = re.search(r"[ \t]*$", rw.t[:mm.start()]).group(0)
        return ("{\n%s    let mut %s: usize = 0;\n%s    while %s < %s.len() {\n%s        let %s = &%s[%s];%s\n%s        %s += 1;\n%s    }\n%s}"
                % (ind, i, ind, i, e, ind, x, e, i, _close_body(body), ind, i, ind, ind))

    _loop_rewrite(rw, unsupported, "R25", head, near, build)


COUNTER = "vx_i"


def apply_mutiter(rw, unsupported):
    head = re.compile(r"(?<![A-Za-z0-9_'])for\s+(%s)\s+in\s*&\s*mut\s+(%s)\s*\{" % (ID, PLACE))
    near = re.compile(r"(?<![A-Za-z0-9_'])for\b[^{;]*?\bin\s*&\s*mut\b[^{;]*\{")
    if near.search(mask(rw.t)) and _word(COUNTER).search(mask(rw.t)):
        raise unsupported("unsupported construct: identifier `%s` already in use (R29) in %s" % (COUNTER, rw.what))

    def build(mm, body, body_m, bad):
        x, e = mm.group(1), re.sub(r"\s+", "", mm.group(2))
        if x == COUNTER:
            raise bad("item bound to the counter's name")
        _check_body_counter(body_m, COUNTER, "R29", bad)
        if re.search(r"(?<![A-Za-z0-9_'])for\b[^{;]*?\bin\s*&\s*mut\b", body_m):
            raise bad("nested `for .. in &mut ..` (one counter name)")
        ind = re.search(r"[ \t]*$", rw.t[:mm.start()]).group(0)
        return ("{\n%s    let mut %s: usize = 0;\n%s    while %s < %s.len() {\n%s        let %s = &mut %s[%s];%s\n%s        %s += 1;\n%s    }\n%s}"
                % (ind, COUNTER, ind, COUNTER, e, ind, x, e, COUNTER, _close_body(body), ind, COUNTER, ind, ind))

    _loop_rewrite(rw, unsupported, "R29", head, near, build)


def _expr_end(m, start):
    """end of an expression that starts at `start`: the first `,` / `;` or closing bracket at depth 0"""
    depth = 0
    j = start
    while j < len(m):
        c = m[j]
        if c in "([{":
            depth += 1
        elif c in ")]}":
            if depth == 0:
                return j
            depth -= 1
        elif c in ",;" and depth == 0:
            return j
        j += 1
    return -1


TUP = "vx_tup"


def apply_closurepat(rw, unsupported):
    head = re.compile(r"(?<=[(,=])(\s*)\|\s*\(\s*((?:%s)(?:\s*,\s*(?:%s))*)\s*,?\s*\)\s*\|" % (ID, ID))
    if head.search(mask(rw.t)) and re.search(r"(?<![A-Za-z0-9_])%s\d*(?![A-Za-z0-9_])" % TUP, mask(rw.t)):
        raise unsupported("unsupported construct: identifier `%s<k>` already in use (R26) in %s" % (TUP, rw.what))
    n = 0
    pos = 0
    while True:
        t = rw.t
        m = mask(t)
        mm = head.search(m, pos)
        if not mm:
            break

        def bad(why):
            return unsupported("unsupported construct: %s near `%s` (R26) in %s" % (why, _snip(t, mm.start(), mm.end() + 30), rw.what))

        names = [x.strip() for x in mm.group(2).split(",")]
        if len(names) < 2:
            raise bad("a parenthesised single name is not a tuple pattern")
        b = mm.end()
        if re.match(r"\s*->", m[b:]):
            raise bad("closure with a declared return type")
        e = _expr_end(m, b)
        if e < 0 or not m[b:e].strip():
            raise bad("closure body not found")
        body = t[b:e].strip()
        binder = "%s%d" % (TUP, n)
        new = "%s|%s: (%s)| { let (%s) = %s; %s }" % (mm.group(1), binder, ", ".join("_" for _ in names), ", ".join(names), binder, body)
        rw.t = t[:mm.start()] + new + t[e:]
        pos = mm.start() + len(new)
        n += 1
    rw.note("R26", n)


def apply_andthen(rw, unsupported):
    call = re.compile(r"\.\s*and_then\s*\(")
    n = 0
    pos = 0
    while True:
        t = rw.t
        m = mask(t)
        mm = call.search(m, pos)
        if not mm:
            break

        def bad(why):
            return unsupported("unsupported construct: %s near `%s` (R27) in %s" % (why, _snip(t, mm.start() - 40, mm.end() + 30), rw.what))

        # receiver: a plain place path directly before the `.`, itself preceded by something that starts an expression
        rm = re.search(r"(%s)\s*$" % PLACE, m[:mm.start()])
        if not rm:
            raise bad("receiver of `.and_then(` is not a plain place path")
        rs = rm.start(1)
        prev = m[:rs].rstrip()
        if not prev.endswith(("=", "(", ",", "{", ";", "=>", "return")) or prev.endswith(("==", "!=", "<=", ">=")):
            raise bad("receiver of `.and_then(` is part of a larger expression")
        recv = re.sub(r"\s+", "", t[rs:mm.start()])
        ao = mm.end() - 1
        ac = match_close(m, ao)
        arg, arg_m = t[ao + 1:ac], m[ao + 1:ac]
        cm = re.match(r"\s*\|\s*(%s)\s*\|" % ID, arg_m)
        if not cm:
            raise bad("argument of and_then is not a closure literal `|x| ..` with one plain parameter")
        body, body_m = arg[cm.end():], arg_m[cm.end():]
        if re.match(r"\s*->", body_m):
            raise bad("closure with a declared return type")
        e = _expr_end(body_m, 0)
        if e >= 0 and body_m[e:].strip(" \t\r\n,"):
            raise bad("and_then called with more than one argument")
        if e >= 0:
            body, body_m = body[:e], body_m[:e]
        if not body_m.strip():
            raise bad("empty closure body")
        lv = _LEAVES.search(body_m)
        if lv:
            raise bad("closure body contains `%s` (would leave the enclosing fn after inlining)" % lv.group(0).strip())
        new = "(match %s { Some(%s) => %s, None => None })" % (recv, cm.group(1), body.strip())
        rw.t = t[:rs] + new + t[ac + 1:]
        pos = rs + len(new)
        n += 1
    rw.note("R27", n)
