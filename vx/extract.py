"""Engine V, step 1: build a Verus unit file from /repo's *current* sources.

A unit description (`units/<unit>.vxu`) is Verus text (prelude, spec functions,
lemmas) interleaved with `//@` directives that name items of /repo by path.
Every run copies the text of those items out of /repo, applies the fixed rewrite
table R1..R13 (DESIGN.md 3.1) and inserts the contract text of the directive.

Directive grammar (one per line, all start with `//@ `):

    //@ include <path relative to /verif/vx>
    //@ struct|enum|const|trait <file> <Name> [:: opt=value ...]
    //@ fn <file> :: <impl-header regex | -> :: <name> [:: opt=value ...]
        //@ attr <attribute text>
        //@ spec            (text until next directive: requires/ensures/decreases)
        //@ loop <k>        (text: invariant/ensures/decreases for k-th loop, textual order)
        //@ before <anchor> (ghost text inserted before the statement starting with anchor)
        //@ after <anchor>  (ghost text inserted after the statement that starts with anchor)
        //@ entry           (ghost text inserted at the beginning of the body)
        //@ closure <k> :: <typed params> -> (<name>: <type>)   (text: ensures clauses)
            //@ bind <name> = <expr>   (R9l: <expr> starts a statement / the tail expression and is the receiver of a method
                                        chain; it is let-bound to <name> first and the ghost text follows the binding)
    //@ end
    //@ import <unit> :: <impl-header regex | -> :: <name> [:: opt=value ...]
        (no sub-directives, no //@ end)  the fn is NOT extracted: its signature is re-extracted as for a stubbed fn and
        emitted `external_body` under the `//@ spec` text of the `//@ fn` block for this fn in units/<unit>.vxu, verbatim,
        obligation tags stripped (see emit_import).  Options = those of the exporting block, overridden by the ones given;
        import-only option `only=tag1,tag2`: of the `ensures` clauses keep those tagged with one of these obligations.

    options:  mod=a::b   (item lives in nested module a::b of the file)
              attr=...   (attribute put in front of the item)
              as=name    (emit fn under another name)
              ret=name   (name of the return value, default r)
              keep_derive=Clone,Copy  (derives to keep on a struct/enum)

Obligation tags: a contract line ending in `//# name [C02,C06]` is obligation
`name`, owned by the listed properties.
"""
import os
import re
import sys
import hashlib

sys.path.insert(0, os.path.dirname(os.path.abspath(__file__)))
from rustscan import Source, ScanError, mask, match_close, find_body_open, leading_attrs  # noqa: E402

VX = os.path.dirname(os.path.abspath(__file__))
REPO = os.environ.get("VERIF_REPO", "/repo")

TRACE_MACROS = r"(?:tracing::)?(?:trace|debug|info|warn|error|event)!"
KEEP_DERIVES_DEFAULT = {"Clone", "Copy", "PartialEq", "Eq", "Hash"}


class Unsupported(ScanError):
    pass


# ----------------------------------------------------------------------------
# rewrite table
# ----------------------------------------------------------------------------
class Rewriter:
    """Applies R1..R13 to one item text and records which rules fired."""

    def __init__(self, text: str, what: str):
        self.t = text
        self.what = what
        self.applied = []
        # fn option `unpinned=f,g`: fields of a pin_project struct that carry no `#[pin]`; for those
        # `this.f.as_mut()` is a call of F::as_mut (e.g. Option::as_mut), not a Pin reborrow (R6)
        self.unpinned = set()

    def note(self, rule, n=1):
        if n:
            self.applied.append("%s x%d" % (rule, n))

    # R1 -------------------------------------------------------------
    def r1_tracing(self):
        n = 0
        while True:
            m = mask(self.t)
            mm = re.search(r"(?<![A-Za-z0-9_:])" + TRACE_MACROS + r"\s*\(", m)
            if not mm:
                break
            po = mm.end() - 1
            pc = match_close(m, po)
            a, b = mm.start(), pc + 1
            # statement form: preceded (on its line) only by whitespace, followed by `;`
            ls = self.t.rfind("\n", 0, a) + 1
            rest = m[b:]
            semi = re.match(r"\s*;", rest)
            if self.t[ls:a].strip() == "" and semi:
                b2 = b + semi.end()
                # swallow the trailing newline
                if b2 < len(self.t) and self.t[b2] == "\n":
                    b2 += 1
                self.t = self.t[:ls] + self.t[b2:]
            elif self.t[ls:a].strip() == "" and re.match(r"\s*\}", rest):
                # last expression of a block: `{ trace!(..) }` has type ()
                self.t = self.t[:ls] + self.t[b:].lstrip("\n") if self.t[ls:a].strip() == "" else self.t
            else:
                # expression position (match arm etc.)
                self.t = self.t[:a] + "()" + self.t[b:]
            n += 1
        # R1s (additive): a span constructor in expression position, `tracing::debug_span!(..)` -> `tracing::Span::none()`
        # (tracing's own disabled span).  Same assumption T1: a span carries no program state; the macro's
        # arguments are field reads / Display values without side effects.
        while True:
            m = mask(self.t)
            mm = re.search(r"(?<![A-Za-z0-9_:])(?:tracing::)?(?:trace|debug|info|warn|error)_span!\s*\(", m)
            if not mm:
                break
            pc = match_close(m, mm.end() - 1)
            self.t = self.t[:mm.start()] + "tracing::Span::none()" + self.t[pc + 1:]
            self.note("R1s")
        # span guards:  let _entered = span.enter();  /  let _guard = ...span...;
        m = mask(self.t)
        for mm in reversed(list(re.finditer(r"(?m)^[ \t]*let\s+_(?:entered|guard|enter|span)\s*=[^;]*;\s*\n", m))):
            self.t = self.t[:mm.start()] + self.t[mm.end():]
            n += 1
        self.note("R1", n)

    # R2 -------------------------------------------------------------
    def r2_attrs_comments(self):
        n = 0
        # comments (line + block) -> removed; doc comments are comments
        m = mask(self.t)
        out = []
        i = 0
        src = self.t
        # remove comments using the mask: a comment region is where src has `//` or `/*` and mask keeps these two chars
        res = []
        j = 0
        L = len(src)
        while j < L:
            if src.startswith("//", j) and m[j] == " ":
                k = src.find("\n", j)
                k = L if k < 0 else k
                # drop trailing spaces before the comment
                while res and res[-1] in " \t":
                    res.pop()
                j = k
                n += 1
            elif src.startswith("/*", j) and m[j] == " ":
                depth, k = 1, j + 2
                while k < L and depth:
                    if src.startswith("/*", k):
                        depth += 1
                        k += 2
                    elif src.startswith("*/", k):
                        depth -= 1
                        k += 2
                    else:
                        k += 1
                j = k
                n += 1
            else:
                res.append(src[j])
                j += 1
        self.t = "".join(res)
        # attributes inside the item (#[pin], #[allow], #[cfg_attr(...instrument...)], #[inline], #[must_use], #[error], #[from])
        while True:
            m = mask(self.t)
            mm = re.search(r"#\s*\[", m)
            if not mm:
                break
            bo = mm.end() - 1
            bc = match_close(m, bo)
            attr = re.sub(r"\s+", " ", self.t[mm.start():bc + 1])
            # R19 (opt-in per directive, `:: cfg_on=tls`; called R16 in notes/serving.md): `#[cfg(feature = "F")]` on a match arm / enum variant /
            # field with F in the directive's list -> the attribute is dropped, the guarded item KEPT.  The verified
            # text is that of a build with F enabled (the pinned replay build: default + mocks,tls,tls-ring,sni).
            # Assumed for builds without F: the variant and its arm disappear together, every other arm is the
            # same text, so per-arm postconditions proved here cover them.  Any other #[cfg(..)] is still refused.
            mcf = re.match(r'#\[cfg\(feature = "([A-Za-z0-9_-]+)"\)\]$', attr)
            r16 = bool(mcf and mcf.group(1) in getattr(self, "cfg_on", ()))
            if r16:
                self.note("R19")
            if r16 or re.match(r"#\[(pin|allow|cfg_attr|inline|must_use|error|from|source|doc|derive|non_exhaustive|pin_project|pinned_drop|track_caller)\b", attr):
                e = bc + 1
                # remove following whitespace up to and including one newline if attr is alone on the line
                ls = self.t.rfind("\n", 0, mm.start()) + 1
                if self.t[ls:mm.start()].strip() == "":
                    k = e
                    while k < len(self.t) and self.t[k] in " \t":
                        k += 1
                    if k < len(self.t) and self.t[k] == "\n":
                        self.t = self.t[:ls] + self.t[k + 1:]
                    else:
                        self.t = self.t[:mm.start()] + self.t[k:]
                else:
                    self.t = self.t[:mm.start()] + self.t[e:].lstrip(" ")
                n += 1
            elif re.match(r"#\[cfg\(debug_assertions\)\]$", attr) or (re.match(r'#\[cfg\(not\(feature = "([A-Za-z0-9_-]+)"\)\)\]$', attr) and re.match(r'#\[cfg\(not\(feature = "([A-Za-z0-9_-]+)"\)\)\]$', attr).group(1) in getattr(self, "cfg_on", ())):
                # R19n (additive, same opt-in as R19): `#[cfg(not(feature = "F"))]` with F in `cfg_on=` - the guarded
                # field / initialiser / statement is dropped like an R15 item (the text of the build WITH F is verified)
                # R15: the guarded statement / struct field / field initialiser is dropped together with the
                # attribute (debug-only bookkeeping: checkout ids used for tracing).  Dropped text ends at the
                # first `;` or `,` at bracket depth 0 (or before a closing brace).
                e = bc + 1
                j, depth = e, 0
                while j < len(m):
                    c = m[j]
                    if c in "([{":
                        depth += 1
                    elif c in ")]}":
                        if depth == 0:
                            break
                        depth -= 1
                    elif c in ";," and depth == 0:
                        j += 1
                        break
                    j += 1
                ls = self.t.rfind("\n", 0, mm.start()) + 1
                a0 = ls if self.t[ls:mm.start()].strip() == "" else mm.start()
                while j < len(self.t) and self.t[j] in " \t":
                    j += 1
                if j < len(self.t) and self.t[j] == "\n" and a0 == ls:
                    j += 1
                self.t = self.t[:a0] + self.t[j:]
                self.note("R15" if "debug_assertions" in attr else "R19n")
                n += 1
            elif attr.startswith("#[cfg("):
                raise Unsupported("unsupported construct: conditional compilation %s inside %s" % (attr, self.what))
            else:
                raise Unsupported("unsupported construct: attribute %s inside %s" % (attr, self.what))
        # blank-line squeeze
        self.t = re.sub(r"\n[ \t]*\n([ \t]*\n)+", "\n\n", self.t)
        self.note("R2", n)

    # R3 -------------------------------------------------------------
    def r3_visibility(self):
        self.t, n = re.subn(r"\bpub\s*\(\s*(?:in\s+[A-Za-z0-9_:]+|super|crate|self)\s*\)", "pub", self.t)
        self.note("R3", n)

    # R3m ------------------------------------------------------------
    def r3m_super_paths(self, depth: int):
        """items taken out of a nested module (`:: mod=a::b`) are emitted at the root of the unit: a path that climbs
        out of that module with up to `depth` leading `super::` segments is rewritten to start at the root"""
        if depth <= 0:
            return
        self.t, n = re.subn(r"(?<![A-Za-z0-9_:])(?:super::){1,%d}" % depth, "", self.t)
        self.note("R3m", n)

    # R30 ------------------------------------------------------------
    def r30_wildcard_closure_params(self):
        """`|_| e`, `|_, x| e`, `|_: T| e` -> the wildcard parameter gets a fresh name (`vx_u<k>`).  Verus rejects `_` as a
        closure parameter; a closure parameter is always moved into the call and dropped at its end whether it is
        bound to `_` or to an unused name (unlike `let _ = ..`), so the two closures are the same program.  Only a
        parameter list that directly follows `(`, `,`, `=` or `move` is touched (an or-pattern `A | _ | B` follows an
        identifier or `)`), and only parameters that are exactly `_` / `_: T`."""
        n = 0
        out, last = [], 0
        m = mask(self.t)
        for mm in re.finditer(r"(?:(?<=[(,=])\s*|\bmove\s+)\|([^|{};]*)\|(?!\|)", m):
            a, b = mm.start(1), mm.end(1)
            params = self.t[a:b]
            if "_" not in params or "=>" in params:
                continue
            parts, depth, cur = [], 0, ""
            for ch in params:
                if ch in "(<[":
                    depth += 1
                elif ch in ")>]":
                    depth -= 1
                if ch == "," and depth == 0:
                    parts.append(cur)
                    cur = ""
                else:
                    cur += ch
            parts.append(cur)
            changed = False
            for i, part in enumerate(parts):
                mm2 = re.fullmatch(r"(\s*)_(\s*(?::.*)?)", part, re.S)
                if mm2:
                    parts[i] = "%svx_u%d%s" % (mm2.group(1), n, mm2.group(2))
                    n += 1
                    changed = True
            if changed:
                out.append(self.t[last:a])
                out.append(",".join(parts))
                last = b
        if n:
            out.append(self.t[last:])
            self.t = "".join(out)
        self.note("R30", n)

    # R4 -------------------------------------------------------------
    def r4_bool_or_assign(self):
        n = 0

        def rep(mm):
            nonlocal n
            lhs, rhs = mm.group(1), mm.group(2).strip()
            if not re.fullmatch(r"(?:self\.)?[A-Za-z_][A-Za-z0-9_]*(?:\(\))?|self(?:\.[A-Za-z_][A-Za-z0-9_]*)+\(\)", rhs):
                raise Unsupported("unsupported construct: `%s |= %s` (rhs not a variable or &self method call) in %s" % (lhs, rhs, self.what))
            n += 1
            return "%s = %s || %s;" % (lhs, lhs, rhs)

        self.t = re.sub(r"\b([A-Za-z_][A-Za-z0-9_.]*)\s*\|=\s*([^;]+);", rep, self.t)
        self.note("R4", n)

    # R5 / R6 --------------------------------------------------------
    def r5_pin_erasure(self):
        n = 0
        t = self.t
        t, k = re.subn(r"\bmut\s+self\s*:\s*(?:std::pin::)?Pin<&mut Self>", "&mut self", t)
        n += k
        t, k = re.subn(r"\bself\s*:\s*(?:std::pin::)?Pin<&mut Self>", "&mut self", t)
        n += k
        self.pinned_self = n > 0  # the receiver was `self: Pin<&mut Self>` (used by R6s)
        # Pin<&mut T> / Pin<&'a mut T> in other positions
        while True:
            mm = re.search(r"(?:std::pin::)?Pin<(&(?:'[a-z_]+\s+)?mut\s+)", t)
            if not mm:
                break
            # find matching '>'
            depth, j = 1, mm.end()
            while depth:
                if t[j] == "<":
                    depth += 1
                elif t[j] == ">" and t[j - 1] != "-":
                    depth -= 1
                j += 1
            t = t[:mm.start()] + mm.group(1) + t[mm.end():j - 1] + t[j:]
            n += 1
        # R5b: Pin<Box<T>> -> Box<T> (an owning pinned pointer is a Box that is never moved out of);
        #      Box::pin(e) -> Box::new(e)
        while True:
            mm = re.search(r"(?:std::pin::)?Pin<(Box<)", t)
            if not mm:
                break
            depth, j = 1, mm.end()
            while depth:
                if t[j] == "<":
                    depth += 1
                elif t[j] == ">" and t[j - 1] != "-":
                    depth -= 1
                j += 1
            # j is just past the '>' closing Box<...>; the next '>' closes Pin<
            k2 = j
            while t[k2] in " \n\t":
                k2 += 1
            if t[k2] != ">":
                raise Unsupported("unsupported construct: Pin<Box<..>> shape in %s" % self.what)
            t = t[:mm.start()] + t[mm.start(1):j] + t[k2 + 1:]
            n += 1
        if getattr(self, "boxpin", False):  # opt-in (`:: boxpin=1`): some units model `Box::pin` in their prelude
            t, k = re.subn(r"\bBox::pin\(", "Box::new(", t)
            n += k
        # Pin::new(e) -> e
        while True:
            m = mask(t)
            mm = re.search(r"(?:std::pin::)?Pin::new\s*\(", m)
            if not mm:
                break
            pc = match_close(m, mm.end() - 1)
            t = t[:mm.start()] + "(" + t[mm.end():pc] + ")" + t[pc + 1:]
            n += 1
        self.t = t
        self.note("R5", n)

    # R6n / R6r / R6s (unit `serving`; additive: each fires only on text that R6 refused before) ---------
    def r6n_binding(self, t):
        """R6n: the struct projection is bound to a name other than `this` (`let mut me = self.as_mut().project();`):
        every free occurrence of that name is renamed to `this`, then R6 applies unchanged.  Refused (text left
        alone, R6 raises as before) when `this` already occurs in the fn."""
        m = mask(t)
        mm = re.search(r"(?m)^[ \t]*let\s+(?:mut\s+)?([A-Za-z_][A-Za-z0-9_]*)\s*=\s*self\.(?:as_mut\(\)\.)?project\(\)\s*;", m)
        if not mm or mm.group(1) == "this" or re.search(r"\bthis\b", m):
            return t
        name = mm.group(1)
        hits = [h.start() for h in re.finditer(r"(?<![A-Za-z0-9_.])%s\b(?!\s*:[^:])" % re.escape(name), m)]
        for a in reversed(hits):
            t = t[:a] + "this" + t[a + len(name):]
        self.note("R6n", len(hits))
        return t

    def r6x_post(self, t):
        """R6r: `(&mut self.f).project_replace(v)` -> `std::mem::replace((&mut self.f), v)` and the owned
        projection's paths `XOwn::V` -> `X::V` (from `project_replace = XOwn` in the file).  pin_project's
        project_replace moves `v` in, drops the `#[pin]` fields of the old value in place and returns its other
        fields by value (pinned ones as PhantomData); `mem::replace` returns the whole old value.  The two agree
        as long as the pattern matched against the result binds no `#[pin]` field - checked here, else refused -
        and up to *when* the pinned fields are dropped (end of the `if let` instead of inside the call).
        R6s: in a fn that projects `self` (so `self: Pin<&mut Self>`), `self.as_mut().m(..)` is the Pin reborrow
        -> `(&mut *self).m(..)`."""
        own = getattr(self, "proj_own", {})
        nr = 0
        t, k = re.subn(r"(\(&mut self\.[A-Za-z_][A-Za-z0-9_]*\))\s*\.project_replace\s*\(", r"std::mem::replace(\1, ", t)
        nr += k
        if k:
            for pown, (enum, pinned) in own.items():
                for pm in re.finditer(r"\b%s::[A-Za-z_][A-Za-z0-9_]*\s*(\{[^{}]*\}|\()" % re.escape(pown), t):
                    body = pm.group(1)
                    if body == "(" or (set(re.findall(r"[A-Za-z_][A-Za-z0-9_]*", body)) & set(pinned)):
                        raise Unsupported("unsupported construct: project_replace result pattern binds a #[pin] field (%s) in %s" % (pm.group(0), self.what))
                t, k2 = re.subn(r"\b%s::" % re.escape(pown), enum + "::", t)
                nr += k2
        self.note("R6r", nr)
        return self.r6s(t)

    def r6s(self, t):
        t, k = re.subn(r"\bself\.as_mut\(\)(?=\s*\.(?!project\b|project_replace\b|project_ref\b|set\b)[A-Za-z_][A-Za-z0-9_]*\s*\()", "(&mut *self)", t)
        self.note("R6s", k)
        return t

    def r6_struct_projection(self, pinned_fields):
        """`let [mut] this = self.project();` deleted; `*this.f` -> `self.f`;
        `this.f` -> `(&mut self.f)`; `self.project().f` -> `(&mut self.f)`;
        `.as_mut()` directly on a projected field is the identity reborrow."""
        n = 0
        t = self.r6n_binding(self.t)
        t, k = re.subn(r"(?m)^[ \t]*let\s+(?:mut\s+)?this\s*=\s*self\.project\(\)\s*;\s*\n", "", t)
        n += k
        if k == 0 and not re.search(r"self\.project\(\)", t) and not re.search(r"self\.as_mut\(\)\s*\.(?:project|set)\(", t):
            if getattr(self, "pinned_self", False) and getattr(self, "proj_own", None) is not None:
                t = self.r6s(t)  # fn of a unit built after R6s existed (emit_fn sets proj_own); older paths unchanged
            self.t = t
            return
        t, k = re.subn(r"(?m)^[ \t]*let\s+(?:mut\s+)?this\s*=\s*self\.as_mut\(\)\.project\(\)\s*;\s*\n", "", t)
        n += k
        t, k = re.subn(r"\*this\s*\.([A-Za-z_][A-Za-z0-9_]*)", r"self.\1", t)
        n += k
        if self.unpinned:
            # un-pinned field: `this.f` is `&mut F`, `.as_mut()` is F's own method and stays
            unp = "|".join(re.escape(f) for f in sorted(self.unpinned))
            t, k = re.subn(r"\bthis\s*\.(%s)\s*\.as_mut\(\)" % unp, r"(&mut self.\1).as_mut()", t)
            n += k
        t, k = re.subn(r"\bthis\s*\.([A-Za-z_][A-Za-z0-9_]*)\s*\.as_mut\(\)", r"(&mut self.\1)", t)
        n += k
        t, k = re.subn(r"\bthis\s*\.([A-Za-z_][A-Za-z0-9_]*)", r"(&mut self.\1)", t)
        n += k
        t, k = re.subn(r"\bself\s*\.(?:as_mut\(\)\s*\.)?\s*project\(\)\s*\.([A-Za-z_][A-Za-z0-9_]*)", r"(&mut self.\1)", t)
        n += k
        # R6 (nested struct projection, additive): a projected field that is itself a pin_project *struct* is
        # projected again, `(&mut self.f).project().g` -> `(&mut self.f.g)`
        t, k = re.subn(r"\(&mut self\.([A-Za-z_][A-Za-z0-9_]*)\)\s*\.project\(\)\s*\.([A-Za-z_][A-Za-z0-9_]*)", r"(&mut self.\1.\2)", t)
        n += k
        # R6e (enum projections): matching on `x.project()` of a pin_project *enum* binds each field as
        # `Pin<&mut F>` / `&mut F` - after R5 both are `&mut F`, i.e. exactly what matching on `&mut x` binds.
        #   `self.as_mut().project()` (self is the enum)  -> `(&mut *self)`
        #   `(&mut self.f).project()` (field is the enum) -> `(&mut self.f)`
        #   projection type paths `XProj::V` -> `X::V` (from `#[pin_project(project = XProj)] enum X` in the file)
        #   `self.as_mut().set(v)` -> `*self = v`;  `(&mut self.f).set(v)` -> `self.f = v`  (Pin::set overwrites in place)
        ne = 0
        t, k = re.subn(r"\bself\.as_mut\(\)\s*\.project\(\)(?!\s*\.)", "(&mut *self)", t)
        ne += k
        if getattr(self, "proj_enums", None):  # R6e (additive): `match self.project() {` where `self: Pin<&mut Self>` IS the enum
            t, k = re.subn(r"\bself\.project\(\)(?=\s*\{)", "(&mut *self)", t)
            ne += k
        t, k = re.subn(r"\(&mut self\.([A-Za-z_][A-Za-z0-9_]*)\)\s*\.project\(\)(?!\s*\.)", r"(&mut self.\1)", t)
        ne += k
        for proj, enum in getattr(self, "proj_enums", {}).items():
            t, k = re.subn(r"\b%s::" % re.escape(proj), enum + "::", t)
            ne += k
        while True:
            m = mask(t)
            mm = re.search(r"\bself\.as_mut\(\)\s*\.set\s*\(|\(&mut self\.([A-Za-z_][A-Za-z0-9_]*)\)\s*\.set\s*\(", m)
            if not mm:
                break
            pc = match_close(m, mm.end() - 1)
            lhs = "*self" if mm.group(1) is None else "self." + mm.group(1)
            t = t[:mm.start()] + lhs + " = " + t[mm.end():pc] + t[pc + 1:]
            ne += 1
        t = self.r6x_post(t)
        bad = re.search(r"\bthis\b", mask(t)) or re.search(r"\.project(?:_replace|_ref)?\(", mask(t))
        if bad:
            snippet = re.sub(r"\s+", " ", t[max(0, bad.start() - 40):bad.end() + 40])
            raise Unsupported("unsupported construct: pin projection outside R6/R6e (project_replace / projection of an expression) near `%s` in %s" % (snippet, self.what))
        self.t = t
        self.note("R6", n)
        self.note("R6e", ne)

    # R12 ------------------------------------------------------------
    def r12_phantom_fn(self):
        n = 0

        def rep(mm):
            nonlocal n
            args = mm.group(1).strip()
            ret = (mm.group(2) or "").strip()
            if ret == "()":  # `fn(B) -> ()`: the unit return type carries no type parameter
                ret = ""
            parts = [a for a in [args, ret] if a]
            n += 1
            if len(parts) == 1:
                return "PhantomData<%s>" % parts[0]
            return "PhantomData<(%s)>" % ", ".join(parts)

        self.t = re.sub(r"PhantomData<\s*fn\(([^()]*)\)\s*(?:->\s*(\(\)|[A-Za-z0-9_:<>, ]+?))?\s*>(?=[,\s)}>;])", rep, self.t)
        self.note("R12", n)

    # R13 ------------------------------------------------------------
    def r13_ctor_as_fn(self):
        self.t, n = re.subn(r"\.(map|map_err|and_then)\((Err|Ok|Some)\)", r".\1(|e| \2(e))", self.t)
        # R13 (additive): a tuple-variant constructor given by path, `.map_err(ConnectionError::Protocol)`
        # (every path segment CamelCase, so fn items such as `ServerError::ready` / `Into::into` are not touched)
        self.t, k = re.subn(r"\.(map|map_err|map_ok|and_then)\(((?:[A-Z][A-Za-z0-9]*::)+[A-Z][A-Za-z0-9]*)\)", r".\1(|e| \2(e))", self.t)
        n += k
        self.note("R13", n)

    def common(self):
        if getattr(self, "macros", ""):  # opt-in (`:: macros=a,b`): R21 (file-local macro_rules! call expanded from its definition), see rewrites_macro.py
            import rewrites_macro
            rewrites_macro.apply(self, self.macros, Unsupported)
        self.r2_attrs_comments()
        self.r1_tracing()
        self.r3_visibility()
        self.r4_bool_or_assign()
        self.r30_wildcard_closure_params()
        self.r5_pin_erasure()
        self.r6_struct_projection(None)
        self.r12_phantom_fn()
        self.r13_ctor_as_fn()
        self.r14_extern_root()
        if getattr(self, "matchrw", ""):  # opt-in (`:: matchrw=orsplit,guardelse,ready`): R16 / R17 / R18, see rewrites_match.py
            import rewrites_match
            rewrites_match.apply(self, self.matchrw, Unsupported)
        if getattr(self, "asyncblk", None) is not None or getattr(self, "mutself", False):  # opt-in: R23 / R24, see rewrites_async.py
            import rewrites_async
            if getattr(self, "asyncblk", None) is not None:
                rewrites_async.apply_asyncblk(self, self.asyncblk, Unsupported)
            if getattr(self, "mutself", False):
                rewrites_async.apply_mutself(self, Unsupported)
        if getattr(self, "entryrw", False):  # opt-in (`:: entryrw=1`): R22 (`.entry(k).or_insert_with(|| b)` -> the match it abbreviates), see rewrites_entry.py
            import rewrites_entry
            rewrites_entry.apply_entryrw(self, Unsupported)
        if getattr(self, "fnptr", False):  # opt-in (`:: fnptr=1`): R28 (`Box<fn() -> T>` -> prelude stand-in `FnPtr0<T>`, `(x.f)()` -> `x.f.call0()`), see rewrites_fnptr.py
            import rewrites_fnptr
            rewrites_fnptr.apply_fnptr(self, Unsupported)
        if getattr(self, "andthen", False) or getattr(self, "closurepat", False) or getattr(self, "enumloop", False) or getattr(self, "mutiter", False):
            # opt-in: R27 (`o.and_then(|x| b)` -> its match), R26 (tuple-pattern closure parameter -> let), R25 (`for (i, x) in
            # e.iter().enumerate()` -> index loop), R29 (`for x in &mut e` -> index loop), see rewrites_iter.py
            import rewrites_iter
            if getattr(self, "andthen", False):
                rewrites_iter.apply_andthen(self, Unsupported)
            if getattr(self, "closurepat", False):
                rewrites_iter.apply_closurepat(self, Unsupported)
            if getattr(self, "enumloop", False):
                rewrites_iter.apply_enumloop(self, Unsupported)
            if getattr(self, "mutiter", False):
                rewrites_iter.apply_mutiter(self, Unsupported)
        return self.t

    # R14 ------------------------------------------------------------
    def r14_extern_root(self):
        """`::http::X` / `::hyper::X` (path rooted at an extern crate) -> `http::X`: the single-file unit has
        no extern crates, the prelude's stand-in module tree carries the crate's name.  Fires only where
        the text uses the rooted form."""
        m = mask(self.t)
        hits = [mm.start() for mm in re.finditer(r"(?<![A-Za-z0-9_>:])::(?=(?:http|hyper)::)", m)]
        for a in reversed(hits):
            self.t = self.t[:a] + self.t[a + 2:]
        self.note("R14", len(hits))


# ----------------------------------------------------------------------------
# contract insertion (R9, R9b)
# ----------------------------------------------------------------------------
GHOST_START = re.compile(r"^\s*(proof\s*\{|let\s+ghost\b|let\s+tracked\b|assert\s*\(|assert\s+forall|broadcast\s+use\b|reveal\s*\(|//|$)")


def check_ghost_only(text: str, where: str):
    """R9 inserts proof text only.  Reject anything that is not obviously ghost:
    each top-level statement must start with proof {, let ghost, assert, broadcast use."""
    m = mask(text)
    i, n = 0, len(text)
    depth = 0
    stmt_start = 0
    stmts = []
    while i < n:
        c = m[i]
        if c in "({[":
            depth += 1
        elif c in ")}]":
            depth -= 1
            if depth == 0 and c == "}":
                # a block statement may end here
                rest = m[i + 1:]
                if not re.match(r"\s*(;|else|\.)", rest):
                    stmts.append(text[stmt_start:i + 1])
                    stmt_start = i + 1
        elif c == ";" and depth == 0:
            stmts.append(text[stmt_start:i + 1])
            stmt_start = i + 1
        i += 1
    tail = text[stmt_start:]
    if mask(tail).strip():
        stmts.append(tail)
    for s in stmts:
        ms = mask(s).strip()
        if not ms:
            continue
        if not GHOST_START.match(ms):
            raise Unsupported("contract file inserts a non-ghost statement in %s: %r" % (where, s.strip()[:80]))
    if re.search(r"\b(assume|admit)\s*\(", m):
        raise Unsupported("contract file inserts assume/admit in %s" % where)


def loops_in(m: str, lo: int, hi: int):
    """offsets of loop keywords (`while`, `loop`, `for`) in textual order"""
    res = []
    for mm in re.finditer(r"(?<![A-Za-z0-9_'])(while|loop|for)\b", m[lo:hi]):
        kw = mm.group(1)
        s = lo + mm.start()
        if kw == "for":
            # `for<'a>` in bounds is not a loop;  `impl X for Y` neither
            after = m[lo + mm.end():lo + mm.end() + 2]
            if after.lstrip().startswith("<"):
                continue
            # require ` in ` before the body brace
            bo = find_body_open(m, s)
            if bo < 0 or not re.search(r"\bin\b", m[s:bo]):
                continue
        res.append(s)
    return res


def closures_in(m: str, lo: int, hi: int):
    """(start_of_first_pipe, end_of_second_pipe) of closures in textual order.
    A closure head is `|params|` or `move |params|` appearing after one of ( , = { or `move`."""
    res = []
    i = lo
    while i < hi:
        if m[i] == "|":
            if m.startswith("||", i):
                prev = m[lo:i].rstrip()
                if prev.endswith(("(", ",", "=", "{", "move", "return")):
                    res.append((i, i + 2))
                i += 2
                continue
            prev = m[lo:i].rstrip()
            if prev.endswith(("(", ",", "=", "{", "move", "return")):
                j = m.find("|", i + 1)
                if j < 0 or j > hi:
                    break
                res.append((i, j + 1))
                i = j + 1
                continue
        i += 1
    return res


def split_params(t: str):
    """split a closure parameter list on top-level commas"""
    parts, depth, st = [], 0, 0
    for i, c in enumerate(t):
        if c in "(<[":
            depth += 1
        elif c in ")>]":
            depth -= 1
        elif c == "," and depth == 0:
            parts.append(t[st:i])
            st = i + 1
    parts.append(t[st:])
    return [x for x in parts if x.strip()]


def closure_body_end(m: str, start: int) -> int:
    """body of an expression closure starting at `start` (after the head): ends at
    the first `,` or closing bracket at depth 0."""
    depth = 0
    j = start
    while j < len(m):
        c = m[j]
        if c in "([{":
            depth += 1
        elif c in ")]}":
            if depth == 0:
                return j
            depth -= 1
        elif c == "," and depth == 0:
            return j
        j += 1
    raise ScanError("closure body end not found")


def statement_start_of(t: str, m: str, anchor: str, what: str) -> int:
    occ = None
    mo = re.search(r"\s##(\d+)$", anchor)
    if mo:
        occ = int(mo.group(1))
        anchor = anchor[:mo.start()]
    idxs = [mm.start() for mm in re.finditer(re.escape(anchor), t)]
    idxs = [i for i in idxs if m[i] == t[i]]  # not inside a comment/string
    if occ is not None:
        if len(idxs) < occ:
            raise ScanError("lost anchor: %r occurrence %d in %s (%d matches)" % (anchor, occ, what, len(idxs)))
        idxs = [idxs[occ - 1]]
    if len(idxs) != 1:
        raise ScanError("lost anchor: %r in %s (%d matches)" % (anchor, what, len(idxs)))
    i = idxs[0]
    ls = t.rfind("\n", 0, i) + 1
    return ls, i


def statement_end_from(m: str, i: int) -> int:
    """offset just after the `;` (depth 0) or block-closing `}` that ends the statement starting at i"""
    depth = 0
    j = i
    while j < len(m):
        c = m[j]
        if c in "([{":
            depth += 1
        elif c in ")]}":
            depth -= 1
            if depth < 0:
                return j
            if depth == 0 and c == "}":
                rest = m[j + 1:]
                if not re.match(r"\s*(;|else|\.|\?)", rest):
                    return j + 1
        elif c == ";" and depth == 0:
            return j + 1
        j += 1
    return j


class FnSpec:
    def __init__(self):
        self.attrs = []
        self.spec = ""
        self.loops = {}
        self.before = []
        self.after = []
        self.entry = ""
        self.exit = ""
        self.closures = {}
        self.opts = {}
        # hints written `//@ before* <anchor>` / `//@ after* <anchor>`: stand-alone ghost snapshots that other
        # contract text (loop invariants) depends on; kept in degraded mode as long as their own anchor exists
        self.standalone = set()
        # (additive) `//@ bind <name> = <anchor>` hints: [(name, anchor expression text, ghost text)] - R9l
        self.binds = []


def name_return(sig: str, ret_name: str) -> str:
    """`-> T` becomes `-> (r: T)` (Verus needs a name to talk about the result)."""
    m = mask(sig)
    # find the parameter list: first `(` after `fn name<...>`
    mm = re.search(r"\bfn\s+[A-Za-z_][A-Za-z0-9_]*", m)
    j = mm.end()
    if j < len(m) and m[j:].lstrip().startswith("<"):
        j = m.index("<", j)
        depth = 0
        while True:
            if m[j] == "<":
                depth += 1
            elif m[j] == ">" and m[j - 1] != "-":
                depth -= 1
                if depth == 0:
                    j += 1
                    break
            j += 1
    po = m.index("(", j)
    pc = match_close(m, po)
    rest = m[pc + 1:]
    am = re.match(r"\s*->\s*", rest)
    if not am:
        return sig
    ts = pc + 1 + am.end()
    wm = re.search(r"\bwhere\b", m[ts:])
    te = ts + wm.start() if wm else len(sig)
    ty = sig[ts:te].strip()
    if ty.startswith("(") and re.match(r"\(\s*[a-z_][a-z0-9_]*\s*:", ty):
        return sig
    tail = sig[te:]
    return sig[:ts] + "(%s: %s)" % (ret_name, ty) + ("\n" if not wm else " ") + tail.lstrip(" ")


def apply_fn_spec(text: str, spec: FnSpec, what: str, lost=None):
    """text = `fn ... { body }` (already rewritten).  Returns annotated text.
    A proof *hint* (before/after/loop/closure text) whose anchor no longer exists is skipped and
    recorded in `lost` (the unit is then `degraded`: a failing obligation needs a concrete replay
    before it is reported)."""
    lost = lost if lost is not None else []
    m = mask(text)
    bo = find_body_open(m, 0)
    if bo < 0:
        raise ScanError("fn without body: " + what)
    sig, body = text[:bo], text[bo:]
    if spec.opts.get("as"):
        sig = re.sub(r"\bfn\s+[A-Za-z_][A-Za-z0-9_]*", "fn " + spec.opts["as"], sig, count=1)
    if spec.spec.strip():
        sig = name_return(sig.rstrip(), spec.opts.get("ret", "r"))
    # --- insertions into the body, done from the end towards the start ----
    ins = []  # (offset_in_body, text)
    bm = mask(body)
    if spec.entry.strip():
        check_ghost_only(spec.entry, what + " entry")
        ins.append((1, "\n" + spec.entry.rstrip() + "\n"))
    for bname, anchor, g in getattr(spec, "binds", []):
        # R9l (additive): `//@ bind NAME = EXPR` - EXPR begins a statement (or the tail expression) and is the receiver of a
        # method chain (`EXPR.m(..)` / `EXPR?`).  It is bound to an immutable local first, `let NAME = EXPR; <ghost> NAME.m(..)`,
        # so that ghost text can speak about the value between the call and its use (a receiver is evaluated before the rest
        # of the chain anyway; same idea as R9t for tail expressions).  Anything else is a lost anchor (fn degraded).
        check_ghost_only(g, what + " bind " + bname)
        try:
            ls, i0 = statement_start_of(body, bm, anchor, what)
        except ScanError as e:
            lost.append(str(e))
            continue
        a_txt = re.sub(r"\s##\d+$", "", anchor)
        e0 = i0 + len(a_txt)
        prev = bm[:ls].rstrip()
        am = mask(a_txt)
        balanced = all(am.count(o) == am.count(c) for o, c in ("()", "[]", "{}"))
        if (body[ls:i0].strip() or not prev or prev[-1] not in ";{}" or not balanced or not re.match(r"\s*(\.(?!\.)|\?)", bm[e0:])
                or re.search(r"\b%s\b" % re.escape(bname), bm)):
            lost.append("lost anchor: bind %s = %r in %s (not the receiver at the start of a statement, or the name is taken)" % (bname, a_txt, what))
            continue
        ins.append((e0, None, i0, bname))
        ins.append((ls, body[ls:i0] + "let " + bname + " = " + a_txt + ";\n" + g.rstrip() + "\n"))
    for anchor, g in spec.before:
        check_ghost_only(g, what + " before " + anchor)
        if anchor == "@return":
            for mm in re.finditer(r"(?m)^[ \t]*return\b", bm):
                ins.append((mm.start(), g.rstrip() + "\n"))
            continue
        if anchor == "@tail":
            # the tail expression: last line of the body before the closing brace (single-line tails only)
            inner = body.rstrip()[:-1].rstrip()
            ls = inner.rfind("\n") + 1
            last = inner[ls:].strip()
            if last.endswith(";") or last.endswith("}") or not last:
                lost.append("lost anchor: @tail in %s" % what)
                continue
            ins.append((ls, g.rstrip() + "\n"))
            continue
        try:
            ls, _ = statement_start_of(body, bm, anchor, what)
        except ScanError as e:
            lost.append(str(e))
            continue
        ins.append((ls, g.rstrip() + "\n"))
    for anchor, g in spec.after:
        check_ghost_only(g, what + " after " + anchor)
        if anchor == "@tail":
            # R9t (additive): ghost text AFTER the tail expression has been evaluated - the single-line tail `E` becomes
            # `let vx_tail = E;  <ghost>  vx_tail` (same value returned; lets a hint see the state `E` leaves behind)
            inner = body.rstrip()[:-1].rstrip()
            ls = inner.rfind("\n") + 1
            last = inner[ls:].strip()
            if last.endswith(";") or last.endswith("}") or not last or re.search(r"\bvx_tail\b", bm):
                lost.append("lost anchor: @tail in %s" % what)
                continue
            ind = len(inner[ls:]) - len(inner[ls:].lstrip())
            ins.append((len(inner), ";\n" + g.rstrip() + "\n" + inner[ls:ls + ind] + "vx_tail"))
            ins.append((ls + ind, "let vx_tail = "))
            continue
        try:
            _, i = statement_start_of(body, bm, anchor, what)
        except ScanError as e:
            lost.append(str(e))
            continue
        e = statement_end_from(bm, i)
        ins.append((e, "\n" + g.rstrip()))
    if spec.exit.strip():
        check_ghost_only(spec.exit, what + " exit")
        # end of a unit-returning body: just before the closing brace
        ins.append((len(body.rstrip()) - 1, spec.exit.rstrip() + "\n"))
    lps = loops_in(bm, 0, len(bm))
    for k, ltxt in spec.loops.items():
        if k >= len(lps):
            lost.append("lost anchor: loop %d in %s (%d loops)" % (k, what, len(lps)))
            continue
        lbo = find_body_open(bm, lps[k])
        if re.search(r"\b(assume|admit)\s*\(", mask(ltxt)):
            raise Unsupported("assume/admit in loop contract of " + what)
        ins.append((lbo, "\n" + ltxt.rstrip() + "\n"))
        # `//@ loop k :: iter=NAME` names the ghost iterator of a `for` loop (`for p in NAME: e`): Verus
        # ghost syntax only, the executed loop is unchanged; invariants can then speak about `NAME.cur`
        itn = spec.opts.get("loop_iter", {}).get(k)
        if itn:
            hm = re.match(r"for\b.*?\bin\s+", bm[lps[k]:lbo], re.S)
            if hm:
                ins.append((lps[k] + hm.end(), itn + ": "))
            else:
                lost.append("lost anchor: loop %d in %s is not a `for` loop (iter=%s)" % (k, what, itn))
    cls = closures_in(bm, 0, len(bm))
    for k, (head, ens) in spec.closures.items():
        if k >= len(cls):
            lost.append("lost anchor: closure %d in %s (%d closures)" % (k, what, len(cls)))
            continue
        a, b = cls[k]
        # the contract is written against parameter names; if the code renamed a closure parameter (same arity,
        # plain identifier patterns) the names in the contract follow the code - the body tokens stay untouched
        src_params = [x.strip() for x in body[a + 1:b - 1].split(",")] if b - a > 2 else []
        src_names = [re.match(r"(?:mut\s+)?([A-Za-z_][A-Za-z0-9_]*)\s*(?::.*)?$", x, re.S) for x in src_params]
        hm = re.match(r"\s*(?:move\s+)?\|(.*?)\|", head, re.S)
        if hm and src_params and all(src_names):
            dir_names = [re.match(r"\s*(?:mut\s+)?([A-Za-z_][A-Za-z0-9_]*)\s*:", x) for x in split_params(hm.group(1))]
            if len(dir_names) == len(src_names) and all(dir_names):
                for dn, sn in zip(dir_names, src_names):
                    if dn.group(1) != sn.group(1):
                        head = re.sub(r"\b%s\b" % re.escape(dn.group(1)), sn.group(1), head)
                        ens = re.sub(r"\b%s\b" % re.escape(dn.group(1)), sn.group(1), ens)
        after = bm[b:]
        ws = len(after) - len(after.lstrip())
        if after.lstrip().startswith("{"):
            # block closure: replace the head only, contract goes before the block
            ins.append((b, None, a, head + " " + ens.strip() + "\n"))
        else:
            e = closure_body_end(bm, b)
            ins.append((e, " }"))
            ins.append((b, None, a, head + " " + ens.strip() + "\n{"))
    # apply (sort by offset descending; replacement entries carry 4 fields)
    ins.sort(key=lambda x: -x[0])
    for it in ins:
        if len(it) == 2:
            off, txt = it
            body = body[:off] + txt + body[off:]
        else:
            off, _, a, txt = it
            body = body[:a] + txt + body[off:]
    out = ""
    for a in spec.attrs:
        out += a + "\n"
    out += sig.rstrip()
    if spec.spec.strip():
        if re.search(r"\b(assume|admit)\s*\(", mask(spec.spec)):
            raise Unsupported("assume/admit in contract of " + what)
        out += "\n" + spec.spec.rstrip() + "\n"
    else:
        out += " "
    out += body
    return out


# ----------------------------------------------------------------------------
# unit assembly
# ----------------------------------------------------------------------------
_SRC_CACHE = {}


def source(path: str) -> Source:
    full = os.path.join(REPO, path)
    if full not in _SRC_CACHE:
        if not os.path.exists(full):
            raise ScanError("lost anchor: file %s does not exist" % path)
        _SRC_CACHE[full] = Source(full)
    return _SRC_CACHE[full]


def mod_range(src: Source, modpath: str):
    lo, hi = 0, len(src.m)
    if modpath:
        for part in modpath.split("::"):
            lo, hi = src.find_mod(part, lo, hi)
    return lo, hi


def parse_opts(parts):
    opts = {}
    for p in parts:
        p = p.strip()
        if not p:
            continue
        if "=" not in p:
            raise ScanError("bad option %r" % p)
        k, v = p.split("=", 1)
        opts[k.strip()] = v.strip()
    return opts


def r10_inherent(header: str) -> str:
    """`impl<..> Trait<..> for Type<..> where ..` -> `impl<..> Type<..> where ..`"""
    m = re.match(r"^(impl(?:<[^{]*?>)?)\s+(?:[A-Za-z_:][A-Za-z0-9_:<>, &'()]*?)\s+for\s+(.*)$", header)
    if not m:
        return header
    return m.group(1) + " " + m.group(2)


def for_trait_header(header: str, new_trait: str) -> str:
    """option `for_trait=Tr<..>` (additive): `impl<G> Trait<..> for Type where W` -> `impl<G> Tr<..> for Type where W`.
    Used when R10 would leave type parameters unconstrained (they occur only in the trait's arguments and in the
    where clause): the fn is emitted as a method of a carrier trait declared in the unit text; generics and
    where clause still come from the repository."""
    gen, rest = split_generics(header)
    k = rest.find(" for ")
    if k < 0:
        return header
    return "impl" + gen + " " + new_trait + rest[k:]


def split_generics(header: str):
    """returns (generics_text_with_angle_brackets_or_'', rest) for `impl<...> rest`"""
    assert header.startswith("impl")
    h = header[4:]
    if not h.startswith("<"):
        return "", h.strip()
    depth = 0
    for i, c in enumerate(h):
        if c == "<":
            depth += 1
        elif c == ">" and h[i - 1] != "-":
            depth -= 1
            if depth == 0:
                return h[:i + 1], h[i + 1:].strip()
    raise ScanError("bad impl header " + header)


class Unit:
    def __init__(self, name: str):
        self.name = name
        self.lines = []  # output lines
        self.origin = []  # per line: ('spec'|'repo', detail)
        self.items = []  # dicts describing extracted items
        self.obligations = {}  # name -> dict(props, line, fn)
        self.fn_obls = {}
        self.rewrites = {}
        self.functions = []  # unit-level fn names that carry contracts
        self.degraded = {}  # fn name -> lost hint anchors
        self.stub = set()
        self.nohints = set()
        self.structural = {}  # structural obligation name -> {props, violations}
        self.stubbed = {}   # fn key -> reason (body not verified: its obligations are undecided)
        self.fn_lines = {}  # fn key -> (first line, last line) of the emitted text, 1-based
        self.fn_has_hints = {}
        # (additive) fn key -> {"unit", "export_key", "file", "name", "only", "line"}: contracts imported from the unit that
        # proves them (`//@ import`); they own no obligation here, ./check ties their status to the exporting unit
        self.imports = {}
        # (additive) structural obligation name -> description of a cross-unit link that is still made by hand and guarded by
        # `//@ samecontract` (hash of both texts) or `//@ refine` (Verus checks stand-in contract against the proved one)
        self.handlinks = {}

    def emit(self, text: str, origin):
        for ln in text.split("\n"):
            self.lines.append(ln)
            self.origin.append(origin)

    def text(self):
        return "\n".join(self.lines) + "\n"


OBL_RE = re.compile(r"//#\s*([A-Za-z0-9_.\-]+)\s*\[([A-Z0-9, ]+)\]\s*(sufficient-only)?")


def build_unit(unit_name: str, reach: bool = False, mutate=None, stub=None, nohints=None) -> Unit:
    path = os.path.join(VX, "units", unit_name + ".vxu")
    with open(path) as f:
        raw = f.read().split("\n")
    u = Unit(unit_name)
    u.stub = set(stub or ())        # fn keys emitted as external_body stubs (signature + contract, no body)
    u.nohints = set(nohints or ())  # fn keys whose statement-anchored hints are dropped
    i = 0
    n = len(raw)

    def include(rel):
        # (additive) `//@ include <file> :: notags=1`: obligation tags of the included text are stripped - for a trusted
        # prelude file shared with the unit that OWNS the obligations written on its stand-ins (prelude/sniff_hyper_rt.rs:
        # the `requires` of `ReadBufCursor::advance` are obligations of units sniff / bridge; unit upgradable includes the
        # file only for the vocabulary of an imported contract and never calls `advance`)
        segs = [x.strip() for x in split_top(rel)]
        rel, iopts = segs[0], parse_opts(segs[1:])
        with open(os.path.join(VX, rel)) as f:
            u.emit("// ---- include %s ----" % rel, ("spec", rel))
            text = f.read().rstrip("\n")
            if iopts.get("notags") == "1":
                text = strip_obligation_tags(text)
            u.emit(text, ("spec", rel))

    while i < n:
        line = raw[i]
        s = line.strip()
        if not s.startswith("//@"):
            u.emit(line, ("spec", unit_name + ".vxu:%d" % (i + 1)))
            i += 1
            continue
        d = s[3:].strip()
        kind = d.split()[0] if d else ""
        if kind == "include":
            include(d.split(None, 1)[1].strip())
            i += 1
        elif kind in ("struct", "enum", "const", "trait", "type"):
            segs = [x.strip() for x in split_top(d)]
            head = segs[0].split()
            fpath, name = head[1], head[2]
            opts = parse_opts(segs[1:])
            emit_plain(u, kind, fpath, name, opts)
            i += 1
        elif kind in ("writers", "implset", "fields"):
            # structural frame obligations (no Verus text): checked mechanically on the source
            #   //@ writers <name> [C..] :: <file>[,<file>..] :: <regex of a write to the state> :: fn1,fn2,..
            #       every match of the regex outside test modules must sit inside one of the listed fns
            #   //@ fields <name> [C..] :: <file> :: <StructName> :: f1,f2,..
            #       the struct has exactly these fields (new state in a component whose contract is stateless)
            #   //@ implset <name> [C..] :: <file> :: <impl-header regex> :: fn1,fn2,..
            #       the impl block defines exactly these fns (a new method - e.g. an overridden default - is a change
            #       no function contract can see)
            segs = [x.strip() for x in split_top(d[len(kind):].strip())]
            mo = re.match(r"([A-Za-z0-9_.\-]+)\s*\[([A-Z0-9, ]+)\]$", segs[0])
            if not mo or len(segs) != 4:
                raise ScanError("bad %s directive: %s" % (kind, d))
            props = [x.strip() for x in mo.group(2).split(",") if x.strip()]
            allowed = [x.strip() for x in segs[3].split(",") if x.strip()]
            bad = structural_check(kind, segs[1], segs[2], allowed)
            u.structural[mo.group(1)] = {"props": props, "kind": kind, "violations": bad,
                                         "text": "%s: %s in %s limited to {%s}" % (kind, segs[2], segs[1], ", ".join(allowed))}
            u.emit("// structural obligation %s [%s]: %s" % (mo.group(1), ",".join(props), "ok" if not bad else "VIOLATED: " + "; ".join(bad)), ("spec", "structural"))
            i += 1
        elif kind == "fn":
            fpath, impl_pat, name, spec, i = parse_fn_directive(raw, i, d)
            emit_fn(u, fpath, impl_pat, name, spec, reach, mutate)
        elif kind == "samecontract":
            # (additive) drift guard for a cross-unit link that is still made BY HAND (see emit_samecontract)
            emit_samecontract(u, d)
            i += 1
        elif kind == "refine":
            # (additive) refinement check of a hand-written stand-in against the contract proved in THIS unit (see emit_refine)
            emit_refine(u, d, reach)
            i += 1
        elif kind == "import":
            # (additive) `//@ import <unit> :: <impl-header regex | -> :: <fn name> [:: opt=value ..]`: the contract that
            # unit <unit> PROVES on the real body of the fn, as an external_body stub in this unit (see emit_import)
            emit_import(u, d)
            i += 1
        else:
            raise ScanError("unknown directive: " + d)
    # obligations: scan the emitted lines
    cur_fn = None
    for ln_no, ln in enumerate(u.lines, 1):
        mm = OBL_RE.search(ln)
        if mm:
            oname = mm.group(1)
            props = [p.strip() for p in mm.group(2).split(",") if p.strip()]
            if oname in u.obligations:
                u.obligations[oname]["lines"].append(ln_no)
            else:
                # full clause text: walk back over continuation lines (a clause starts after a line ending in `,`/`{`/`;`
                # or a contract keyword)
                st = ln_no
                while st > 1 and ln_no - st < 12:
                    prev = u.lines[st - 2].split("//")[0].rstrip()
                    if prev == "" or re.search(r"(,|\{|;|\bensures|\brequires|\binvariant|\binvariant_except_break|\bdecreases)$", prev):
                        break
                    st -= 1
                clause = " ".join(x.split("//#")[0].strip() for x in u.lines[st - 1:ln_no])
                u.obligations[oname] = {"props": props, "lines": [ln_no], "text": clause[:600],
                                        "sufficient_only": bool(mm.group(3))}
    return u


def parse_fn_directive(raw, i, d):
    """parses one `//@ fn ..` block (header line `d` at raw[i], sub-directives, `//@ end`).
    Returns (file, impl pattern, fn name, FnSpec, index of the line after `//@ end`)."""
    n = len(raw)
    body = d[2:].strip()
    segs = [x.strip() for x in split_top(body)]
    if len(segs) < 3:
        raise ScanError("bad fn directive: " + d)
    fpath, impl_pat, name = segs[0], segs[1], segs[2]
    spec = FnSpec()
    spec.opts = parse_opts(segs[3:])
    i += 1
    cur = None
    buf = []

    def flush():
        nonlocal cur, buf
        txt = "\n".join(buf)
        if cur is None:
            if txt.strip():
                raise ScanError("text outside a sub-directive in fn directive %s" % name)
        elif cur[0] == "spec":
            spec.spec = txt
        elif cur[0] == "loop":
            spec.loops[int(cur[1])] = txt
        elif cur[0] == "before":
            spec.before.append((cur[1], txt))
        elif cur[0] == "after":
            spec.after.append((cur[1], txt))
        elif cur[0] == "entry":
            spec.entry = txt
        elif cur[0] == "exit":
            spec.exit = txt
        elif cur[0] == "closure":
            spec.closures[int(cur[1])] = (cur[2], txt)
        elif cur[0] == "bind":
            spec.binds.append((cur[1], cur[2], txt))
        cur, buf = None, []

    while i < n:
        l2 = raw[i]
        s2 = l2.strip()
        if s2.startswith("//@"):
            d2 = s2[3:].strip()
            k2 = d2.split()[0]
            if k2 == "end":
                flush()
                i += 1
                break
            flush()
            if k2 == "attr":
                spec.attrs.append(d2.split(None, 1)[1])
            elif k2 == "spec":
                cur = ("spec",)
            elif k2 == "entry":
                cur = ("entry",)
            elif k2 == "exit":
                cur = ("exit",)
            elif k2 == "loop":
                cur = ("loop", d2.split()[1])
                mo_it = re.search(r"::\s*iter=([A-Za-z_][A-Za-z0-9_]*)", d2)
                if mo_it:
                    spec.opts.setdefault("loop_iter", {})[int(d2.split()[1])] = mo_it.group(1)
            elif k2 in ("before", "after"):
                cur = (k2, d2.split(None, 1)[1])
            elif k2 in ("before*", "after*"):
                cur = (k2[:-1], d2.split(None, 1)[1])
                spec.standalone.add((cur[0], cur[1]))
            elif k2 == "closure":
                rest = d2.split(None, 1)[1]
                kk, head = [x.strip() for x in rest.split("::", 1)]
                cur = ("closure", kk, head)
            elif k2 == "bind":
                mo_b = re.match(r"bind\s+([A-Za-z_][A-Za-z0-9_]*)\s*=\s*(.+)$", d2)
                if not mo_b:
                    raise ScanError("bad bind sub-directive: %s" % d2)
                cur = ("bind", mo_b.group(1), mo_b.group(2).strip())
            else:
                raise ScanError("unknown sub-directive %s" % k2)
        else:
            buf.append(l2)
        i += 1
    else:
        raise ScanError("missing //@ end for fn %s" % name)
    return fpath, impl_pat, name, spec, i


def split_top(s: str):
    """split on `::` that is surrounded by spaces (` :: `) so that regexes/paths may contain `::`"""
    return re.split(r"\s::\s", s)


def emit_plain(u: Unit, kind, fpath, name, opts):
    src = source(fpath)
    lo, hi = mod_range(src, opts.get("mod", ""))
    it = src.find_plain(kind, name, lo, hi, pick=int(opts["pick"])) if "pick" in opts else src.find_plain(kind, name, lo, hi)
    text = src.text(it.start, it.end)
    what = "%s %s (%s)" % (kind, name, fpath)
    attrs = leading_attrs(src.src, src.m, it.start)
    rw = Rewriter(text, what)
    rw.cfg_on = set(x.strip() for x in opts.get("cfg_on", "").split(",") if x.strip())  # R16
    rw.fnptr, rw.fnptr_src = opts.get("fnptr") == "1", src  # R28
    t = rw.common()
    if opts.get("mod") and opts.get("rootpaths") == "1":
        rw.r3m_super_paths(len(opts["mod"].split("::")))
        t = rw.t
    if opts.get("fnptr") == "types":  # R28p (additive): function-pointer types that are only named -> FnPtr1<A, B> / FnPtr0<T>
        import rewrites_fnptr
        t, k = rewrites_fnptr.apply_types1(t, what, Unsupported)
        rw.note("R28p", k)
    pre = ""
    if kind in ("struct", "enum"):
        keep = set(opts["keep_derive"].split(",")) if "keep_derive" in opts else KEEP_DERIVES_DEFAULT
        for a in attrs:
            mm = re.match(r"#\[derive\((.*)\)\]$", a)
            if mm:
                ds = [x.strip() for x in mm.group(1).split(",") if x.strip()]
                kept = [x for x in ds if x.split("::")[-1] in keep]
                if kept:
                    pre += "#[derive(%s)]\n" % ", ".join(kept)
        # fields become pub so that spec functions of the unit can name them (R3 extension)
        if opts.get("pubfields", "1") == "1" and kind == "struct":
            t = pub_fields(t)
            rw.note("R3f")
        if not re.match(r"\s*pub\b", t):
            t = "pub " + t.lstrip()
            rw.note("R3v")
        if opts.get("nodefaults") == "1":
            # R20 (additive, opt-in): defaults of type parameters (`struct X<A, B = crate::Body>`) dropped.  A default
            # only lets the type be named with fewer arguments; extracted code that does so no longer type-checks.
            t2 = strip_param_defaults(t)
            if t2 != t:
                t = t2
                rw.note("R20")
    if kind == "const":
        mm = re.match(r"(?s)(pub\s+)?const\s+([A-Z0-9_]+)\s*:\s*&\[u8\]\s*=\s*b\"(.*)\"\s*;", t)
        if mm:
            # R11: emitted as an exec const array + generated axiom from the literal's bytes
            lit = src.text(it.start, it.end)
            bs = eval("b\"" + re.search(r'b"(.*)"', lit, re.S).group(1) + "\"")
            arr = ", ".join("%du8" % b for b in bs)
            t = ("pub exec const %s: [u8; %d] ensures %s@ == seq![%s] { [%s] }"
                 % (name, len(bs), name, arr, arr))
            rw.note("R11")
        elif "exec_ensures" in opts:
            # R11b: `const NAME: T = init;` whose initialiser calls exec functions (a dual-mode const may
            # not) -> `exec const NAME: T ensures <contract text> { init }`.  The initialiser tokens are
            # unchanged and Verus checks the ensures clause against them.
            mm = re.match(r"(?s)((?:pub\s+)?)const\s+([A-Za-z0-9_]+)\s*:\s*(.*?)\s*=\s*(.*);\s*$", t.strip())
            if not mm:
                raise Unsupported("unsupported construct: const %s is not of the form `const N: T = e;`" % name)
            if re.search(r"\b(assume|admit)\s*\(", opts["exec_ensures"]):
                raise Unsupported("assume/admit in contract of const " + name)
            t = "%sexec const %s: %s\n    ensures %s\n{\n    %s\n}" % (mm.group(1), mm.group(2), mm.group(3), opts["exec_ensures"], mm.group(4))
            rw.note("R11b")
    if "attr" in opts:
        pre += opts["attr"] + "\n"
    u.emit("// ---- extracted: %s  [%s] ----" % (what, ", ".join(rw.applied)), ("spec", "marker"))
    u.emit(pre + t, ("repo", what))
    u.items.append({"kind": kind, "name": name, "file": fpath, "rewrites": rw.applied,
                    "sha": hashlib.sha256(text.encode()).hexdigest()[:12]})


def strip_param_defaults(t: str) -> str:
    """`struct X<A, B = Ty, C = Ty2> ...` -> `struct X<A, B, C> ...` (first generic list of the item only)"""
    mm = re.search(r"\b(?:struct|enum)\s+[A-Za-z_][A-Za-z0-9_]*\s*<", t)
    if not mm:
        return t
    lo = mm.end() - 1
    depth = 0
    hi = -1
    for i in range(lo, len(t)):
        c = t[i]
        if c == "<":
            depth += 1
        elif c == ">" and t[i - 1] != "-":
            depth -= 1
            if depth == 0:
                hi = i
                break
    if hi < 0:
        return t
    parts, cur, depth = [], "", 0
    for c in t[lo + 1:hi]:
        if c in "<([":
            depth += 1
        elif c in ">)]":
            depth -= 1
        if c == "," and depth == 0:
            parts.append(cur)
            cur = ""
        else:
            cur += c
    parts.append(cur)
    out = []
    for prm in parts:
        d, k = 0, -1
        for i, c in enumerate(prm):
            if c in "<([":
                d += 1
            elif c in ">)]":
                d -= 1
            elif c == "=" and d == 0 and prm[i + 1:i + 2] != "=":
                k = i
                break
        out.append(prm[:k].rstrip() if k >= 0 else prm)
    return t[:lo + 1] + ",".join(out) + t[hi:]


def pub_fields(t: str) -> str:
    m = mask(t)
    bo = find_body_open(m, 0)
    if bo < 0:
        # tuple struct: `struct X(A, B);` -> pub each field
        if "(" not in m:
            return t  # unit struct `struct X;` (additive: used to raise ValueError): no fields
        po = m.index("(")
        pc = match_close(m, po)
        inner = t[po + 1:pc]
        im = mask(inner)
        parts, depth, st = [], 0, 0
        for k, c in enumerate(im):
            if c in "(<[":
                depth += 1
            elif c in ")>]":
                depth -= 1
            elif c == "," and depth == 0:
                parts.append(inner[st:k])
                st = k + 1
        parts.append(inner[st:])
        parts = [p.strip() for p in parts if p.strip()]
        parts = [p if p.startswith("pub") else "pub " + p for p in parts]
        return t[:po + 1] + ", ".join(parts) + t[pc:]
    bc = match_close(m, bo)
    body = t[bo + 1:bc]
    body = re.sub(r"(?m)^(\s*)(?!pub\b)([a-z_][A-Za-z0-9_]*\s*:)", r"\1pub \2", body)
    return t[:bo + 1] + body + t[bc:]


def emit_fn(u: Unit, fpath, impl_pat, name, spec: FnSpec, reach: bool, mutate, imp=None):
    """imp (additive, set by emit_import only): the fn is NOT extracted - only its signature is emitted, exactly as for a
    stubbed fn, under the contract text of `spec` (which emit_import took from the exporting unit)."""
    src = source(fpath)
    lo, hi = mod_range(src, spec.opts.get("mod", ""))
    if impl_pat == "-":
        it = src.find_plain("fn", name, lo, hi)
        header = None
    else:
        it = src.find_impl_fn(impl_pat, name, lo, hi)
        header = it.impl_header.header
    if it.body_open < 0:
        raise ScanError("fn %s has no body" % name)
    text = src.text(it.start, it.end)
    what = "fn %s%s (%s)" % ((re.sub(r"\s+", " ", header) + " :: ") if header else "", name, fpath)
    key = fn_key(header, spec.opts.get("as", name))
    line0 = len(u.lines) + 1
    u.fn_has_hints[key] = bool(spec.before or spec.after or spec.exit.strip() or spec.binds)
    rw = Rewriter(text, what)
    rw.unpinned = set(x.strip() for x in spec.opts.get("unpinned", "").split(",") if x.strip())
    rw.proj_enums = proj_types_of(src)
    rw.proj_own = proj_own_types_of(src)
    rw.cfg_on = set(x.strip() for x in spec.opts.get("cfg_on", "").split(",") if x.strip())  # R16
    rw.boxpin = spec.opts.get("boxpin") == "1"
    rw.matchrw = spec.opts.get("matchrw", "")
    rw.macros, rw.macro_src = spec.opts.get("macros", ""), src  # R21
    rw.asyncblk, rw.mutself = spec.opts.get("asyncblk"), spec.opts.get("mutself") == "1"  # R23 / R24
    rw.entryrw = spec.opts.get("entryrw") == "1"  # R22
    rw.fnptr, rw.fnptr_src = spec.opts.get("fnptr") == "1", src  # R28
    rw.andthen, rw.closurepat = spec.opts.get("andthen") == "1", spec.opts.get("closurepat") == "1"  # R27 / R26
    rw.enumloop, rw.mutiter = spec.opts.get("enumloop") == "1", spec.opts.get("mutiter") == "1"  # R25 / R29
    try:
        t = rw.common()
        if spec.opts.get("mod") and spec.opts.get("rootpaths") == "1":
            rw.r3m_super_paths(len(spec.opts["mod"].split("::")))
            t = rw.t
    except Unsupported as e:
        # a construct outside the rewrite table appeared in this fn: keep its contract for the callers,
        # its own obligations become undecided (never a violation)
        if imp is None:
            u.stubbed[key] = str(e)
        t = None
    if t is None and imp is not None:  # import: the body is not needed, the raw signature will do
        emit_stub(u, text, header, spec, what, key, rw, imp=imp)
        u.fn_lines[key] = (line0, len(u.lines))
        return key
    if key in u.stubbed:  # rewriting itself failed: stub from the raw signature
        emit_stub(u, text, header, spec, what, key, rw)
        u.fn_lines[key] = (line0, len(u.lines))
        u.items.append({"kind": "fn", "name": name, "impl": header, "file": fpath, "rewrites": ["STUBBED: " + u.stubbed[key]],
                        "sha": hashlib.sha256(text.encode()).hexdigest()[:12], "contracted": bool(spec.spec.strip()),
                        "emitted_name": spec.opts.get("as", name), "stubbed": True})
        return
    if key in u.nohints:
        u.degraded.setdefault(spec.opts.get("as", name), []).append("hints dropped: they no longer compile against the current body")
        spec.before = [(a, g) for (a, g) in spec.before if ("before", a) in spec.standalone]
        spec.after = [(a, g) for (a, g) in spec.after if ("after", a) in spec.standalone]
        spec.exit = ""
        spec.binds = []
    # R10b: associated types `type X = Y;` of a trait impl.  When the trait is dropped (R10) every
    # `Self::X` in the fn text is replaced by its definition Y taken from the same impl block; when the
    # trait is kept they are emitted inside the impl.  Additive: fires only if the text mentions `Self::X`
    # (R10) or keep_trait=1 is given and the block defines associated types.
    assoc = []
    if header is not None and " for " in header:
        blk = it.impl_header
        inner = src.m[blk.body_open + 1:blk.end - 1]
        for mm in re.finditer(r"(?m)^[ \t]*type\s+([A-Za-z_][A-Za-z0-9_]*)\s*=\s*([^;]+);", inner):
            a0 = blk.body_open + 1 + mm.start()
            if src._depth_at(a0, blk.body_open + 1) == 0:
                ty = re.sub(r"\s+", " ", src.src[blk.body_open + 1 + mm.start(2):blk.body_open + 1 + mm.end(2)]).strip()
                assoc.append((mm.group(1), ty))
        if spec.opts.get("assoc_from"):
            # R10c (opt-in `assoc_from=<impl header regex>`, additive; unit `pooltake`): associated types that the fn text names
            # but that are DEFINED in a sibling impl block of the same file (`DerefMut::deref_mut` returns `&mut Self::Target`,
            # `type Target` lives in `impl Deref`).  Read from the real source on every run; exactly one block must match.
            rx_af = re.compile(spec.opts["assoc_from"])
            sib = [b for b in src.impl_blocks(lo, hi) if rx_af.search(b.header)]
            if len(sib) != 1:
                raise ScanError("lost anchor: assoc_from /%s/ of %s (%d matches)" % (spec.opts["assoc_from"], fpath, len(sib)))
            inner_af = src.m[sib[0].body_open + 1:sib[0].end - 1]
            for mm in re.finditer(r"(?m)^[ \t]*type\s+([A-Za-z_][A-Za-z0-9_]*)\s*=\s*([^;]+);", inner_af):
                a0 = sib[0].body_open + 1 + mm.start()
                if src._depth_at(a0, sib[0].body_open + 1) == 0:
                    assoc.append((mm.group(1), re.sub(r"\s+", " ", src.src[sib[0].body_open + 1 + mm.start(2):sib[0].body_open + 1 + mm.end(2)]).strip()))
            rw.note("R10c")
        if assoc and spec.opts.get("keep_trait") != "1":
            k = 0
            for _round in range(3):  # definitions may mention other associated types
                for an, ty in assoc:
                    t, kk = re.subn(r"\bSelf::%s\b" % re.escape(an), ty, t)
                    k += kk
            rw.note("R10b", k)
            if k and spec.opts.get("mod") and spec.opts.get("rootpaths") == "1":
                # R3m once more (unit `tlsfuture`, additive): the substituted definitions are text of the same
                # nested module, their leading `super::` has to go as well (it would not compile otherwise)
                rw.t = t
                rw.r3m_super_paths(len(spec.opts["mod"].split("::")))
                t = rw.t
    if spec.opts.get("fnptr") == "types":
        # R28p (opt-in `fnptr=types`, additive; vx/rewrites_fnptr.py): a function-pointer TYPE `fn(A) -> B` that is only
        # named (e.g. inside an associated type substituted by R10b just above), never called -> prelude stand-in
        # `FnPtr1<A, B>`.  Refused shapes: the fn is stubbed (signature as far as it could be rewritten).
        import rewrites_fnptr
        try:
            t, k = rewrites_fnptr.apply_types1(t, what, Unsupported)
            rw.note("R28p", k)
        except Unsupported as e:
            if imp is not None:
                emit_stub(u, t, header, spec, what, key, rw, rewritten=True, imp=imp)
                u.fn_lines[key] = (line0, len(u.lines))
                return key
            u.stubbed[key] = str(e)
            emit_stub(u, t, header, spec, what, key, rw, rewritten=True)
            u.fn_lines[key] = (line0, len(u.lines))
            u.items.append({"kind": "fn", "name": name, "impl": header, "file": fpath, "rewrites": ["STUBBED: " + u.stubbed[key]],
                            "sha": hashlib.sha256(text.encode()).hexdigest()[:12], "contracted": bool(spec.spec.strip()),
                            "emitted_name": spec.opts.get("as", name), "stubbed": True})
            return
    if spec.opts.get("vis") == "pub" and re.match(r"\s*fn\b", t):
        # opt-in `vis=pub` (unit `tlsfuture`, additive): a trait method is as visible as its trait; emitted as an
        # inherent method (R10) it has to be `pub` to be callable from another module of the unit
        t = re.sub(r"^(\s*)fn\b", r"\1pub fn", t, count=1)
        rw.note("R10v")
    if imp is not None:
        # imported contract: signature after all rewrites (what the exporting unit emits when it stubs the fn) + contract
        emit_stub(u, t, header, spec, what, key, rw, rewritten=True, imp=imp)
        u.fn_lines[key] = (line0, len(u.lines))
        return key
    if key in u.stub:
        # body rejected by the Verus front end: keep signature (after all rewrites) + contract only
        u.stubbed[key] = "body rejected by the Verus front end"
        emit_stub(u, t, header, spec, what, key, rw, rewritten=True)
        u.fn_lines[key] = (line0, len(u.lines))
        u.items.append({"kind": "fn", "name": name, "impl": header, "file": fpath, "rewrites": ["STUBBED: " + u.stubbed[key]],
                        "sha": hashlib.sha256(text.encode()).hexdigest()[:12], "contracted": bool(spec.spec.strip()),
                        "emitted_name": spec.opts.get("as", name), "stubbed": True})
        return
    if mutate:
        t = mutate(fpath, name, t)
    if reach:
        spec.entry = (spec.entry + "\nproof { assert(false); } // REACH " + name).strip("\n")
    lost = []
    t0 = t
    t = apply_fn_spec(t0, spec, what, lost)
    if lost:
        # hints may build on each other: when one anchor is gone, drop every statement-anchored hint
        u.degraded.setdefault(spec.opts.get("as", name), []).extend(lost)
        spec.before = [(a, g) for (a, g) in spec.before if ("before", a) in spec.standalone]
        spec.after = [(a, g) for (a, g) in spec.after if ("after", a) in spec.standalone]
        spec.exit = ""
        spec.binds = []
        lost2 = []
        t = apply_fn_spec(t0, spec, what, lost2)
        if lost2:
            spec.before, spec.after, spec.binds = [], [], []
            t = apply_fn_spec(t0, spec, what, [])
    u.emit("// ---- extracted: %s  [%s] ----" % (what, ", ".join(rw.applied)), ("spec", "marker"))
    if header is not None:
        hrw = Rewriter(header, what)
        hrw.r3_visibility()
        h = hrw.t
        if " for " in h and spec.opts.get("keep_trait") != "1":
            h2 = r10_inherent(h)
            if h2 != h:
                rw.note("R10")
                h = h2
        if "impl_header" in spec.opts:
            h = spec.opts["impl_header"]
        if "for_trait" in spec.opts:
            h = for_trait_header(hrw.t, spec.opts["for_trait"])
        u.emit(h + " {", ("repo", what))
        if assoc and spec.opts.get("keep_trait") == "1" and "impl_header" not in spec.opts:
            for an, ty in assoc:
                u.emit("    type %s = %s;" % (an, ty), ("repo", what))
            rw.note("R10b", len(assoc))
        u.emit(indent(t, "    "), ("repo", what))
        u.emit("}", ("repo", what))
    else:
        u.emit(t, ("repo", what))
    u.fn_lines[key] = (line0, len(u.lines))
    u.items.append({"kind": "fn", "name": name, "impl": header, "file": fpath, "rewrites": rw.applied,
                    "sha": hashlib.sha256(text.encode()).hexdigest()[:12],
                    "contracted": bool(spec.spec.strip()), "emitted_name": spec.opts.get("as", name)})


def enclosing_fn(src, pos):
    """name of the innermost `fn` whose body contains offset pos ('' if none); test modules -> None"""
    m = src.m
    # inside a #[cfg(test)] / #[cfg(all(test..))] module?  find `mod X {` blocks preceded by a cfg(test) attribute
    for mm in re.finditer(r"#\[cfg\((?:all\()?test\b[^\]]*\]\s*(?:pub(?:\([^)]*\))?\s+)?mod\s+[A-Za-z_][A-Za-z0-9_]*\s*\{", src.src):
        bo = mm.end() - 1
        try:
            bc = match_close(m, bo)
        except ScanError:
            continue
        if bo < pos < bc:
            return None
    best = ""
    for mm in re.finditer(r"\bfn\s+([A-Za-z_][A-Za-z0-9_]*)", m):
        if mm.start() > pos:
            break
        try:
            bo = find_body_open(m, mm.start())
        except ScanError:
            continue
        if bo < 0:
            continue
        try:
            bc = match_close(m, bo)
        except ScanError:
            continue
        if bo < pos < bc:
            best = mm.group(1)
    return best


def structural_check(kind, files, pattern, allowed):
    bad = []
    if kind == "writers":
        rx = re.compile(pattern)
        for fpath in [x.strip() for x in files.split(",") if x.strip()]:
            src = source(fpath)
            for mm in rx.finditer(src.m):
                fn = enclosing_fn(src, mm.start())
                if fn is None:
                    continue
                if fn not in allowed:
                    line = src.src.count("\n", 0, mm.start()) + 1
                    bad.append("%s:%d `%s` in fn %s" % (fpath, line, src.src[mm.start():mm.end()], fn or "<top level>"))
    elif kind == "fields":
        # (additive) `<file>#<mod::path>`: the struct lives in a nested module of the file
        files, _, modpath = files.partition("#")
        src = source(files)
        lo, hi = mod_range(src, modpath)
        it = src.find_plain("struct", pattern, lo, hi)
        names = []
        if it.body_open >= 0:
            body_lo = it.body_open + 1
            for mm in re.finditer(r"(?m)^[ \t]*(?:pub(?:\([^)]*\))?\s+)?([a-z_][A-Za-z0-9_]*)\s*:", src.m[body_lo:it.end - 1]):
                if src._depth_at(body_lo + mm.start(), body_lo) == 0:
                    names.append(mm.group(1))
        extra = [n for n in names if n not in allowed]
        missing = [n for n in allowed if n not in names]
        if extra:
            bad.append("%s: struct %s has additional field(s) %s" % (files, pattern, ", ".join(extra)))
        if missing:
            bad.append("%s: struct %s no longer has field(s) %s" % (files, pattern, ", ".join(missing)))
    else:
        files, _, modpath = files.partition("#")  # (additive) `<file>#<mod::path>`, as for `fields`
        src = source(files)
        rx = re.compile(pattern)
        lo, hi = mod_range(src, modpath)
        blocks = [b for b in src.impl_blocks(lo, hi) if rx.search(b.header)]
        if len(blocks) != 1:
            raise ScanError("lost anchor: impl /%s/ in %s (%d matches)" % (pattern, files, len(blocks)))
        blk = blocks[0]
        names = []
        inner_lo = blk.body_open + 1
        for mm in re.finditer(r"(?m)^[ \t]*(?:pub(?:\([^)]*\))?\s+)?(?:(?:const|async|unsafe)\s+)*fn\s+([A-Za-z_][A-Za-z0-9_]*)", src.m[inner_lo:blk.end - 1]):
            if src._depth_at(inner_lo + mm.start(), inner_lo) == 0:
                names.append(mm.group(1))
        # (additive) a macro call at item level of the impl block may define methods the `fn` scan cannot see
        for mm in re.finditer(r"(?m)^[ \t]*([A-Za-z_][A-Za-z0-9_:]*)!\s*[(\[{]", src.m[inner_lo:blk.end - 1]):
            if src._depth_at(inner_lo + mm.start(), inner_lo) == 0:
                names.append(mm.group(1) + "!")
        extra = [n for n in names if n not in allowed]
        missing = [n for n in allowed if n not in names]
        if extra:
            bad.append("%s: impl %s defines additional fn(s) %s" % (files, blk.header.split(" where")[0], ", ".join(extra)))
        if missing:
            bad.append("%s: impl %s no longer defines %s" % (files, blk.header.split(" where")[0], ", ".join(missing)))
    return bad


def proj_types_of(src) -> dict:
    """`#[pin_project(project = XProj)] enum X` in the file -> {XProj: X} (used by R6e)"""
    res = {}
    for mm in re.finditer(r"#\[(?:pin_project::)?pin_project\(\s*project\s*=\s*([A-Za-z_][A-Za-z0-9_]*)[^\]]*\)\]\s*(?:pub(?:\([^)]*\))?\s+)?(?:enum|struct)\s+([A-Za-z_][A-Za-z0-9_]*)", src.src):
        res[mm.group(1)] = mm.group(2)
    return res


def proj_own_types_of(src) -> dict:
    """`#[pin_project(.., project_replace = XOwn)] enum X { V { #[pin] f: F, g: G } }` in the file
    -> {XOwn: (X, [names of the #[pin] fields])} (used by R6r)"""
    res = {}
    for mm in re.finditer(r"#\[(?:pin_project::)?pin_project\([^\]]*\bproject_replace\s*=\s*([A-Za-z_][A-Za-z0-9_]*)[^\]]*\)\]\s*(?:pub(?:\([^)]*\))?\s+)?(?:enum|struct)\s+([A-Za-z_][A-Za-z0-9_]*)", src.src):
        bo = src.src.find("{", mm.end())
        bc = match_close(mask(src.src), bo) if bo >= 0 else -1
        body = src.src[bo:bc] if bc > bo else ""
        res[mm.group(1)] = (mm.group(2), re.findall(r"#\[pin\]\s*(?:pub(?:\([^)]*\))?\s+)?([A-Za-z_][A-Za-z0-9_]*)\s*:", body))
    return res


def fn_key(header, emitted_name: str) -> str:
    """`Owner::name` - Owner is the type an impl block is for ('' for free fns)"""
    if not header:
        return emitted_name
    h = header
    if " for " in h:
        h = "impl " + h.split(" for ", 1)[1]
    mm = re.match(r"impl(?:<[^{]*?>)?\s+([A-Za-z_][A-Za-z0-9_:]*)", re.sub(r"^impl<[^>]*(?:<[^>]*>[^>]*)*>", "impl", h))
    owner = mm.group(1).split("::")[-1] if mm else "?"
    return owner + "::" + emitted_name


def emit_stub(u, text, header, spec, what, key, rw, rewritten=False, imp=None):
    """signature + contract of the fn, body replaced: callers are still checked against the contract"""
    srw = Rewriter(text, what)
    m = mask(text)
    bo = find_body_open(m, 0)
    sig = text[:bo]
    if not rewritten:
        srw.t = sig
        srw.r2_attrs_comments()
        srw.r3_visibility()
        srw.r5_pin_erasure()
        srw.r14_extern_root() if hasattr(srw, "r14_extern_root") else None
        if getattr(rw, "fnptr", False):  # R28t (types only) so that the stub's signature stays inside Verus' type language
            import rewrites_fnptr
            try:
                srw.r12_phantom_fn()
                rewrites_fnptr.apply_types(srw, Unsupported)
            except Unsupported:
                pass
        sig = srw.t
        if getattr(rw, "mutself", False):  # R24 on the signature alone: `mut self` is rejected even on an external_body stub
            sig = re.sub(r"\(\s*mut\s+self\b", "(self", sig, count=1)
    if spec.opts.get("as"):
        sig = re.sub(r"\bfn\s+[A-Za-z_][A-Za-z0-9_]*", "fn " + spec.opts["as"], sig, count=1)
    if spec.spec.strip():
        sig = name_return(sig.rstrip(), spec.opts.get("ret", "r"))
    out = "#[verifier::external_body]\n" + sig.rstrip()
    if spec.spec.strip():
        out += "\n" + spec.spec.rstrip() + "\n"
    out += "{ unimplemented!() }"
    org = ("stub", what)
    if imp is not None and imp.get("refine"):
        # (additive) `//@ refine`: NOT a stub - a verified wrapper with the STAND-IN's contract around a call of the fn this unit
        # proves; Verus checks stand-in requires ==> proved requires (at the call) and proved ensures ==> stand-in ensures
        rf = imp["refine"]
        out = sig.rstrip() + "\n" + spec.spec.rstrip() + "\n{\n" + rf["entry"] + "    " + refine_call(sig, rf["callee"], header is not None) + " //# " + rf["tag"] + "\n}"
        org = ("spec", "refine %s" % rf["name"])
        u.emit("// ---- REFINEMENT CHECK %s: the contract of the hand-written stand-in `%s` (%s, used by unit(s) %s) around a call of the fn proved above ----"
               % (rf["name"], rf["standin"], rf["file"], rf["users"]), ("spec", "marker"))
    elif imp is not None:
        # (additive) origin `import`: runner.scan_assumptions lists the stub as `imported-contract`, not as an assumption
        org = ("import", "%s imported from unit %s" % (key, imp["unit"]))
        u.emit("// ---- IMPORTED from unit %s (contract text of its `//@ fn .. :: %s`, proved there on the real body; obligation tags stripped%s): %s ----"
               % (imp["unit"], imp["name"], "; ensures clauses kept: " + ",".join(imp["only"]) if imp.get("only") else "", what), ("spec", "marker"))
    else:
        u.emit("// ---- STUBBED (body not verified: %s): %s ----" % (u.stubbed[key], what), ("spec", "marker"))
    if header is not None:
        hrw = Rewriter(header, what)
        hrw.r3_visibility()
        h = hrw.t
        if " for " in h and spec.opts.get("keep_trait") != "1":
            h = r10_inherent(h)
        if "impl_header" in spec.opts:
            h = spec.opts["impl_header"]
        if "for_trait" in spec.opts:
            h = for_trait_header(hrw.t, spec.opts["for_trait"])
        u.emit(h + " {", org)
        u.emit(indent(out, "    "), org)
        u.emit("}", org)
    else:
        u.emit(out, org)


# ----------------------------------------------------------------------------
# imported contracts (additive): `//@ import <unit> :: <impl-header regex | -> :: <fn name> [:: opt=value ..]`
# ----------------------------------------------------------------------------
SPEC_KEYWORDS = ("requires", "ensures", "decreases", "recommends", "returns", "no_unwind", "opens_invariants")
_EXPORT_CACHE = {}


def export_directives(unit_name: str):
    """the `//@ fn` blocks of units/<unit>.vxu: [(file, impl pattern, fn name, FnSpec, line number)]"""
    if unit_name not in _EXPORT_CACHE:
        path = os.path.join(VX, "units", unit_name + ".vxu")
        if not os.path.exists(path):
            raise ScanError("lost anchor: import from unit %s: %s does not exist" % (unit_name, path))
        with open(path) as f:
            raw = f.read().split("\n")
        res, i = [], 0
        while i < len(raw):
            st = raw[i].strip()
            if st.startswith("//@") and (st[3:].strip().split() or [""])[0] == "fn":
                ln = i + 1
                fpath, impl_pat, name, spec, i = parse_fn_directive(raw, i, st[3:].strip())
                res.append((fpath, impl_pat, name, spec, ln))
            else:
                i += 1
        _EXPORT_CACHE[unit_name] = res
    return _EXPORT_CACHE[unit_name]


def strip_obligation_tags(text: str) -> str:
    """`clause, //# name [Cxx]` -> `clause,`: the importing unit does not own the exporting unit's obligations"""
    return "\n".join(re.sub(r"[ \t]*//#.*$", "", ln) for ln in text.split("\n"))


def spec_clauses(text: str):
    """contract text -> [(section keyword, [clause, ..])], a clause being a list of lines.  Line based: a section starts at a
    line beginning with a contract keyword; inside a section a clause ends with the line after which the bracket depth
    is 0 and whose code ends in `,` (the convention of the unit files: tag on the LAST line of a clause)."""
    secs, cur_kw, cur_clauses, clause, depth = [], None, [], [], 0
    for ln in text.split("\n"):
        code = mask(ln).split("//")[0].rstrip()
        mk = re.match(r"\s*(%s)\b(.*)$" % "|".join(SPEC_KEYWORDS), code) if depth == 0 and not clause_has_code(clause) else None
        if mk:
            if cur_kw is not None or clause:
                if clause:
                    cur_clauses.append(clause)
                secs.append((cur_kw, cur_clauses))
            cur_kw, cur_clauses, clause = mk.group(1), [], []
            rest = mk.group(2)
            if not rest.strip():
                continue
            ln = " " * (len(ln) - len(ln.lstrip())) + "    " + ln[mk.start(2):].lstrip()
            code = mask(ln).split("//")[0].rstrip()
        clause.append(ln)
        for c in code:
            if c in "([{":
                depth += 1
            elif c in ")]}":
                depth -= 1
        if depth == 0 and code.endswith(","):
            cur_clauses.append(clause)
            clause = []
    if clause:
        cur_clauses.append(clause)
    if cur_kw is not None or cur_clauses:
        secs.append((cur_kw, cur_clauses))
    return secs


def clause_has_code(clause) -> bool:
    return any(mask(l).split("//")[0].strip() for l in clause)


def select_ensures(text: str, only, what: str) -> str:
    """import option `only=tag1,tag2`: keep `requires` (and every other section) whole, of `ensures` only the clauses that
    carry one of the listed obligation names.  Dropping postconditions of a proved contract only weakens what the
    importing unit may assume.  Every listed name must be found (a renamed / deleted clause is a lost anchor)."""
    found, out = set(), []
    for kw, clauses in spec_clauses(text):
        kept = []
        for cl in clauses:
            if kw != "ensures":
                kept.append(cl)
                continue
            tags = {mm.group(1) for l in cl for mm in OBL_RE.finditer(l)}
            if tags & set(only):
                found |= tags & set(only)
                kept.append(cl)
        if kw == "ensures" and not kept:
            continue
        if kw is not None and clause_has_code([l for cl in kept for l in cl]):
            out.append("    " + kw)
        for cl in kept:
            out.extend(cl)
    missing = [t for t in only if t not in found]
    if missing:
        raise ScanError("lost anchor: %s: no ensures clause tagged %s in the exporting contract" % (what, ", ".join(missing)))
    return "\n".join(out)


def emit_import(u: Unit, d: str):
    """`//@ import <unit> :: <impl-header regex | -> :: <fn name> [:: opt=value ..]`

    Modular link ACROSS units.  The fn is under contract in units/<unit>.vxu (a `//@ fn` block proves the contract on the real
    body).  Here its SIGNATURE is re-extracted from the repository exactly as for a stubbed fn (rewrite options of the
    exporting directive, overridden / extended by the options given here) and emitted as `#[verifier::external_body]`
    under the exporting block's `//@ spec` text VERBATIM, obligation tags stripped.  Nothing is copied by hand, so the
    text a caller is checked against IS the text that is proved.  The spec functions the contract mentions must be in
    scope (shared `//@ include` files).  Import-only option: `only=tag1,tag2` (see select_ensures).
    The exporting block is the one with this fn name whose impl header (as found in the source) matches the regex."""
    segs = [x.strip() for x in split_top(d[len("import"):].strip())]
    if len(segs) < 3:
        raise ScanError("bad import directive: " + d)
    exp_unit, imp_pat, name = segs[0], segs[1], segs[2]
    iopts = parse_opts(segs[3:])
    what = "import %s :: %s :: %s" % (exp_unit, imp_pat, name)
    if exp_unit == u.name:
        raise ScanError("bad import directive (a unit cannot import from itself): " + d)
    hits = []
    for (fpath, epat, ename, espec, ln) in export_directives(exp_unit):
        if ename != name:
            continue
        if epat == "-" or imp_pat == "-":
            if epat == imp_pat:
                hits.append((fpath, epat, espec, ln))
            continue
        src = source(fpath)
        lo, hi = mod_range(src, espec.opts.get("mod", ""))
        try:
            hdr = src.find_impl_fn(epat, name, lo, hi).impl_header.header
        except ScanError:
            continue  # the exporting unit itself will report its lost anchor
        if re.search(imp_pat, hdr):
            hits.append((fpath, epat, espec, ln))
    if len(hits) != 1:
        raise ScanError("lost anchor: %s (%d matching `//@ fn` blocks in units/%s.vxu)" % (what, len(hits), exp_unit))
    fpath, epat, espec, ln = hits[0]
    if not espec.spec.strip():
        raise ScanError("lost anchor: %s: the exporting block (units/%s.vxu:%d) has no //@ spec" % (what, exp_unit, ln))
    only = [x.strip() for x in iopts.pop("only", "").split(",") if x.strip()]
    spec = FnSpec()
    spec.opts = {k: v for k, v in espec.opts.items() if k != "loop_iter"}
    spec.opts.update(iopts)
    text = select_ensures(espec.spec, only, what) if only else espec.spec
    spec.spec = strip_obligation_tags(text)
    imp = {"unit": exp_unit, "name": name, "only": only, "line": ln}
    key = emit_fn(u, fpath, epat, name, spec, False, None, imp=imp)
    hdr_of = None if epat == "-" else source(fpath).find_impl_fn(epat, name, *mod_range(source(fpath), espec.opts.get("mod", ""))).impl_header.header
    imp.update({"export_key": fn_key(hdr_of, espec.opts.get("as", name)), "file": fpath, "key": key,
                "spec_sha": hashlib.sha256(espec.spec.encode()).hexdigest()[:12]})
    u.imports[key] = imp
    u.items.append({"kind": "import", "name": name, "impl": hdr_of, "file": fpath, "from": exp_unit,
                    "rewrites": ["IMPORTED from unit %s (units/%s.vxu:%d)%s" % (exp_unit, exp_unit, ln, ", only=" + ",".join(only) if only else "")],
                    "sha": imp["spec_sha"], "contracted": True, "emitted_name": spec.opts.get("as", name)})


# ----------------------------------------------------------------------------
# cross-unit links that are still made BY HAND (additive): drift guards
# ----------------------------------------------------------------------------
def find_export_block(exp_unit: str, imp_pat: str, name: str, what: str):
    """the `//@ fn .. :: <name>` block of units/<exp_unit>.vxu whose impl header (as found in the source) matches imp_pat"""
    hits = []
    for (fpath, epat, ename, espec, ln) in export_directives(exp_unit):
        if ename != name:
            continue
        if epat == "-" or imp_pat == "-":
            if epat == imp_pat:
                hits.append((fpath, epat, espec, ln))
            continue
        src = source(fpath)
        lo, hi = mod_range(src, espec.opts.get("mod", ""))
        try:
            hdr = src.find_impl_fn(epat, name, lo, hi).impl_header.header
        except ScanError:
            continue
        if re.search(imp_pat, hdr):
            hits.append((fpath, epat, espec, ln))
    if len(hits) != 1:
        raise ScanError("lost anchor: %s (%d matching `//@ fn` blocks in units/%s.vxu)" % (what, len(hits), exp_unit))
    return hits[0]


def contract_code(text: str) -> str:
    """contract text reduced to its code: comments and obligation tags dropped, white space collapsed (so that the hash
    changes with the CONTRACT, not with a re-worded comment or a re-assigned property tag)"""
    out = []
    for ln in text.split("\n"):
        # cut at the first `//` outside a string literal (rustscan.mask blanks comments entirely, so it cannot be used to
        # find where one starts)
        in_str, k, cut = False, 0, len(ln)
        while k < len(ln):
            c = ln[k]
            if in_str:
                if c == "\\":
                    k += 1
                elif c == '"':
                    in_str = False
            elif c == '"':
                in_str = True
            elif ln.startswith("//", k):
                cut = k
                break
            k += 1
        out.append(ln[:cut])
    return re.sub(r"\s+", " ", " ".join(out)).strip()


def contract_sha(text: str) -> str:
    return hashlib.sha256(contract_code(text).encode()).hexdigest()[:12]


def standin_text(rel: str, fn: str, what: str):
    """text of the hand-written stand-in `fn <name>` in a prelude file: (whole fn text, contract text, 1-based line).
    `<name>##k`: the k-th `fn <name>` of the file."""
    fn, _, k = fn.partition("##")
    k = int(k) if k else 1
    path = os.path.join(VX, rel)
    if not os.path.exists(path):
        raise ScanError("lost anchor: %s: %s does not exist" % (what, rel))
    with open(path) as f:
        t = f.read()
    m = mask(t)
    hits = [mm for mm in re.finditer(r"\bfn\s+%s\b" % re.escape(fn), m)]
    if len(hits) < k:
        raise ScanError("lost anchor: %s: no stand-in `fn %s` (occurrence %d) in %s" % (what, fn, k, rel))
    st = hits[k - 1].start()
    um = re.compile(r"\{\s*unimplemented!\(\)\s*\}").search(m, st)
    nxt = re.compile(r"\bfn\s+[A-Za-z_]").search(m, hits[k - 1].end())
    if um and (not nxt or um.start() < nxt.start()):
        body_open, end = um.start(), um.end()
    else:
        body_open = find_body_open(m, st)
        if body_open < 0:  # trait method declaration `fn f(..) -> T requires .. ensures ..;`
            end = m.index(";", st) + 1
            body_open = end - 1
        else:
            end = match_close(m, body_open) + 1
    head = m[st:body_open]
    km = re.search(r"\b(requires|ensures)\b", head)
    contract = t[st + km.start():body_open] if km else ""
    return t[st:end], contract, t.count("\n", 0, st) + 1


def parse_link_head(seg0: str, kind: str, d: str):
    mo = re.match(r"([A-Za-z0-9_.\-]+)\s*\[([A-Z0-9, ]+)\]$", seg0)
    if not mo:
        raise ScanError("bad %s directive: %s" % (kind, d))
    return mo.group(1), [x.strip() for x in mo.group(2).split(",") if x.strip()]


def emit_samecontract(u: Unit, d: str):
    """`//@ samecontract <name> [Cxx,..] :: <exporting unit> :: <impl-header regex | -> :: <fn> :: <prelude file> :: <stand-in fn>
                          :: export=<sha> :: standin=<sha>`

    Drift guard for a cross-unit link that is still made BY HAND: unit <exporting unit> proves a contract on the real body
    of <fn>; THIS unit is verified against a hand-written `external_body` stand-in of it in <prelude file> (different
    vocabulary, so `//@ import` does not apply - notes/imports.md says why for each).  The directive records the hash of BOTH
    texts as they were when a human last compared them: `export` = code of the exporting block's `//@ spec` (comments, tags
    and white space do not count), `standin` = code of the stand-in fn (signature + contract).  A structural obligation
    (like writers / implset / fields): when either hash differs the obligation is violated = UNDECIDED, it falls back to its
    replays (replays/index.links.json) - i.e. any edit of the proved contract (or of the copy) forces a human look at the
    pair, after which the new hashes are written into the directive.  Nothing is assumed by the directive itself."""
    segs = [x.strip() for x in split_top(d[len("samecontract"):].strip())]
    if len(segs) < 6:
        raise ScanError("bad samecontract directive: " + d)
    name, props = parse_link_head(segs[0], "samecontract", d)
    exp_unit, imp_pat, fn, rel, sfn = segs[1:6]
    opts = parse_opts(segs[6:])
    what = "samecontract %s: %s :: %s :: %s" % (name, exp_unit, imp_pat, fn)
    bad = []
    esha = ssha = ln = None
    try:
        fpath, epat, espec, ln = find_export_block(exp_unit, imp_pat, fn, what)
        esha = contract_sha(espec.spec)
    except ScanError as e:
        bad.append("the exporting `//@ fn` block is gone: %s" % e)
    try:
        whole, contract, sln = standin_text(rel, sfn, what)
        ssha = contract_sha(whole)
    except ScanError as e:
        bad.append("the stand-in is gone: %s" % e)
    if esha is not None and opts.get("export") != esha:
        bad.append("the contract unit %s proves for %s (units/%s.vxu:%s) is now %s, the directive records %s: compare it with the hand-written stand-in `%s` in %s, then record export=%s"
                   % (exp_unit, fn, exp_unit, ln, esha, opts.get("export", "nothing"), sfn, rel, esha))
    if ssha is not None and opts.get("standin") != ssha:
        bad.append("the hand-written stand-in `%s` in %s is now %s, the directive records %s: compare it with the contract proved in units/%s.vxu:%s, then record standin=%s"
                   % (sfn, rel, ssha, opts.get("standin", "nothing"), exp_unit, ln, ssha))
    u.structural[name] = {"props": props, "kind": "samecontract", "violations": bad,
                          "text": "samecontract: stand-in `%s` (%s) was compared by hand with the contract of %s proved in unit %s; both texts unchanged since (export=%s standin=%s)"
                                  % (sfn, rel, fn, exp_unit, opts.get("export"), opts.get("standin"))}
    u.handlinks[name] = {"guard": "samecontract", "function": fn, "proved_in": exp_unit, "exporting_block": "vx/units/%s.vxu:%s" % (exp_unit, ln),
                         "standin": "%s in vx/%s" % (sfn, rel), "export_sha": esha, "standin_sha": ssha, "status": "unchanged" if not bad else "CHANGED: " + "; ".join(bad)}
    u.emit("// structural obligation %s [%s]: %s" % (name, ",".join(props), "ok" if not bad else "VIOLATED: " + "; ".join(bad)), ("spec", "structural"))


REFINE_CUT = "NOT REFINED"


def refine_call(sig: str, callee: str, in_impl: bool) -> str:
    """`self.f(a, b)` / `Self::f(a, b)` / `f(a, b)` from the parameter list of the (rewritten) signature"""
    m = mask(sig)
    mm = re.search(r"\bfn\s+[A-Za-z_][A-Za-z0-9_]*", m)
    j = mm.end()
    if j < len(m) and m[j:].lstrip().startswith("<"):
        j = m.index("<", j)
        depth = 0
        while True:
            if m[j] == "<":
                depth += 1
            elif m[j] == ">" and m[j - 1] != "-":
                depth -= 1
                if depth == 0:
                    j += 1
                    break
            j += 1
    po = m.index("(", j)
    pc = match_close(m, po)
    params = [x.strip() for x in split_params(sig[po + 1:pc])]
    recv, args = None, []
    for p_ in params:
        if re.match(r"(&\s*(?:'[a-z_]+\s+)?)?(mut\s+)?self\b", p_):
            recv = p_
            continue
        nm = re.match(r"(?:mut\s+)?([A-Za-z_][A-Za-z0-9_]*)\s*:", p_)
        if not nm:
            raise ScanError("refine: cannot name parameter `%s`" % p_)
        args.append(nm.group(1))
    if recv is not None:
        return "self.%s(%s)" % (callee, ", ".join(args))
    return ("Self::%s(%s)" if in_impl else "%s(%s)") % (callee, ", ".join(args))


def emit_refine(u: Unit, d: str, reach: bool):
    """`//@ refine <name> [Cxx,..] :: <impl-header regex | -> :: <fn> :: <prelude file> :: <stand-in fn> [:: users=<unit,..>] [:: as=<emitted name of fn>]`

    Refinement check for a cross-unit link that is still made BY HAND, written in the EXPORTING unit (the one that proves the
    contract of <fn> on the real body; the directive comes after that `//@ fn` block).  Another unit is verified against a
    hand-written `external_body` stand-in of <fn> in <prelude file>, in its own vocabulary.  This directive emits, next to the
    proved fn, a WRAPPER with the signature of <fn> (re-extracted), the requires / ensures text of the stand-in read from the
    prelude file on every run, and the body `<fn>(args)`.  Verus then checks, mechanically and in the unit that has the real
    types,  stand-in requires ==> proved requires  (precondition of the call)  and  proved ensures ==> stand-in ensures
    (postcondition of the wrapper): the hand copy is not weaker in what it demands and not stronger in what it promises.
    The ghost attributes the stand-in speaks about must be DEFINED in this unit over the real type (abstraction functions,
    plain `open spec fn` text of the unit - the explicit dictionary between the two vocabularies).  Clauses of the stand-in
    that follow a comment containing `NOT REFINED` are left out (ghost argument records and model conventions that no unit
    proves; they are listed as such in the evidence).  Every line of the wrapper carries the obligation tag <name> [Cxx,..]."""
    segs = [x.strip() for x in split_top(d[len("refine"):].strip())]
    if len(segs) < 5:
        raise ScanError("bad refine directive: " + d)
    name, props = parse_link_head(segs[0], "refine", d)
    imp_pat, fn, rel, sfn = segs[1:5]
    opts = parse_opts(segs[5:])
    what = "refine %s: %s :: %s" % (name, imp_pat, fn)
    fpath, epat, espec, ln = find_export_block(u.name, imp_pat, fn, what)
    whole, contract, sln = standin_text(rel, sfn, what)
    if not contract.strip():
        raise ScanError("lost anchor: %s: the stand-in `%s` in %s has no contract" % (what, sfn, rel))
    tag = "%s [%s]" % (name, ",".join(props))
    kept, dropped, cut = [], [], False
    for ln_ in strip_obligation_tags(contract).rstrip().split("\n"):
        if REFINE_CUT in ln_:
            cut = True
        (dropped if cut else kept).append(ln_)
    text = []
    for ln_ in kept:
        code = mask(ln_).split("//")[0].strip()
        text.append(ln_ + (" //# " + tag if code and code not in ("requires", "ensures") else ""))
    spec = FnSpec()
    spec.opts = {k: v for k, v in espec.opts.items() if k != "loop_iter"}
    callee = spec.opts.get("as", fn)
    spec.opts["as"] = "vx_refine_" + re.sub(r"[^A-Za-z0-9_]", "_", name)
    spec.spec = "\n".join(text)
    if any(k == spec.opts["as"] or k.endswith("::" + spec.opts["as"]) for k in u.stub):
        # the wrapper did not pass the front end (isolation loop of runner.verify_unit put its key into `stub`): e.g. a
        # parameter of the real fn was renamed, so the stand-in's text no longer names it.  Keep that local: no wrapper is
        # emitted, the link obligation is "not generated" = undecided for ITS properties only (replays), the rest of the unit
        # is verified as usual.
        u.emit("// ---- REFINEMENT CHECK %s NOT GENERATED: the stand-in's contract (vx/%s `%s`) does not compile around a call of %s in this unit ----"
               % (name, rel, sfn, fn), ("spec", "marker"))
        u.handlinks[name] = {"guard": "refine", "function": fn, "proved_in": u.name, "exporting_block": "vx/units/%s.vxu:%s" % (u.name, ln),
                             "standin": "%s in vx/%s:%d" % (sfn, rel, sln), "used_by": opts.get("users", "?"),
                             "status": "NOT GENERATED: the wrapper does not pass the front end"}
        return
    entry = ("    proof { assert(false); } // REACH %s\n" % spec.opts["as"]) if reach else ""
    imp = {"unit": u.name, "name": fn, "only": [], "line": ln,
           "refine": {"name": name, "tag": tag, "callee": callee, "standin": sfn, "file": "vx/" + rel, "users": opts.get("users", "?"), "entry": entry}}
    key = emit_fn(u, fpath, epat, fn, spec, False, None, imp=imp)
    unref = [contract_code(x) for x in dropped if contract_code(x)]
    u.handlinks[name] = {"guard": "refine", "function": fn, "proved_in": u.name, "exporting_block": "vx/units/%s.vxu:%s" % (u.name, ln),
                         "standin": "%s in vx/%s:%d" % (sfn, rel, sln), "used_by": opts.get("users", "?"), "wrapper": key,
                         "unrefined_clauses": unref}
    u.items.append({"kind": "refine", "name": fn, "impl": None, "file": fpath, "from": rel,
                    "rewrites": ["REFINEMENT WRAPPER for stand-in %s (vx/%s)" % (sfn, rel)], "sha": contract_sha(contract),
                    "contracted": True, "emitted_name": spec.opts["as"]})


def indent(t: str, pre: str) -> str:
    # the extracted fn text starts at its `fn` keyword: the first line lost its indentation
    lines = t.split("\n")
    return "\n".join((pre + l if k == 0 else l) for k, l in enumerate(lines))


if __name__ == "__main__":
    import argparse
    ap = argparse.ArgumentParser()
    ap.add_argument("unit")
    ap.add_argument("--reach", action="store_true")
    ap.add_argument("-o", default="-")
    a = ap.parse_args()
    try:
        un = build_unit(a.unit, reach=a.reach)
    except ScanError as e:
        print("UNDECIDED: %s" % e, file=sys.stderr)
        sys.exit(2)
    if a.o == "-":
        sys.stdout.write(un.text())
    else:
        with open(a.o, "w") as f:
            f.write(un.text())
    print("items=%d obligations=%d" % (len(un.items), len(un.obligations)), file=sys.stderr)
