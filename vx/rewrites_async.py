"""Rewrite rules R23 / R24 (opt-in per fn), for the two constructs Verus 0.2026.09.13 rejects outright:

  "The verifier does not yet support the following Rust feature: generator types"   (async blocks)
  "The verifier does not yet support the following Rust feature: mut self"

R23 `:: asyncblk=a,b;c`   the k-th `async { BODY }` / `async move { BODY }` block of the fn (textual order, k = 0..)
                 is replaced by the call `async_block_<k>(<captures>)`, where <captures> is the k-th `;`-separated
                 group of the option (a comma separated list of local variable names, may be empty).  The unit text
                 declares `async_block_<k>` (external_body: a constructor of an opaque future that owns exactly the
                 listed values).  WHAT IS DROPPED: the body of the async block.  It is not verified; it does not run
                 in the enclosing fn either - an async block only builds a future, its body runs when (and if) that
                 future is polled, by whoever the future is handed to.  What the enclosing fn itself does with the
                 future (spawn it, push it into a set, ...) stays in the verified text.
                 Checks (else Unsupported -> the fn is stubbed: undecided, never an alarm):
                   * the number of async blocks equals the number of groups;
                   * every listed capture occurs as an identifier in BODY;
                   * every identifier of BODY that is a `let` / parameter / pattern binding of the enclosing fn
                     outside the block is listed (so a newly captured local cannot go unnoticed), `self` included.

R24 `:: mutself=1`    `fn f(mut self, ..) { BODY }`  becomes  `fn f(self, ..) { let mut self_ = self; BODY' }` where
                 BODY' is BODY with every identifier token `self` replaced by `self_` (`Self` untouched).  This is
                 what `mut self` means: the parameter is a mutable local initialised by the argument.
"""
import re

from rustscan import mask, match_close

IDENT = re.compile(r"(?<![A-Za-z0-9_])[a-z_][a-z0-9_]*(?![A-Za-z0-9_])")
KEYWORDS = set("as async await break const continue crate dyn else enum extern false fn for if impl in let loop match mod "
               "move mut pub ref return self static struct super trait true type unsafe use where while".split())


def _bindings(t, m, lo, hi):
    """names bound by `let` patterns, closure / fn parameters, match-arm and `if let`/`while let` patterns in m[lo:hi]
    (over-approximation: every lower-case identifier that appears in a pattern position)"""
    names = set()
    seg = m[lo:hi]
    for mm in re.finditer(r"\blet\s+([^=;]+?)(?::[^=;]+)?\s*(?:=|;)", seg):
        names |= {x.group(0) for x in IDENT.finditer(mm.group(1))}
    for mm in re.finditer(r"\|([^|]*)\|", seg):
        names |= {x.group(0) for x in IDENT.finditer(mm.group(1).split(":")[0])}
    return {n for n in names if n not in KEYWORDS}


def apply_asyncblk(rw, groups_opt, unsupported):
    groups = [[x.strip() for x in g.split(",") if x.strip()] for g in groups_opt.split(";")]
    if groups_opt.strip() == "-":
        groups = [[]]
    k = 0
    while True:
        t = rw.t
        m = mask(t)
        mm = re.search(r"(?<![A-Za-z0-9_])async\s+(?:move\s+)?\{", m)
        if not mm:
            break
        if k >= len(groups):
            raise unsupported("unsupported construct: more async blocks than `asyncblk=` groups (R23) in %s" % rw.what)
        bo = mm.end() - 1
        bc = match_close(m, bo)
        body_m = m[bo + 1:bc]
        used = {x.group(0) for x in IDENT.finditer(body_m)} - (KEYWORDS - {"self"})
        # signature parameters + bindings before the block
        sig_end = m.find("{")
        params = set()
        pm = re.search(r"\bfn\s+[A-Za-z_][A-Za-z0-9_]*\s*(?:<[^(]*>)?\s*\(", m)
        if pm:
            pc = match_close(m, pm.end() - 1)
            for part in re.split(r",(?![^<(]*[>)])", m[pm.end():pc]):
                name = part.split(":")[0]
                params |= {x.group(0) for x in IDENT.finditer(name)} - (KEYWORDS - {"self"})
        outer = params | _bindings(t, m, sig_end, mm.start())
        inner = _bindings(t, m, bo, bc)
        caps = groups[k]
        for c in caps:
            if c not in used:
                raise unsupported("unsupported construct: declared capture `%s` does not occur in async block %d (R23) in %s" % (c, k, rw.what))
        missing = sorted(n for n in used if n in outer and n not in inner and n not in caps)
        if missing:
            raise unsupported("unsupported construct: async block %d captures %s, not declared in `asyncblk=` (R23) in %s" % (k, ", ".join(missing), rw.what))
        rw.t = t[:mm.start()] + "async_block_%d(%s)" % (k, ", ".join(caps)) + t[bc + 1:]
        k += 1
    if k != len(groups) and not (k == 0 and groups == [[]]):
        raise unsupported("unsupported construct: %d async blocks but %d `asyncblk=` groups (R23) in %s" % (k, len(groups), rw.what))
    rw.note("R23", k)


def apply_mutself(rw, unsupported):
    t = rw.t
    m = mask(t)
    pm = re.search(r"\bfn\s+[A-Za-z_][A-Za-z0-9_]*\s*(?:<[^(]*>)?\s*\(\s*mut\s+self\s*(?=[,)])", m)
    if not pm:
        rw.note("R24", 0)
        return
    if re.search(r"(?<![A-Za-z0-9_])self_(?![A-Za-z0-9_])", m):
        raise unsupported("unsupported construct: identifier `self_` already in use (R24) in %s" % rw.what)
    pc = match_close(m, m.index("(", pm.start()))
    bo = m.find("{", pc)
    # no `where`-clause brace can precede the body brace; the first `{` at depth 0 after the parameter list is the body
    if bo < 0:
        raise unsupported("unsupported construct: fn without body (R24) in %s" % rw.what)
    bc = match_close(m, bo)
    body = t[bo + 1:bc]
    body_m = m[bo + 1:bc]
    out, last = [], 0
    for x in re.finditer(r"(?<![A-Za-z0-9_])self(?![A-Za-z0-9_])", body_m):
        out.append(body[last:x.start()])
        out.append("self_")
        last = x.end()
    out.append(body[last:])
    head = t[:bo + 1]
    head = head[:pm.start()] + re.sub(r"\(\s*mut\s+self", "(self", head[pm.start():], count=1)
    rw.t = head + "\n        let mut self_ = self;" + "".join(out) + t[bc:]
    rw.note("R24", 1)
