"""thorough tier extras (DESIGN 3.6): mutant self-test, solver seeds, replay templates."""


def run(prop, units, scratch, seed, out):
    pass
