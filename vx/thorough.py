"""thorough tier extras (DESIGN 3.6):
 (i)   solver-seed robustness: re-prove the unit under 3 seeds derived from VERIF_SEED with half the rlimit
 (ii)  weak-contract guard: every textual mutant in vx/mutants/<unit>.json (a deliberate property-breaking edit of the
       *extracted* text) must fail one of the obligations it names; a surviving mutant is exit 2 ("contract too weak"),
       never a property violation
 (iii) every replay template of the property's obligations is executed against the real code: it must pass
       (known findings: must fail) - a replay failing on code whose obligations all verify is a concrete violation
"""
import json
import os
import concurrent.futures as cf

import runner
from runner import Undecided

HERE = os.path.dirname(os.path.abspath(__file__))


def load_mutants(unit):
    p = os.path.join(HERE, "mutants", unit + ".json")
    if os.path.exists(p):
        with open(p) as f:
            return json.load(f)
    return []


def make_mutator(m):
    state = {"applied": 0}

    def mutate(fpath, name, text):
        if name != m["fn"] or (m.get("file") and m["file"] != fpath):
            return text
        if text.count(m["find"]) < 1:
            return text  # another fn of the same name (e.g. two `drop`s)
        state["applied"] += 1
        return text.replace(m["find"], m["replace"], 1)
    mutate.state = state
    return mutate


def run(prop, units, scratch, seed, out):
    info = {"seeds": [], "mutants": [], "replays": []}
    # (i) seeds - robustness information only: a proof that needs more than half the resource limit under another
    # solver seed is reported as fragile in the evidence (and on a NOTE line); it is no statement about the code
    os.environ["VERIF_RLIMIT"] = "30"
    try:
        for k in range(3):
            sd = (seed * 7919 + 104729 * (k + 1)) % 100000
            for un in units:
                try:
                    r = runner.verify_unit(un, scratch, reach=False, seed=sd, tag="_s%d" % k, tolerate_rlimit=True)
                except Undecided as e:
                    info["seeds"].append({"unit": un, "seed": sd, "error": str(e)[:300]})
                    out["lines"].append("NOTE: property=%s unit %s not re-proved under solver seed %d at rlimit 30: %s" % (prop, un, sd, str(e)[:160]))
                    continue
                mine = {n for n, o in r["unit"].obligations.items() if prop in o["props"]}
                bad = [n for n in r["failed"] if n in mine and n not in out["known"]]
                info["seeds"].append({"unit": un, "seed": sd, "failed": bad, "rlimit_functions": r.get("rlimit_fns")})
                if bad or r.get("rlimit_fns"):
                    out["lines"].append("NOTE: property=%s proof in unit %s is fragile under solver seed %d at rlimit 30 (failed: %s; resource limit in: %s)" % (prop, un, sd, ", ".join(bad) or "-", ", ".join(r.get("rlimit_fns") or []) or "-"))
    finally:
        os.environ.pop("VERIF_RLIMIT", None)
    # (ii) mutants
    jobs = []
    for un in units:
        for m in load_mutants(un):
            if prop in m.get("props", [prop]):
                jobs.append((un, m))

    def one(job):
        un, m = job
        sub = os.path.join(scratch, "mut_" + m["id"].replace("/", "_"))
        os.makedirs(sub, exist_ok=True)
        mut = make_mutator(m)
        try:
            r = runner.verify_unit(un, sub, reach=False, mutate=mut, tolerate_rlimit=True)
        except Undecided as e:
            return (m, None, str(e))
        if not mut.state["applied"]:
            return (m, None, "pattern not found in any fn named %s (update vx/mutants)" % m["fn"])
        failed = set(r["failed"]) | {"(unattributed in %s)" % u.get("function") for u in r["unattributed"]}
        if not failed and any(k.split("::")[-1] == m["fn"] for k in r.get("stubbed", {})):
            # the mutated text did not pass the front end and the fn was stubbed: nothing was judged
            return (m, None, "the mutated fn %s does not pass the front end (stubbed): rewrite the mutant" % m["fn"])
        return (m, failed, None)

    with cf.ThreadPoolExecutor(max_workers=8) as ex:
        results = list(ex.map(one, jobs))
    survivors = []
    for m, failed, err in results:
        killed = bool(failed) and any(e in failed for e in m["expect"])
        verdict = "killed" if killed else ("inconclusive" if err else "survived")
        info["mutants"].append({"id": m["id"], "expect": m["expect"], "failed": sorted(failed) if failed else None, "killed": killed, "verdict": verdict, "error": err})
        if verdict == "survived":
            survivors.append("%s (expected %s, got %s)" % (m["id"], m["expect"], sorted(failed) if failed else None))
        elif verdict == "inconclusive":
            # the mutated text could not be judged (tool problem, or the pattern no longer occurs in the source): says
            # nothing about the code and nothing about the contract
            out["lines"].append("NOTE: property=%s self-test mutant %s inconclusive: %s" % (prop, m["id"], (err or "")[:160]))
    # (iii) replays on the real code
    import replay
    idx = replay.index()
    tests = []
    expect_fail = set()
    for n in out["obligations"]:
        ent = idx.get(n)
        if not ent:
            continue
        for t in ent.get("tests") or [ent["test"]]:
            if t not in tests:
                tests.append(t)
            if n in out["known"]:
                expect_fail.add(t)
    if tests:
        res = replay.cargo_test(tests, scratch)
        for t in tests:
            ok, log = res[t]
            info["replays"].append({"test": t, "passed": ok, "expected": "fail (known finding)" if t in expect_fail else "pass"})
            if ok is None:
                raise Undecided("replay test %s did not run: %s" % (t, log[-300:]))
            if ok is False and t not in expect_fail:
                # concrete failing run on the real code while every obligation verified
                rp = os.path.join(os.path.dirname(HERE), "replays", "out", "%s.replay.%s.txt" % (prop, t.split("::")[-1]))
                os.makedirs(os.path.dirname(rp), exist_ok=True)
                with open(rp, "w") as f:
                    f.write("property: %s\nreplay test %s fails on the real code although all obligations verify\n\n%s\n" % (prop, t, log))
                out["lines"].append("VIOLATION property=%s replay=%s obligation=replay:%s" % (prop, rp, t.split("::")[-1]))
                out["status"] = 1
    out["extra"]["thorough"] = info
    out["extra"]["mutants_killed"] = sum(1 for m in info["mutants"] if m["killed"])
    out["extra"]["mutants_total"] = len(info["mutants"])
    out["extra"]["replays_run"] = len(info["replays"])
    if survivors and out["status"] == 0:
        raise Undecided("contract too weak: mutant(s) survive: " + "; ".join(survivors[:4]))
