// =============================================================================
// TRUSTED PRELUDE (unit `sni`): tracing::Span stand-in, `str::parse::<Authority>`,
// `str::eq_ignore_ascii_case`, and the reference relation `eq_host`.
// =============================================================================

/// ASCII lower-casing of one character (the reference the property speaks of)
pub open spec fn ascii_lower(c: char) -> char {
    if 'A' <= c && c <= 'Z' { ((c as u8 + 32) as u8) as char } else { c }
}
/// `eq_host(a, b)`: equal as host names, i.e. equal up to ASCII letter case
pub open spec fn eq_host(a: Seq<char>, b: Seq<char>) -> bool {
    a.len() == b.len() && forall|i: int| 0 <= i < a.len() ==> ascii_lower(#[trigger] a[i]) == ascii_lower(b[i])
}
/// std: `str::eq_ignore_ascii_case` is that relation
pub assume_specification [str::eq_ignore_ascii_case] (a: &str, b: &str) -> (r: bool)
    ensures r == eq_host(a@, b@);

/// std: `str::parse::<Authority>()` is `Authority::from_str` (the only `parse` target in this unit)
#[verifier::external_trait_specification]
pub trait ExFromStr: Sized {
    type ExternalTraitSpecificationFor: std::str::FromStr;
    type Err;
}
impl std::str::FromStr for Authority {
    type Err = InvalidUri;
    #[verifier::external_body]
    fn from_str(s: &str) -> (r: Result<Authority, InvalidUri>) { unimplemented!() }
}
pub uninterp spec fn parse_result<F>(s: Seq<char>) -> Option<F>;
pub assume_specification<F: std::str::FromStr> [str::parse::<F>] (s: &str) -> (r: Result<F, <F as std::str::FromStr>::Err>)
    ensures
        r is Ok <==> parse_result::<F>(s@) is Some,
        r is Ok ==> r->Ok_0 == parse_result::<F>(s@)->0;
pub broadcast axiom fn axiom_parse_authority(s: Seq<char>)
    ensures #[trigger] parse_result::<Authority>(s) == parse_authority(s);

pub mod tracing {
    use vstd::prelude::*;
    /// tracing has no effect on program state (assumption T1)
    #[verifier::external_body]
    pub struct Span { _p: () }
    impl Span {
        #[verifier::external_body]
        pub fn current() -> (r: Span) { unimplemented!() }
        #[verifier::external_body]
        pub fn record<V>(&self, field: &str, value: V) { unimplemented!() }
    }
}
