// =============================================================================
// TRUSTED PRELUDE (rewrite rule R28, vx/rewrites_fnptr.py): stand-in for a function pointer `fn() -> T`
// (also behind a `Box`) that is stored in a field and called.  Verus 0.2026.09.13 has no function-pointer
// types.  Hand-written; every `external_body` / `uninterp` item is an assumption listed in evidence.
//
// MODEL: a function pointer is an opaque, total, stateless function.
//   result()   the value the function returns (uninterpreted: nothing is known about it)
//   call0()    calling it returns exactly that value, touches no program state, does not panic or diverge
//   clone()    a copy of the pointer denotes the same function
// ASSUMPTION (about code the crate does not contain): the user-supplied `fn() -> T` is deterministic, total and
// free of side effects.  A plain `fn` item / non-capturing closure cannot capture state (Rust's type system),
// but it may read globals, panic or loop - that it does not is assumed, not proved.
// =============================================================================
#[verifier::external_body]
#[verifier::reject_recursive_types(T)]
pub struct FnPtr0<T> { _p: std::marker::PhantomData<T> }

impl<T> FnPtr0<T> {
    /// the value the function returns
    pub uninterp spec fn result(&self) -> T;

    /// `(f)()`
    #[verifier::external_body]
    pub fn call0(&self) -> (r: T)
        ensures r == self.result()
    { unimplemented!() }
}

impl<T> Clone for FnPtr0<T> {
    /// `Box<fn() -> T>: Clone` / `fn() -> T: Copy`
    #[verifier::external_body]
    fn clone(&self) -> (r: Self)
        ensures r.result() == self.result()
    { unimplemented!() }
}
