// =============================================================================
// TRUSTED PRELUDE (unit `http`): the crate's `client::conn::Connection` trait as a stand-in
// (contract assumed for user implementors, verified for `HttpConnection` below), hyper's
// `SendRequest` handles with ghost transport ids, boxed futures.
// =============================================================================

/// `crate::client::conn::Connection<B>`: only `version()` is read by the request-rewriting layers
pub trait Connection<B> {
    /// ghost: the HTTP version this connection speaks
    spec fn version_s(&self) -> Version;
    fn version(&self) -> (r: Version)
        ensures r == self.version_s();
}

/// `http_body::Body` (bound on the request body type; no method of it is used)
pub trait HttpBody {}

// ---- std::task (as in prelude/std.rs) ----
#[verifier::external_type_specification]
#[verifier::external_body]
pub struct ExContext<'a>(std::task::Context<'a>);
#[verifier::reject_recursive_types(T)]
#[verifier::external_type_specification]
pub struct ExPoll<T>(std::task::Poll<T>);

// ---- error payloads ----
#[verifier::external_body]
pub struct BoxError { _p: () }

// ---- hyper::client::conn::{http1, http2}::SendRequest<B> ----
/// ghost: the request that future `f` will put on the wire (all head fields + body id), and the transport it will use
pub type Sent = (Version, Method, Uri, HeaderMap, Extensions, int);
pub open spec fn fields_of<B>(r: Request<B>) -> Sent {
    (r.version_s(), r.method_s(), r.uri_s(), r.headers_s(), r.ext_s(), r.rest_s())
}
pub uninterp spec fn sent<F>(f: F) -> Sent;
pub uninterp spec fn fut_transport<F>(f: F) -> int;

pub mod hyper {
    use vstd::prelude::*;
    #[verifier::external_body]
    pub struct Error { _p: () }
    pub mod body {
        use vstd::prelude::*;
        #[verifier::external_body]
        pub struct Incoming { _p: () }
    }
    pub mod client { pub mod conn {
        pub mod http1 {
            use vstd::prelude::*;
            use super::super::super::super::*;
            #[verifier::external_body]
            #[verifier::reject_recursive_types(B)]
            pub struct SendRequest<B> { _p: std::marker::PhantomData<B> }
            #[verifier::external_body]
            #[verifier::reject_recursive_types(B)]
            pub struct H1Sending<B> { _p: std::marker::PhantomData<B> }
            impl<B> SendRequest<B> {
                /// ghost identity of the transport stream behind the handle
                pub uninterp spec fn id(&self) -> int;
                /// ghost: the dispatcher is ready for the next request (previous exchange finished, not closed)
                pub uninterp spec fn ready(&self) -> bool;
                #[verifier::external_body]
                pub fn is_ready(&self) -> (r: bool) ensures r == self.ready() { unimplemented!() }
                /// ghost: the last `poll_ready` reported Ready (previous exchange finished)
                pub uninterp spec fn settled(&self) -> bool;
                #[verifier::external_body]
                pub fn poll_ready(&mut self, cx: &mut std::task::Context<'_>) -> (r: std::task::Poll<Result<(), super::super::super::Error>>)
                    ensures final(self).id() == old(self).id(), (r is Ready) == final(self).settled()
                { unimplemented!() }
                #[verifier::external_body]
                pub fn send_request(&mut self, req: Request<B>) -> (f: H1Sending<B>)
                    ensures final(self).id() == old(self).id(), final(self).ready() == old(self).ready(), sent(f) == fields_of(req), fut_transport(f) == old(self).id()
                { unimplemented!() }
            }
        }
        pub mod http2 {
            use vstd::prelude::*;
            use super::super::super::super::*;
            #[verifier::external_body]
            #[verifier::reject_recursive_types(B)]
            pub struct SendRequest<B> { _p: std::marker::PhantomData<B> }
            #[verifier::external_body]
            #[verifier::reject_recursive_types(B)]
            pub struct H2Sending<B> { _p: std::marker::PhantomData<B> }
            impl<B> SendRequest<B> {
                pub uninterp spec fn id(&self) -> int;
                pub uninterp spec fn ready(&self) -> bool;
                #[verifier::external_body]
                pub fn is_ready(&self) -> (r: bool) ensures r == self.ready() { unimplemented!() }
                /// ghost: the last `poll_ready` reported Ready (previous exchange finished)
                pub uninterp spec fn settled(&self) -> bool;
                #[verifier::external_body]
                pub fn poll_ready(&mut self, cx: &mut std::task::Context<'_>) -> (r: std::task::Poll<Result<(), super::super::super::Error>>)
                    ensures final(self).id() == old(self).id(), (r is Ready) == final(self).settled()
                { unimplemented!() }
                #[verifier::external_body]
                pub fn send_request(&mut self, req: Request<B>) -> (f: H2Sending<B>)
                    ensures final(self).id() == old(self).id(), final(self).ready() == old(self).ready(), sent(f) == fields_of(req), fut_transport(f) == old(self).id()
                { unimplemented!() }
            }
            /// an HTTP/2 handle is cloneable: the clone drives the same transport
            impl<B> Clone for SendRequest<B> {
                #[verifier::external_body]
                fn clone(&self) -> (r: Self) ensures r.id() == self.id(), r.ready() == self.ready() { unimplemented!() }
            }
        }
    } }
}
use hyper::body::Incoming;

// ---- BoxFuture / Box::pin: boxing does not change what the future does ----
#[verifier::external_body]
#[verifier::reject_recursive_types(T)]
pub struct BoxFuture<'a, T> { _p: std::marker::PhantomData<&'a T> }
/// shadows `std::boxed::Box` inside this unit: only `Box::pin(future)` occurs in the extracted text
pub struct Box {}
impl Box {
    #[verifier::external_body]
    pub fn pin<'a, F, T>(f: F) -> (r: BoxFuture<'a, T>)
        ensures sent(r) == sent(f), fut_transport(r) == fut_transport(f)
    { unimplemented!() }
}

// ---- tower::Service<R> (only `call` is used by the extracted layers) ----
pub mod tower {
    use vstd::prelude::*;
    pub trait Service<R> {
        type Response;
        type Error;
        type Future;
        /// ghost: calling this service with request `req` produced the future `f` (opaque for a generic inner
        /// service; layers state what they hand to their inner service through it)
        open spec fn passes(&self, req: R, f: Self::Future) -> bool { true }
        fn call(&mut self, req: R) -> (f: Self::Future)
            ensures old(self).passes(req, f);
    }
}

// ---- service/host.rs `set_host_header`: no stand-in here any more - unit `http` IMPORTS the contract that unit `hosthdr` proves
//      on the real body (`//@ import hosthdr :: - :: set_host_header` in units/http.vxu); `host_header_set(pre, post)` is a
//      DEFINITION there (it used to be an uninterpreted relation declared here) ----
