// =============================================================================
// TRUSTED PRELUDE (unit `http`): the crate's `client::conn::Connection` trait as a stand-in
// (contract assumed for user implementors, verified for `HttpConnection` below), hyper's
// `SendRequest` handles with ghost transport ids, boxed futures.
// =============================================================================

/// `crate::client::conn::Connection<B>`: only `version()` is read by the request-rewriting layers
pub trait Connection<B> {
    /// ghost: the HTTP version this connection speaks
    spec fn version_s(&self) -> Version;
    fn version(&self) -> (r: Version)
        ensures r == self.version_s();
}

// ---- error payloads ----
#[verifier::external_body]
pub struct BoxError { _p: () }

// ---- hyper::client::conn::{http1, http2}::SendRequest<B> ----
/// ghost: the request that future `f` will put on the wire, and the transport it will use
pub uninterp spec fn fut_request<F, B>(f: F) -> Request<B>;
pub uninterp spec fn fut_transport<F>(f: F) -> int;

pub mod hyper {
    use vstd::prelude::*;
    #[verifier::external_body]
    pub struct Error { _p: () }
    pub mod body {
        use vstd::prelude::*;
        #[verifier::external_body]
        pub struct Incoming { _p: () }
    }
    pub mod client { pub mod conn {
        pub mod http1 {
            use vstd::prelude::*;
            use super::super::super::super::*;
            #[verifier::external_body]
            #[verifier::reject_recursive_types(B)]
            pub struct SendRequest<B> { _p: std::marker::PhantomData<B> }
            #[verifier::external_body]
            #[verifier::reject_recursive_types(B)]
            pub struct H1Sending<B> { _p: std::marker::PhantomData<B> }
            impl<B> SendRequest<B> {
                /// ghost identity of the transport stream behind the handle
                pub uninterp spec fn id(&self) -> int;
                /// ghost: the dispatcher is ready for the next request (previous exchange finished, not closed)
                pub uninterp spec fn ready(&self) -> bool;
                #[verifier::external_body]
                pub fn is_ready(&self) -> (r: bool) ensures r == self.ready() { unimplemented!() }
                #[verifier::external_body]
                pub fn send_request(&mut self, req: Request<B>) -> (f: H1Sending<B>)
                    ensures final(self).id() == old(self).id(), fut_request::<_, B>(f) == req, fut_transport(f) == old(self).id()
                { unimplemented!() }
            }
        }
        pub mod http2 {
            use vstd::prelude::*;
            use super::super::super::super::*;
            #[verifier::external_body]
            #[verifier::reject_recursive_types(B)]
            pub struct SendRequest<B> { _p: std::marker::PhantomData<B> }
            #[verifier::external_body]
            #[verifier::reject_recursive_types(B)]
            pub struct H2Sending<B> { _p: std::marker::PhantomData<B> }
            impl<B> SendRequest<B> {
                pub uninterp spec fn id(&self) -> int;
                pub uninterp spec fn ready(&self) -> bool;
                #[verifier::external_body]
                pub fn is_ready(&self) -> (r: bool) ensures r == self.ready() { unimplemented!() }
                #[verifier::external_body]
                pub fn send_request(&mut self, req: Request<B>) -> (f: H2Sending<B>)
                    ensures final(self).id() == old(self).id(), fut_request::<_, B>(f) == req, fut_transport(f) == old(self).id()
                { unimplemented!() }
            }
            /// an HTTP/2 handle is cloneable: the clone drives the same transport
            impl<B> Clone for SendRequest<B> {
                #[verifier::external_body]
                fn clone(&self) -> (r: Self) ensures r.id() == self.id(), r.ready() == self.ready() { unimplemented!() }
            }
        }
    } }
}
use hyper::body::Incoming;

// ---- BoxFuture / Box::pin: boxing does not change what the future does ----
#[verifier::external_body]
#[verifier::reject_recursive_types(T)]
pub struct BoxFuture<'a, T> { _p: std::marker::PhantomData<&'a T> }
#[verifier::external_body]
#[verifier::reject_recursive_types(B)]
pub struct Response<B> { _p: std::marker::PhantomData<B> }
/// shadows `std::boxed::Box` inside this unit: only `Box::pin(future)` occurs in the extracted text
pub struct Box {}
impl Box {
    #[verifier::external_body]
    pub fn pin<'a, F, T, B>(f: F) -> (r: BoxFuture<'a, T>)
        ensures fut_request::<_, B>(r) == fut_request::<_, B>(f), fut_transport(r) == fut_transport(f)
    { unimplemented!() }
}
