// =============================================================================
// TRUSTED PRELUDE (unit `sniff`): `bytes::Bytes` as an immutable byte string
// with a cursor (`Buf::advance` drops bytes from the front).  Hand-written;
// every item is an assumption listed in the evidence file.
// =============================================================================
pub mod bytes {
    use vstd::prelude::*;

    #[verifier::external_body]
    pub struct Bytes { p: std::marker::PhantomData<u8> }

    impl View for Bytes {
        type V = Seq<u8>;
        uninterp spec fn view(&self) -> Seq<u8>;
    }

    impl Bytes {
        #[verifier::external_body]
        pub fn is_empty(&self) -> (r: bool)
            ensures r == (self@.len() == 0)
        { unimplemented!() }

        #[verifier::external_body]
        pub fn len(&self) -> (r: usize)
            ensures r == self@.len()
        { unimplemented!() }

        /// `<Bytes as Buf>::advance` (panics when `cnt > len`: the precondition is a proof obligation)
        #[verifier::external_body]
        pub fn advance(&mut self, cnt: usize)
            requires cnt <= old(self)@.len(),
            ensures final(self)@ == old(self)@.skip(cnt as int),
        { unimplemented!() }
    }

    /// `Bytes: Deref<Target = [u8]>`
    impl std::ops::Deref for Bytes {
        type Target = [u8];
        #[verifier::external_body]
        fn deref(&self) -> (r: &[u8])
            ensures r@ == self@
        { unimplemented!() }
    }

    /// `impl From<Vec<u8>> for Bytes` keeps the bytes
    impl From<Vec<u8>> for Bytes {
        #[verifier::external_body]
        fn from(v: Vec<u8>) -> (r: Bytes)
            ensures r@ == v@
        { unimplemented!() }
    }
}
