// =============================================================================
// TRUSTED PRELUDE (eyeballs unit, part 1): stand-ins for std::time, tokio::time and
// futures_util::stream::FuturesUnordered.  Hand-written, never generated from /repo.
// Every `external_body`, `assume_specification`, `uninterp` item is an assumption
// listed in the evidence file (trusted_base).
// =============================================================================

// ---- std::time (no arithmetic is decided in this unit: time is outside the contracts) ----
#[verifier::external_type_specification]
#[verifier::external_body]
pub struct ExInstant(Instant);

pub assume_specification [Instant::now] () -> (r: Instant);
pub assume_specification [Instant::elapsed] (i: &Instant) -> (r: Duration);

// ---- std::net ----
#[verifier::external_type_specification]
#[verifier::external_body]
pub struct ExSocketAddr(SocketAddr);

/// `Option::get_or_insert_with` (prophecy form for the returned `&mut`): the option is `Some` afterwards,
/// an existing value is kept, the closure is only called when the option was `None`.
pub assume_specification<'a, T, G: FnOnce() -> T> [Option::<T>::get_or_insert_with] (o: &'a mut Option<T>, f: G) -> (r: &'a mut T)
    requires
        *old(o) is None ==> f.requires(()),
    ensures
        *old(o) is Some ==> *r == (*old(o))->0,
        *old(o) is None ==> f.ensures((), *r),
        *final(o) == Some(*final(r));

pub assume_specification<T, A: std::alloc::Allocator> [VecDeque::<T, A>::is_empty] (v: &VecDeque<T, A>) -> (r: bool)
    ensures r == (v@.len() == 0);

// ---- tokio::time ----
pub mod tokio {
    pub mod time {
        use vstd::prelude::*;
        use vstd::future::*;
        use std::future::Future;
        use std::time::Duration;
        pub mod error {
            use vstd::prelude::*;
            /// `tokio::time::error::Elapsed` (opaque)
            #[verifier::external_body]
            pub struct Elapsed { _p: () }
        }
        /// `tokio::time::timeout(d, f)`: polls `f` first; EITHER `f` completed and its output is handed on
        /// (`Ok(f@)`, and only then may `f`'s postcondition be used: `f.awaited()`), OR the deadline passed and
        /// `f` was dropped at one of its await points without completing (`!f.awaited()`: nothing that `f`
        /// ensures on completion is known).
        #[verifier::external_body]
        pub async fn timeout<Fu: Future>(d: Duration, f: Fu) -> (r: Result<Fu::Output, error::Elapsed>)
            ensures
                r is Ok ==> f.awaited() && r->Ok_0 == f@,
                r is Err ==> !f.awaited(),
        { unimplemented!() }
    }
}

// ---- candidate attempts ----
/// prophecy: the value a candidate future yields IF it is polled to completion
pub uninterp spec fn outcome<F: Future>(f: F) -> F::Output;

// ---- futures_util::stream::FuturesUnordered (+ StreamExt::next) ----
/// Ghost history of the running set:
///   `pushed()`   every future ever pushed, in push order          (= the attempts STARTED, in start order)
///   `finished()` the futures whose output `next()` has handed out, in completion order
///   `waits()`    how many times somebody began to wait on the set (`next()` futures created)
/// Every completion retires exactly one running future, so `pushed().len() - finished().len()` futures are RUNNING.
#[verifier::external_body]
#[verifier::reject_recursive_types(F)]
pub struct FuturesUnordered<F> { _p: PhantomData<F> }

impl<F> FuturesUnordered<F> {
    pub uninterp spec fn pushed(&self) -> Seq<F>;
    pub uninterp spec fn finished(&self) -> Seq<F>;
    pub uninterp spec fn waits(&self) -> nat;

    /// number of futures still running
    pub open spec fn running(&self) -> int { self.pushed().len() - self.finished().len() }
    /// nothing is running
    pub open spec fn idle(&self) -> bool { self.running() == 0 }

    #[verifier::external_body]
    pub fn new() -> (r: Self)
        ensures r.pushed().len() == 0, r.finished().len() == 0, r.waits() == 0,
    { unimplemented!() }

    /// real signature: `push(&self, f)` (interior mutability); declared `&mut self` here so that the effect on the
    /// ghost history can be stated - every call site in the unit holds `&mut` access.
    #[verifier::external_body]
    pub fn push(&mut self, f: F)
        ensures
            final(self).pushed() == old(self).pushed().push(f),
            final(self).finished() == old(self).finished(),
            final(self).waits() == old(self).waits(),
    { unimplemented!() }

    #[verifier::external_body]
    pub fn len(&self) -> (r: usize)
        ensures r == self.running(),
    { unimplemented!() }

    #[verifier::external_body]
    pub fn is_empty(&self) -> (r: bool)
        ensures r == self.idle(),
    { unimplemented!() }
}

impl<F: Future> FuturesUnordered<F> {
    /// the outputs handed out so far, in completion order
    pub open spec fn outputs(&self) -> Seq<F::Output> {
        self.finished().map_values(|f: F| outcome(f))
    }

    /// `StreamExt::next`: the returned future, when it COMPLETES, yields the output of one running future and
    /// retires it, or `None` iff nothing is running.  Dropped before completion it has retired nothing
    /// (cancel-safe).  It never adds futures.
    #[verifier::external_body]
    pub fn next<'a>(&'a mut self) -> (fut: impl Future<Output = Option<F::Output>> + 'a)
        ensures
            final(self).pushed() == old(self).pushed(),
            final(self).waits() == old(self).waits() + 1,
            !fut.awaited() ==> final(self).finished() == old(self).finished(),
            fut.awaited() ==> match fut@ {
                Some(o) => old(self).running() > 0 && exists|i: int| 0 <= i < old(self).pushed().len()
                    && o == outcome(#[trigger] old(self).pushed()[i])
                    && final(self).finished() == old(self).finished().push(old(self).pushed()[i]),
                None => old(self).idle() && final(self).finished() == old(self).finished(),
            },
    { std::future::pending() }
}
