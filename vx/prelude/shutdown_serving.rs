// =============================================================================
// TRUSTED PRELUDE (shutdown unit, part 4 - after the extracted `Serving`): A-class `Serving::poll_once`.
// =============================================================================
impl<A, P, S, B, E> Serving<A, P, S, B, E>
where
    S: MakeServiceRef<A::Conn, B>,
    P: Protocol<S::Service, A::Conn, B>,
    A: Accept,
{
    /// ghost: number of `poll_once` calls so far (each one may poll the acceptor / the make-service)
    pub uninterp spec fn accept_polls(&self) -> nat;

    /// A: `Serving::poll_once` (enum pin-projection `StateProj`, `project_replace`: outside R6).
    /// Assumed: it is the only thing that advances accepting; it does not touch the executor; a connection it
    /// returns is fresh (has never been told to shut down).
    #[verifier::external_body]
    pub fn poll_once(&mut self, cx: &mut Context<'_>) -> (r: Poll<Result<Option<Instrumented<P::Connection>>, ServerError>>)
        ensures
            final(self).accept_polls() == old(self).accept_polls() + 1,
            r matches Poll::Ready(Ok(Some(c))) ==> count_told(c.log()) == 0,
    { unimplemented!() }
}
