// =============================================================================
// TRUSTED PRELUDE (unit tlsscheme): the inner transport, the TLS wrapper (verified in unit `tls`) and the two
// connect futures are opaque; each future remembers which request it was created for (ghost).
// =============================================================================
pub mod http { pub mod request {
    pub struct Parts { pub uri: super::super::Uri }
} }

pub trait Transport {
    type IO;
    type Error;
    type Future;
    /// ghost: the request a plain connect future was created for
    spec fn plain_for(f: Self::Future) -> http::request::Parts;
    fn connect(&mut self, parts: http::request::Parts) -> (f: Self::Future)
        ensures Self::plain_for(f) == parts;
}
pub trait HasConnectionInfo { type Addr; }
pub trait AsyncRead {}
pub trait AsyncWrite {}

pub mod tls { pub mod future {
    use super::super::*;
    #[verifier::external_body]
    #[verifier::reject_recursive_types(T)]
    pub struct TlsConnectionFuture<T: Transport> { _p: std::marker::PhantomData<T> }
    impl<T: Transport> TlsConnectionFuture<T> {
        /// ghost: the request the TLS connect future was created for
        pub uninterp spec fn tls_for(&self) -> http::request::Parts;
    }
} }

#[verifier::external_body]
#[verifier::reject_recursive_types(T)]
pub struct TlsTransportWrapper<T> { _p: std::marker::PhantomData<T> }
impl<T: Transport> TlsTransportWrapper<T> {
    /// `TlsTransportWrapper::call` (contract proved in unit `tls`: tls.never_plain, tls.sni_is_host, ...)
    #[verifier::external_body]
    pub fn call(&mut self, parts: http::request::Parts) -> (f: tls::future::TlsConnectionFuture<T>)
        ensures f.tls_for() == parts
    { unimplemented!() }
    #[verifier::external_body]
    pub fn transport_mut(&mut self) -> (r: &mut T) { unimplemented!() }
}
