// =============================================================================
// TRUSTED PRELUDE (unit tlsscheme): the inner transport, the TLS wrapper (verified in unit `tls`) and the two
// connect futures are opaque; each future remembers which request it was created for (ghost).
// =============================================================================
pub mod http { pub mod request {
    pub struct Parts { pub uri: super::super::Uri }
} }

pub trait Transport {
    type IO;
    type Error;
    type Future;
    /// ghost: the request a plain connect future was created for
    spec fn plain_for(f: Self::Future) -> http::request::Parts;
    fn connect(&mut self, parts: http::request::Parts) -> (f: Self::Future)
        ensures Self::plain_for(f) == parts;
}
pub trait HasConnectionInfo { type Addr; }
pub trait AsyncRead {}
pub trait AsyncWrite {}

pub mod tls { pub mod future {
    use super::super::*;
    #[verifier::external_body]
    #[verifier::reject_recursive_types(T)]
    pub struct TlsConnectionFuture<T: Transport> { _p: std::marker::PhantomData<T> }
    impl<T: Transport> TlsConnectionFuture<T> {
        /// ghost: the future is going to dial (unit `tls`: its state is `Connecting`; otherwise it only reports an error)
        pub uninterp spec fn dials(&self) -> bool;
        /// ghost: the request the inner transport is asked to connect for (unit `tls`: `T::dialed(&state.future)`; meaningful
        /// while `dials()`)
        pub uninterp spec fn tls_for(&self) -> http::request::Parts;
    }
} }

#[verifier::external_body]
#[verifier::reject_recursive_types(T)]
pub struct TlsTransportWrapper<T> { _p: std::marker::PhantomData<T> }
impl<T: Transport> TlsTransportWrapper<T> {
    /// `TlsTransportWrapper::call` (contract proved in unit `tls`: tls.never_plain, tls.sni_is_host, tls.same_request, ...).
    /// Parameter and result are named as in the real fn: the contract text below is checked against the proved contract by the
    /// refinement wrapper `//@ refine link.tlsscheme.wrapper_call` in units/tls.vxu, where `dials()` / `tls_for()` are DEFINED
    /// over the real `TlsConnectionFuture`.  (It used to say `f.tls_for() == parts` unconditionally - a ghost record of the
    /// argument that no unit proves, and that cannot be defined for a future in state `Error`, which keeps nothing of the request.)
    #[verifier::external_body]
    pub fn call(&mut self, req: http::request::Parts) -> (r: tls::future::TlsConnectionFuture<T>)
        ensures r.dials() ==> r.tls_for() == req
    { unimplemented!() }
    #[verifier::external_body]
    pub fn transport_mut(&mut self) -> (r: &mut T) { unimplemented!() }
}
