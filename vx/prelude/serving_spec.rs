// =============================================================================
// SHARED SPECIFICATION TEXT (no assumption: `open spec fn` definitions only) - the vocabulary in which the contract of
// `Serving::poll_once` (src/server/mod.rs) is written.  Included by unit `serving`, which PROVES that contract (so.*), and
// by unit `shutdown`, which IMPORTS it (`//@ import serving :: .. :: poll_once`): both read the contract text against
// these definitions.  Needs in scope: prelude/accept_task.rs, prelude/shutdown.rs, prelude/serving.rs and the extracted
// `ServerError`, `State`, `Serving`.  Moved verbatim out of vx/units/serving.vxu (notes/imports.md).
// =============================================================================
/// the connection the state machine currently holds (accepted, its service still being made)
pub open spec fn in_flight<S, F>(st: State<S, F>) -> Seq<S> {
    match st { State::Making { future, stream } => seq![stream], _ => Seq::empty() }
}
/// what was appended to a ghost history between two states
pub open spec fn added<T>(pre: Seq<T>, post: Seq<T>) -> Seq<T> {
    post.subrange(pre.len() as int, post.len() as int)
}
pub open spec fn grows<T>(pre: Seq<T>, post: Seq<T>) -> bool {
    pre.len() <= post.len() && post.subrange(0, pre.len() as int) =~= pre
}
/// the stream served by the connection `poll_once` returned, if it returned one
pub open spec fn returned<IO, Sv, B, P: Protocol<Sv, IO, B>>(r: Poll<Result<Option<Instrumented<P::Connection>>, ServerError>>) -> Seq<IO> {
    match r { Poll::Ready(Ok(Some(c))) => seq![P::stream_of(c.inner)], _ => Seq::empty() }
}
/// the make-service future held in state `Making` has completed (its most recent poll returned `Ready`)
pub open spec fn make_completed<S, F: Future>(st: State<S, F>) -> bool {
    st is Making && st->future.log().len() > 0 && st->future.log().last() == Ev::Polled(true)
}
/// `e` may end the serving future: the listener reported its own loss, or the make-service failed
/// (its readiness check, or the future making the service for the connection in flight)
pub open spec fn legit_end<A: Accept, P, S: MakeServiceRef<A::Conn, B>, B, E>(sv: Serving<A, P, S, B, E>, e: ServerError) -> bool {
    (e is Accept && sv.server.acceptor.failed())
    || (e is MakeService && (sv.server.make_service.ready_failed() || make_completed(sv.state)))
}
