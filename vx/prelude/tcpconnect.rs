// =============================================================================
// TRUSTED PRELUDE (unit `tcpconnect`, part 1): stand-ins for what `TcpConnecting::connect`,
// `TcpConnectionAttempt::connect` and `TcpConnectionError::new` (src/client/conn/transport/tcp.rs) use from std,
// tracing and the rest of the crate.  Hand-written, never generated from /repo.  Every `external_body`,
// `assume_specification`, `axiom`, `uninterp` item is an assumption listed in the evidence file (trusted_base).
// (std::time / tokio::time / FuturesUnordered / `outcome` / SocketAddr come from prelude/eyeballs.rs.)
// =============================================================================

// ---- std::net (fields of TcpTransportConfig) ----
#[verifier::external_type_specification]
#[verifier::external_body]
pub struct ExIpv4Addr(Ipv4Addr);
#[verifier::external_type_specification]
#[verifier::external_body]
pub struct ExIpv6Addr(Ipv6Addr);

// ---- std::pin / std::task: only named in the signature of the opaque futures' `poll` below ----
#[verifier::reject_recursive_types(Ptr)]
#[verifier::external_type_specification]
#[verifier::external_body]
pub struct ExPin<Ptr>(Pin<Ptr>);
#[verifier::external_type_specification]
#[verifier::external_body]
pub struct ExContext<'a>(Context<'a>);
#[verifier::reject_recursive_types(T)]
#[verifier::external_type_specification]
pub struct ExPoll<T>(Poll<T>);

// ---- std::time::Duration: `d / n` (impl Div<u32> for Duration) and `as_millis` ----
/// the duration `d / n` (n != 0): vstd's (uninterpreted) specification value of `<Duration as Div<u32>>::div`.  No
/// arithmetic on durations is decided in this unit, only WHICH duration is divided by WHICH number.
pub open spec fn dur_div(d: Duration, n: u32) -> Duration { DivSpec::<u32>::div_spec(d, n) }
/// `Duration / u32` panics ("divide by zero error when dividing duration by scalar") iff the divisor is 0
pub broadcast axiom fn axiom_duration_div_req(d: Duration, n: u32)
    ensures #[trigger] DivSpec::<u32>::div_req(d, n) == (n != 0);
/// ... and is a function of its operands (the result of `d / n` IS `div_spec(d, n)`)
pub broadcast axiom fn axiom_duration_div_spec(d: Duration, n: u32)
    ensures #![trigger DivSpec::<u32>::div_spec(d, n)] <Duration as DivSpec<u32>>::obeys_div_spec();

pub uninterp spec fn dur_millis(d: Duration) -> u128;
pub assume_specification [Duration::as_millis] (d: &Duration) -> (r: u128)
    ensures r == dur_millis(*d);

// ---- alloc: `format!` and `Into<String>` ----
/// the text `format!(template, args..)` produces: a function of the template and the argument values
pub uninterp spec fn fmt_text<A>(template: Seq<char>, args: A) -> Seq<char>;
/// what the unit-level `macro_rules! format` (declared in the unit file, before `verus!`) expands to: the call
/// `format!(T, a, b)` becomes `fmt_standin(T, (a, b,))` - template and arguments are kept, formatting is opaque
#[verifier::external_body]
pub fn fmt_standin<A>(template: &'static str, args: A) -> (r: String)
    ensures r@ == fmt_text(template@, args),
{ unimplemented!() }

/// the text `s.into()` yields for `S: Into<String>`
pub uninterp spec fn text_of<S>(s: S) -> Seq<char>;
/// `<&str as Into<String>>::into` / `<String as Into<String>>::into` keep the characters
pub broadcast axiom fn axiom_text_of_str(s: &'static str)
    ensures #[trigger] text_of::<&'static str>(s) == s@;
pub broadcast axiom fn axiom_text_of_string(s: String)
    ensures #[trigger] text_of::<String>(s) == s@;
/// `Into::<String>::into` is `text_of` (vstd gives `into` the uninterpreted `call_ensures` of the impl)
pub broadcast axiom fn axiom_into_string<S: Into<String>>(s: S, r: String)
    ensures #[trigger] call_ensures(<S as Into<String>>::into, (s,), r) ==> r@ == text_of(s);

// ---- crate::BoxError = Box<dyn std::error::Error + Send + Sync>; crate::stream::tcp::TcpStream (opaque) ----
#[verifier::external_body]
pub struct BoxError { _p: () }
#[verifier::external_body]
pub struct TcpStream { _p: () }

// ---- tracing ----
pub mod tracing {
    use vstd::prelude::*;
    /// `tracing::Span` (opaque; a span carries no program state)
    #[verifier::external_body]
    pub struct Span { _p: () }
    impl Span {
        /// what R1s puts in place of `trace_span!(..)`
        #[verifier::external_body]
        pub fn none() -> (r: Span) { unimplemented!() }
    }
}
