// =============================================================================
// TRUSTED PRELUDE (unit `connector`, module `svc`): stand-ins for what client/pool/service.rs uses from
// client::pool.  `Pool::checkout` (contract proved in unit `pool`), `Checkout::{new, detached, poll}` (proved in
// unit `checkout`) are opaque here: a checkout only *records* what it was created from (ghost).
// =============================================================================
/// `pool::key::UriError`
#[verifier::external_body]
pub struct UriError { _p: PhantomData<()> }
pub uninterp spec fn connection_error_of_uri(e: UriError) -> ConnectionError;
/// thiserror's `#[from]` on `ConnectionError::InvalidUri`
impl vstd::std_specs::convert::FromSpecImpl<UriError> for ConnectionError {
    open spec fn obeys_from_spec() -> bool { true }
    open spec fn from_spec(e: UriError) -> ConnectionError { connection_error_of_uri(e) }
}
impl From<UriError> for ConnectionError {
    #[verifier::external_body]
    fn from(e: UriError) -> (r: ConnectionError)
        ensures r == connection_error_of_uri(e)
    { unimplemented!() }
}

/// `?` on a `Result<_, UriError>` in a fn returning `Result<_, ConnectionError>` converts with the `From` impl above
/// (vstd leaves the conversion of `?` uninterpreted: `spec_from`)
pub broadcast axiom fn axiom_question_mark_uri_error(e: UriError, c: ConnectionError)
    ensures #[trigger] vstd::std_specs::control_flow::spec_from::<ConnectionError, UriError>(e, c) ==> c == connection_error_of_uri(e);

/// `pool::Key` (Eq + Hash + Debug + for<'a> TryFrom<&'a Parts, Error = UriError>): the key of a request is a function of
/// its head (for `UriKey`: scheme + authority of the URI - unit `http`, key.eq / key.parts)
pub trait Key: Sized {
    spec fn key_of(parts: http::request::Parts) -> Result<Self, UriError>;
    fn try_from(parts: &http::request::Parts) -> (r: Result<Self, UriError>)
        ensures r == Self::key_of(*parts);
}
/// `pool::UriKey` / `pool::Config`: only named
#[verifier::external_body]
pub struct UriKey { _p: PhantomData<()> }
#[verifier::external_body]
pub struct Config { _p: PhantomData<()> }

pub trait PoolableConnection<B>: Connection<B> + Unpin + Send + Sized + 'static {}
pub trait PoolableStream {}

/// `pool::Pooled<C, B>`: a checked-out connection
#[verifier::external_body]
#[verifier::reject_recursive_types(C)]
#[verifier::reject_recursive_types(B)]
pub struct Pooled<C, B> { _p: PhantomData<(C, B)> }
impl<C: Connection<B>, B> Connection<B> for Pooled<C, B> { type ResBody = C::ResBody; }

/// `pool::Checkout<T, P, B>`: ghost record of how it was created
#[verifier::external_body]
#[verifier::reject_recursive_types(T)]
#[verifier::reject_recursive_types(P)]
#[verifier::reject_recursive_types(B)]
pub struct Checkout<T, P, B> where T: Transport, P: Protocol<T::IO, B> { _p: PhantomData<(T, P, B)> }
impl<T, P, B> Checkout<T, P, B> where T: Transport, P: Protocol<T::IO, B> {
    /// created by `Pool::checkout` (false: `Checkout::detached`, no pool involved)
    pub uninterp spec fn via_pool(&self) -> bool;
    /// the key it was checked out under
    pub uninterp spec fn key<K>(&self) -> K;
    /// the multiplex flag given to `Pool::checkout`
    pub uninterp spec fn multiplex(&self) -> bool;
    /// the connector it dials with when no pooled connection is available
    pub uninterp spec fn connector(&self) -> Connector<T, P, B>;

    /// `Checkout::detached` (unit `checkout`: ck.detached.*)
    #[verifier::external_body]
    pub fn detached(connector: Connector<T, P, B>) -> (r: Self)
        requires connector.wf(),
        ensures !r.via_pool(), r.connector() == connector, r.polls() == 0 && r.last() is None,
    { unimplemented!() }
}
/// `impl Future for Checkout` (unit `checkout`: ck.poll.*), as a `Future` of the model in prelude/connector.rs
impl<T, P, B> Future for Checkout<T, P, B> where T: Transport, P: Protocol<T::IO, B> {
    type Output = Result<Pooled<P::Connection, B>, ConnectorError<T, P, B>>;
    uninterp spec fn fid(&self) -> int;
    uninterp spec fn polls(&self) -> nat;
    uninterp spec fn last(&self) -> Option<Poll<Self::Output>>;
    uninterp spec fn next(&self) -> Poll<Self::Output>;
    #[verifier::external_body]
    fn poll(&mut self, cx: &mut Context<'_>) -> (r: Poll<Self::Output>) { unimplemented!() }
}

/// `pool::Pool<C, B, K>`
#[verifier::external_body]
#[verifier::reject_recursive_types(C)]
#[verifier::reject_recursive_types(B)]
#[verifier::reject_recursive_types(K)]
pub struct Pool<C, B, K> { _p: PhantomData<(C, B, K)> }
impl<C, B, K> Pool<C, B, K> {
    /// `Pool::checkout` (unit `pool`: checkout.*): the connector must be fresh / live
    #[verifier::external_body]
    pub fn checkout<T, P>(&self, key: K, multiplex: bool, connector: Connector<T, P, B>) -> (r: Checkout<T, P, B>)
        where T: Transport, P: Protocol<T::IO, B, Connection = C>
        requires connector.wf(),
        ensures r.via_pool(), r.key::<K>() == key, r.multiplex() == multiplex, r.connector() == connector,
            r.polls() == 0 && r.last() is None,
    { unimplemented!() }
}
impl<C, B, K> Clone for Pool<C, B, K> {
    #[verifier::external_body]
    fn clone(&self) -> (r: Self) { unimplemented!() }
}
pub mod pool {
    pub use super::{Pool, Key, UriKey, Config};
}
