// =============================================================================
// TRUSTED PRELUDE (unit `connector`, module `svc`): stand-ins for what client/pool/service.rs uses from
// client::pool.  `Pool::checkout` (contract proved in unit `pool`), `Checkout::{new, detached, poll}` (proved in
// unit `checkout`) are opaque here.  Their contracts are HAND COPIES in this unit's vocabulary; each is tied to the proved
// contract mechanically: `//@ refine` wrappers in units/pool.vxu / units/checkout.vxu (Verus checks the stand-in text against
// the proved contract), `//@ samecontract` for `Checkout::poll` (notes/imports.md).
// =============================================================================
/// `pool::key::UriError`
#[verifier::external_body]
pub struct UriError { _p: PhantomData<()> }
pub uninterp spec fn connection_error_of_uri(e: UriError) -> ConnectionError;
/// thiserror's `#[from]` on `ConnectionError::InvalidUri`
impl vstd::std_specs::convert::FromSpecImpl<UriError> for ConnectionError {
    open spec fn obeys_from_spec() -> bool { true }
    open spec fn from_spec(e: UriError) -> ConnectionError { connection_error_of_uri(e) }
}
impl From<UriError> for ConnectionError {
    #[verifier::external_body]
    fn from(e: UriError) -> (r: ConnectionError)
        ensures r == connection_error_of_uri(e)
    { unimplemented!() }
}

/// `?` on a `Result<_, UriError>` in a fn returning `Result<_, ConnectionError>` converts with the `From` impl above
/// (vstd leaves the conversion of `?` uninterpreted: `spec_from`)
pub broadcast axiom fn axiom_question_mark_uri_error(e: UriError, c: ConnectionError)
    ensures #[trigger] vstd::std_specs::control_flow::spec_from::<ConnectionError, UriError>(e, c) ==> c == connection_error_of_uri(e);

/// `pool::Key` (Eq + Hash + Debug + for<'a> TryFrom<&'a Parts, Error = UriError>): the key of a request is a function of
/// its head (for `UriKey`: scheme + authority of the URI - unit `http`, key.eq / key.parts)
pub trait Key: Sized {
    spec fn key_of(parts: http::request::Parts) -> Result<Self, UriError>;
    fn try_from(parts: &http::request::Parts) -> (r: Result<Self, UriError>)
        ensures r == Self::key_of(*parts);
}
/// `pool::UriKey` / `pool::Config`: only named
#[verifier::external_body]
pub struct UriKey { _p: PhantomData<()> }
#[verifier::external_body]
pub struct Config { _p: PhantomData<()> }

pub trait PoolableConnection<B>: Connection<B> + Unpin + Send + Sized + 'static {}
pub trait PoolableStream {}

/// `pool::Pooled<C, B>`: a checked-out connection
#[verifier::external_body]
#[verifier::reject_recursive_types(C)]
#[verifier::reject_recursive_types(B)]
pub struct Pooled<C, B> { _p: PhantomData<(C, B)> }
impl<C: Connection<B>, B> Connection<B> for Pooled<C, B> { type ResBody = C::ResBody; }

/// `pool::key::Token` (the pool files everything under the token of the key): opaque here
#[verifier::external_body]
pub struct Token { _p: PhantomData<()> }
/// the token of a key (unit `pool`: `token_of`; unit `tokenmap` proves the map behind it)
pub uninterp spec fn token_of<K>(k: K) -> Token;

/// `pool::Checkout<T, P, B>`: opaque here, with ghost attributes named after the spec functions units `pool` / `checkout`
/// define on the REAL struct (prelude/checkout_spec.rs, prelude/checkout_link.rs)
#[verifier::external_body]
#[verifier::reject_recursive_types(T)]
#[verifier::reject_recursive_types(P)]
#[verifier::reject_recursive_types(B)]
pub struct Checkout<T, P, B> where T: Transport, P: Protocol<T::IO, B> { _p: PhantomData<(T, P, B)> }
impl<T, P, B> Checkout<T, P, B> where T: Transport, P: Protocol<T::IO, B> {
    /// belongs to a pool (false: `Checkout::detached`)
    pub uninterp spec fn via_pool(&self) -> bool;
    /// the token it was checked out under
    pub uninterp spec fn token(&self) -> Token;
    /// it owns a connection attempt (nothing usable was idle and no attempt was in flight; always for a detached one)
    pub uninterp spec fn will_dial(&self) -> bool;
    /// the connector of that attempt (meaningful while `will_dial()`)
    pub uninterp spec fn dial(&self) -> Connector<T, P, B>;
    /// GHOST ARGUMENT RECORD, proved nowhere: the multiplex flag `Pool::checkout` was called with.  The real `Checkout` does
    /// not keep the flag (it only decides whether the pool sets its in-flight marker: unit pool, checkout.dial_marks /
    /// checkout.h1_no_marker).  Definable as a history variable because every `Pool::checkout` returns a checkout with a fresh
    /// channel; listed as an assumption.
    pub uninterp spec fn multiplex(&self) -> bool;

    /// `Checkout::detached` (unit `checkout`: ck.detached.state / ck.detached.live).  The clauses above the cut are checked
    /// against that contract by `//@ refine link.connector.checkout_detached` in units/checkout.vxu.
    #[verifier::external_body]
    pub fn detached(connector: Connector<T, P, B>) -> (r: Self)
        requires connector.wf(),
        ensures
            !r.via_pool(),
            r.will_dial() && r.dial() == connector,
            // ---- NOT REFINED (no unit proves it): convention of the `Future` model of prelude/connector.rs - a future that has
            // just been created has no poll history.  (Unit checkout proves `r.wf()`: it may be polled.)
            r.polls() == 0 && r.last() is None,
    { unimplemented!() }
}
/// `impl Future for Checkout` (unit `checkout`: ck.poll.*), as a `Future` of the model in prelude/connector.rs
impl<T, P, B> Future for Checkout<T, P, B> where T: Transport, P: Protocol<T::IO, B> {
    type Output = Result<Pooled<P::Connection, B>, ConnectorError<T, P, B>>;
    uninterp spec fn fid(&self) -> int;
    uninterp spec fn polls(&self) -> nat;
    uninterp spec fn last(&self) -> Option<Poll<Self::Output>>;
    uninterp spec fn next(&self) -> Poll<Self::Output>;
    #[verifier::external_body]
    fn poll(&mut self, cx: &mut Context<'_>) -> (r: Poll<Self::Output>) { unimplemented!() }
}

/// `pool::Pool<C, B, K>`
#[verifier::external_body]
#[verifier::reject_recursive_types(C)]
#[verifier::reject_recursive_types(B)]
#[verifier::reject_recursive_types(K)]
pub struct Pool<C, B, K> { _p: PhantomData<(C, B, K)> }
impl<C, B, K> Pool<C, B, K> {
    /// `Pool::checkout` (unit `pool`: checkout.tok, checkout.via_pool, checkout.dials_with).  The clauses above the cut are checked
    /// against that contract by `//@ refine link.connector.pool_checkout` in units/pool.vxu (parameter names as in the real fn).
    /// It used to promise `r.key() == key`, `r.connector() == connector` (unconditionally - but on reuse / wait the connector
    /// is DROPPED) and `r.multiplex() == multiplex`: ghost records of the arguments that no unit proved.
    #[verifier::external_body]
    pub fn checkout<T, P>(&self, key: K, multiplex: bool, connector: Connector<T, P, B>) -> (r: Checkout<T, P, B>)
        where T: Transport, P: Protocol<T::IO, B, Connection = C>
        requires connector.wf(),
        ensures
            r.via_pool(),
            r.token() == token_of(key),
            r.will_dial() ==> r.dial() == connector,
            // ---- NOT REFINED (no unit proves them): the ghost ARGUMENT RECORD `multiplex()` (see its declaration), and the
            // convention of the `Future` model that a new future has no poll history (unit pool proves `r.wf()`: may be polled)
            r.multiplex() == multiplex,
            r.polls() == 0 && r.last() is None,
    { unimplemented!() }
}
impl<C, B, K> Clone for Pool<C, B, K> {
    #[verifier::external_body]
    fn clone(&self) -> (r: Self) { unimplemented!() }
}
pub mod pool {
    pub use super::{Pool, Key, UriKey, Config};
}
