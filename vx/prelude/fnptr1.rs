// =============================================================================
// TRUSTED PRELUDE (rewrite rule R28p, `fnptr=types`, vx/rewrites_fnptr.py): stand-in for a function-pointer TYPE with
// one parameter, `fn(A) -> B`, that the extracted text only NAMES (inside an associated type, a return type) and never
// calls.  Verus 0.2026.09.13 has no function-pointer types.  Hand-written; every `external_body` / `uninterp` item is
// an assumption listed in evidence.
//
// MODEL: a function pointer is an opaque function value.
//   maps(a, b)   "applied to `a` the function may return `b`" (uninterpreted; recorded by whoever makes the pointer
//                from a fn item / closure, out of that callable's own contract)
// There is deliberately NO exec method: extracted code cannot call, copy or compare the pointer through this stand-in;
// a value is only made by a prelude constructor that takes the callable itself (where rustc coerces the fn item to the
// pointer in the real code), so nothing is assumed about functions the crate does not contain.
// =============================================================================
#[verifier::external_body]
#[verifier::reject_recursive_types(A)]
#[verifier::reject_recursive_types(B)]
pub struct FnPtr1<A, B> { _p: std::marker::PhantomData<(A, B)> }

impl<A, B> FnPtr1<A, B> {
    pub uninterp spec fn maps(&self, a: A, b: B) -> bool;
}
