// =============================================================================
// TRUSTED PRELUDE (unit pooltake): what `Pooled`'s small methods need besides prelude/pool.rs (the crate's
// Connection / PoolableConnection traits with their ghost attributes).  `PoolRef` is opaque here (this unit never
// locks the pool); `tokio::spawn` records what was handed to the runtime.  Same names as prelude/pool_guard.rs,
// which cannot be included: it declares `Pooled::take` as an assumed stub - this unit verifies the real one.
// =============================================================================
#[verifier::external_body]
#[verifier::reject_recursive_types(C)]
#[verifier::reject_recursive_types(B)]
pub struct PoolRef<C, B> where C: PoolableConnection<B>, B: Send + 'static {
    _p: PhantomData<(C, B)>,
}
impl<C, B> Clone for PoolRef<C, B> where C: PoolableConnection<B>, B: Send + 'static {
    #[verifier::external_body]
    fn clone(&self) -> (r: Self)
        ensures r == *self
    { unimplemented!() }
}

/// ghost: the future `f` was handed to the runtime (it will be polled to completion or dropped)
pub uninterp spec fn spawned<F>(f: F) -> bool;
pub mod tokio {
    use super::*;
    #[verifier::external_body]
    pub fn spawn<F>(f: F)
        ensures spawned(f)
    { unimplemented!() }
}
