// =============================================================================
// TRUSTED PRELUDE (unit pooltake): what `Pooled`'s small methods need besides prelude/pool.rs (the crate's
// Connection / PoolableConnection traits with their ghost attributes).  `PoolRef` is opaque here (this unit never
// locks the pool); `tokio::spawn` records what was handed to the runtime.  Same names as prelude/pool_guard.rs,
// which cannot be included: it declares `Pooled::take` as an assumed stub - this unit verifies the real one.
// =============================================================================
#[verifier::external_body]
#[verifier::reject_recursive_types(C)]
#[verifier::reject_recursive_types(B)]
pub struct PoolRef<C, B> where C: PoolableConnection<B>, B: Send + 'static {
    _p: PhantomData<(C, B)>,
}
impl<C, B> Clone for PoolRef<C, B> where C: PoolableConnection<B>, B: Send + 'static {
    #[verifier::external_body]
    fn clone(&self) -> (r: Self)
        ensures r == *self
    { unimplemented!() }
}

/// ghost: the future `f` was handed to the runtime (it will be polled to completion or dropped)
pub uninterp spec fn spawned<F>(f: F) -> bool;
pub mod tokio {
    use super::*;
    #[verifier::external_body]
    pub fn spawn<F>(f: F)
        ensures spawned(f)
    { unimplemented!() }
}

// ---- the `http` crate's types named by `Pooled`'s `Connection` impl.  `Version` as in prelude/http_types.rs (the five
//      public constants over an opaque number); `Request<B>` is an opaque value: this unit only moves it. ----
#[derive(Clone, Copy, PartialEq, Eq, Structural)]
pub struct Version(pub u8);
impl Version {
    pub const HTTP_09: Version = Version(0);
    pub const HTTP_10: Version = Version(1);
    pub const HTTP_11: Version = Version(2);
    pub const HTTP_2: Version = Version(3);
    pub const HTTP_3: Version = Version(4);
}
#[verifier::external_body]
#[verifier::reject_recursive_types(B)]
pub struct Request<B> { _p: PhantomData<B> }
pub mod http {
    pub use super::{Version, Request};
}

/// ghost: what the future `f` returned by a connection's `send_request` stands for: (id of the transport stream the request
/// goes over, the request itself, how many requests that connection had been given before this one)
pub uninterp spec fn exchange_of<B, F>(f: F) -> (int, http::Request<B>, int);

/// The three items of `crate::client::conn::Connection<B>` that prelude/pool.rs leaves out (`type Future`, `version`,
/// `send_request`; `ResBody` is not named by any extracted fn), as a second trait so that the trait text shared with unit
/// `pool` stays as it is.  The extracted `impl Connection<B> for Pooled<C, B>` methods get `C: PoolableConnection<B> +
/// ConnectionWire<B>` as their bound (`impl_header=`): in /repo the two are one trait.
/// ASSUMED for every implementor C: `version` is a pure read of a ghost attribute; `send_request` appends exactly the given
/// request to the connection's ghost log, keeps the connection's identity / shareability / version, and the future it
/// returns is the exchange of that very request on that very connection.
pub trait ConnectionWire<B>: Connection<B> {
    type Future;

    /// ghost: the HTTP version this connection speaks
    spec fn version_s(&self) -> http::Version;
    /// ghost: the requests handed to this connection so far, in order
    spec fn sent_log(&self) -> Seq<http::Request<B>>;

    fn version(&self) -> (r: http::Version)
        ensures r == self.version_s();

    fn send_request(&mut self, request: http::Request<B>) -> (r: Self::Future)
        ensures
            final(self).sent_log() == old(self).sent_log().push(request),
            exchange_of::<B, Self::Future>(r) == (old(self).id(), request, old(self).sent_log().len() as int),
            final(self).id() == old(self).id(),
            final(self).shareable() == old(self).shareable(),
            final(self).version_s() == old(self).version_s();
}
