// =============================================================================
// TRUSTED PRELUDE (unit tcpinfo): tokio's TcpStream and the OS address queries.
// peer_addr() may fail (ENOTCONN when the peer reset the connection before accept() returned it);
// local_addr() (getsockname on an open socket) is ASSUMED not to fail.
// =============================================================================
#[verifier::external_type_specification]
#[verifier::external_body]
pub struct ExSocketAddr(std::net::SocketAddr);

#[verifier::external_type_specification]
#[verifier::external_body]
pub struct ExIoError(std::io::Error);

#[verifier::external_body]
pub fn make_canonical(addr: std::net::SocketAddr) -> (r: std::net::SocketAddr) { unimplemented!() }

pub mod tokio { pub mod net {
    use super::super::*;
    #[verifier::external_body]
    pub struct TcpStream { _p: () }
    impl TcpStream {
        /// ghost: the peer is still connected (getpeername succeeds)
        pub uninterp spec fn peer_known(&self) -> bool;
        #[verifier::external_body]
        pub fn peer_addr(&self) -> (r: Result<std::net::SocketAddr, std::io::Error>)
            ensures r is Ok <==> self.peer_known()
        { unimplemented!() }
        #[verifier::external_body]
        pub fn local_addr(&self) -> (r: Result<std::net::SocketAddr, std::io::Error>)
            ensures r is Ok
        { unimplemented!() }
    }
} }

pub mod info {
    pub struct ConnectionInfo<A> { pub local_addr: A, pub remote_addr: A }
}
