// =============================================================================
// TRUSTED PRELUDE (unit tcpinfo): tokio's TcpStream and the OS address queries.
// peer_addr() may fail (ENOTCONN when the peer reset the connection before accept() returned it);
// local_addr() (getsockname on an open socket) is ASSUMED not to fail.
// =============================================================================
#[verifier::external_type_specification]
#[verifier::external_body]
pub struct ExSocketAddr(std::net::SocketAddr);

#[verifier::external_type_specification]
#[verifier::external_body]
pub struct ExIoError(std::io::Error);

#[verifier::external_body]
pub fn make_canonical(addr: std::net::SocketAddr) -> (r: std::net::SocketAddr) { unimplemented!() }

pub mod tokio { pub mod net {
    use super::super::*;
    #[verifier::external_body]
    pub struct TcpStream { _p: () }
    impl TcpStream {
        /// ghost: the peer is still connected (getpeername succeeds)
        pub uninterp spec fn peer_known(&self) -> bool;
        #[verifier::external_body]
        pub fn peer_addr(&self) -> (r: Result<std::net::SocketAddr, std::io::Error>)
            ensures r is Ok <==> self.peer_known()
        { unimplemented!() }
        #[verifier::external_body]
        pub fn local_addr(&self) -> (r: Result<std::net::SocketAddr, std::io::Error>)
            ensures r is Ok
        { unimplemented!() }
    }
} }

pub mod info {
    pub struct ConnectionInfo<A> { pub local_addr: A, pub remote_addr: A }
}

// ---- tokio's TcpListener as the accept loop sees it (`pub use tokio::net::TcpListener` in stream/tcp.rs) ----
// Prophecy form: `accept_outcome()` of the listener value AFTER the call is what that call answered (the same
// vocabulary as the stand-in trait `Accept` of units accept / acceptor: polls counted, outcome recorded).
#[verifier::external_type_specification]
#[verifier::external_body]
pub struct ExContext<'a>(std::task::Context<'a>);

#[verifier::reject_recursive_types(T)]
#[verifier::external_type_specification]
pub struct ExPoll<T>(std::task::Poll<T>);

#[verifier::external_body]
pub struct TcpListener { _p: () }
impl TcpListener {
    pub uninterp spec fn accept_polls(&self) -> nat;
    pub uninterp spec fn accept_outcome(&self) -> std::task::Poll<Result<(tokio::net::TcpStream, std::net::SocketAddr), std::io::Error>>;
    /// tokio::net::TcpListener::poll_accept (inherent): one OS-level accept attempt
    #[verifier::external_body]
    pub fn poll_accept(&mut self, cx: &mut std::task::Context<'_>) -> (r: std::task::Poll<Result<(tokio::net::TcpStream, std::net::SocketAddr), std::io::Error>>)
        ensures
            final(self).accept_polls() == old(self).accept_polls() + 1,
            r == final(self).accept_outcome(),
    { unimplemented!() }
    /// R5 leaves `self.get_mut()` of `self: Pin<&mut Self>` (Self: Unpin) in place: `Pin::get_mut` is the identity
    /// on the reference
    #[verifier::external_body]
    pub fn get_mut(&mut self) -> (r: &mut TcpListener)
        ensures *r == *old(self), *final(r) == *final(self),
    { unimplemented!() }
}

/// `Poll<T>::map` (std): the closure is applied to a Ready value (through the closure's own contract)
pub assume_specification<T, U, F: FnOnce(T) -> U> [std::task::Poll::<T>::map] (p: std::task::Poll<T>, f: F) -> (r: std::task::Poll<U>)
    requires p matches std::task::Poll::Ready(v) ==> f.requires((v,)),
    ensures
        p is Pending ==> r is Pending,
        p matches std::task::Poll::Ready(v) ==> (r matches std::task::Poll::Ready(u) && f.ensures((v,), u));
