// =============================================================================
// TRUSTED PRELUDE (accept unit): stand-ins for std::io, std::future::Future (Pin erased, R5),
// tokio's mpsc / oneshot channels and the duplex stream.  Hand-written; every item is an
// assumption listed in evidence.
// =============================================================================

// ---- std::io (only what the extracted text names) ----
pub mod io {
    use super::*;
    #[derive(Clone, Copy, PartialEq, Eq)]
    pub enum ErrorKind { ConnectionReset, Interrupted, InvalidInput, Other }

    #[verifier::external_body]
    pub struct Error { _p: PhantomData<u8> }
    impl Error {
        pub uninterp spec fn kind_of(&self) -> ErrorKind;
        /// `io::Error::new(kind, payload)`: an error of that kind
        #[verifier::external_body]
        pub fn new<E>(kind: ErrorKind, error: E) -> (r: Error)
            ensures r.kind_of() == kind
        { unimplemented!() }
        /// `io::Error::kind`
        #[verifier::external_body]
        pub fn kind(&self) -> (k: ErrorKind)
            ensures k == self.kind_of()
        { unimplemented!() }
    }
    impl From<ErrorKind> for Error {
        #[verifier::external_body]
        fn from(k: ErrorKind) -> (r: Error)
            ensures r.kind_of() == k
        { unimplemented!() }
    }
}

/// `?` on a `Result<_, io::ErrorKind>` in a fn returning `Result<_, io::Error>` converts with `From<ErrorKind> for Error`
/// above (vstd leaves the conversion of `?` uninterpreted: `spec_from`; same link as prelude/connector_pool.rs)
pub broadcast axiom fn axiom_question_mark_error_kind(k: io::ErrorKind, e: io::Error)
    ensures #[trigger] vstd::std_specs::control_flow::spec_from::<io::Error, io::ErrorKind>(k, e) ==> e.kind_of() == k;

// ---- `std::cmp::min` (generic over `Ord`; its meaning is fixed for `usize` only; same model as prelude/sniff_io.rs) ----
pub uninterp spec fn min_spec<T>(a: T, b: T) -> T;
pub assume_specification<T: std::cmp::Ord> [std::cmp::min] (a: T, b: T) -> (r: T)
    ensures r == min_spec(a, b);
pub broadcast axiom fn axiom_min_usize(a: usize, b: usize)
    ensures #[trigger] min_spec(a, b) == (if a <= b { a } else { b });
pub uninterp spec fn max_spec<T>(a: T, b: T) -> T;
pub assume_specification<T: std::cmp::Ord> [std::cmp::max] (a: T, b: T) -> (r: T)
    ensures r == max_spec(a, b);
pub broadcast axiom fn axiom_max_usize(a: usize, b: usize)
    ensures #[trigger] max_spec(a, b) == (if a <= b { b } else { a });

// ---- std::future::Future after Pin erasure (R5): `poll(self: Pin<&mut Self>, ..)` -> `poll(&mut self, ..)` ----
pub trait Future {
    type Output;
    /// ghost: number of times this future has been polled
    spec fn polls(&self) -> nat;
    /// ghost: the value with which the most recent poll completed (`None`: it returned `Pending`)
    spec fn outcome(&self) -> Option<Self::Output>;

    fn poll(&mut self, cx: &mut Context<'_>) -> (r: Poll<Self::Output>)
        ensures
            final(self).polls() == old(self).polls() + 1,
            final(self).outcome() == (match r { Poll::Ready(v) => Some(v), Poll::Pending => None::<Self::Output> });
}

// ---- tokio::sync::{mpsc::Receiver, oneshot::Sender} ----
/// prophecy: what the receiving end of oneshot channel `id` gets (a sender is consumed by `send`,
/// so each channel carries at most one value)
pub uninterp spec fn delivered<T>(id: int) -> Option<T>;
/// prophecy: the receiving end of oneshot channel `id` is (or will be) gone without a value
pub uninterp spec fn dead(id: int) -> bool;
/// a channel whose receiver is gone never carries a value
pub broadcast axiom fn axiom_dead_not_delivered<T>(id: int)
    requires dead(id),
    ensures #[trigger] delivered::<T>(id) is None;

pub mod tokio {
    pub mod sync {
        pub mod oneshot {
            use super::super::super::*;
            #[verifier::external_body]
            #[verifier::reject_recursive_types(T)]
            pub struct Sender<T> { _p: PhantomData<T> }
            impl<T> Sender<T> {
                pub uninterp spec fn id(&self) -> int;
                /// tokio: `send` fails iff the receiver was dropped; the value comes back intact
                #[verifier::external_body]
                pub fn send(self, t: T) -> (r: Result<(), T>)
                    ensures
                        r is Err ==> r->Err_0 == t && dead(self.id()),
                        r is Ok ==> delivered::<T>(self.id()) == Some(t),
                { unimplemented!() }
            }
        }
        pub mod mpsc {
            use super::super::super::*;
            #[verifier::external_body]
            #[verifier::reject_recursive_types(T)]
            pub struct Receiver<T> { _p: PhantomData<T> }
            impl<T> Receiver<T> {
                /// ghost: every value `poll_recv` has handed out so far, oldest first
                pub uninterp spec fn taken(&self) -> Seq<T>;
                /// ghost: the most recent `poll_recv` returned `Ready(None)` - every sender is dropped and the
                /// queue is drained: for `DuplexIncoming` this is the loss of the listener itself
                pub uninterp spec fn closed(&self) -> bool;

                /// ghost: the most recent `poll_recv` returned `Pending` - the queue was empty and the task's waker
                /// is registered with the channel (the task is woken by the next `send`)
                pub uninterp spec fn waiting(&self) -> bool;

                #[verifier::external_body]
                pub fn poll_recv(&mut self, cx: &mut Context<'_>) -> (r: Poll<Option<T>>)
                    ensures
                        match r {
                            Poll::Ready(Some(v)) => final(self).taken() == old(self).taken().push(v) && !final(self).closed() && !final(self).waiting(),
                            Poll::Ready(None) => final(self).taken() == old(self).taken() && final(self).closed() && !final(self).waiting(),
                            Poll::Pending => final(self).taken() == old(self).taken() && !final(self).closed() && final(self).waiting(),
                        }
                { unimplemented!() }
            }
        }
    }
}

// ---- stream::duplex::DuplexStream (wraps tokio::io::DuplexStream + connection info) ----
#[verifier::external_body]
pub struct DuplexStream { _p: PhantomData<u8> }
impl DuplexStream {
    /// ghost identity of the in-memory pipe this half belongs to
    pub uninterp spec fn pipe(&self) -> int;
    /// ghost: buffer size the pipe was created with
    pub uninterp spec fn buf_size(&self) -> usize;
    /// `DuplexStream::new` (tokio::io::duplex + info): two halves of one fresh pipe
    #[verifier::external_body]
    pub fn new(max_buf_size: usize) -> (r: (DuplexStream, DuplexStream))
        ensures r.0.pipe() == r.1.pipe(), r.0.buf_size() == max_buf_size, r.1.buf_size() == max_buf_size
    { unimplemented!() }
}
