// =============================================================================
// TRUSTED PRELUDE (unit `timeout`, part 2): the field types of `client::Builder` that the four timeout
// setters / getters of src/client/builder.rs never look into.  Opaque (`external_body`) types: the setters
// only move them.  Hand-written; each item is listed in evidence.
// =============================================================================
/// `tower::ServiceBuilder<L>` (the stack of layers collected so far)
#[verifier::external_body]
#[verifier::reject_recursive_types(L)]
pub struct ServiceBuilder<L> { _p: PhantomData<L> }
/// `tower::layer::util::Identity`
#[verifier::external_body]
pub struct Identity { _p: () }
/// `rustls::ClientConfig`
#[verifier::external_body]
pub struct ClientConfig { _p: () }
/// `tower_http::follow_redirect::policy::Standard`
pub mod policy {
    use super::*;
    #[verifier::external_body]
    pub struct Standard { _p: () }
}
/// `crate::client::pool::Config`, `crate::Body`: named by path in the struct
pub mod client { pub mod pool {
    use super::super::*;
    #[verifier::external_body]
    pub struct Config { _p: () }
} }
#[verifier::external_body]
pub struct Body { _p: () }
