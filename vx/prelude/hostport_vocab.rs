// =============================================================================
// SHARED VOCABULARY (units `hostport`, `hosthdr`, `http`): the ghost attributes of `http::Uri` that the contracts of
// service/host.rs mention, and the two spec functions over them.  Included AFTER the unit's own `pub struct Uri` (abstract in
// every unit: prelude/hostport.rs or prelude/http_types.rs), so that a contract PROVED in unit `hosthdr` can be IMPORTED by
// unit `http` (`//@ import hosthdr :: - :: set_host_header`) and means the same there.  An `uninterp spec fn` is a name, not a
// fact: nothing is assumed about these attributes here (what the exec accessors return is said in prelude/hostport.rs).
// The two `open spec fn` used to be written twice (units/hostport.vxu, units/hosthdr.vxu, "same text").
// =============================================================================
impl Uri {
    /// the scheme text, lower-cased as `http` stores it
    pub uninterp spec fn scheme_text(&self) -> Option<&'static str>;
    /// the explicit port of the authority
    pub uninterp spec fn port_num(&self) -> Option<u16>;
}

/// the scheme is one whose default port is 443 (https, wss)
pub open spec fn secure_scheme(uri: &Uri) -> bool {
    uri.scheme_text() is Some && (uri.scheme_text()->0 == "https" || uri.scheme_text()->0 == "wss")
}

/// the explicit port is the default port of the URI's scheme
pub open spec fn is_default_port(uri: &Uri) -> bool {
    uri.port_num() is Some && ((uri.port_num()->0 == 443 && secure_scheme(uri)) || (uri.port_num()->0 == 80 && !secure_scheme(uri)))
}
