// =============================================================================
// TRUSTED PRELUDE (unit `timeout`): what src/service/timeout.rs stands on - std::future::Future, tokio's timer
// and tower::Service.  Hand-written, never generated from the repository; every `external_body`,
// `assume_specification`, `axiom` and `uninterp` item is an assumption listed in the evidence file
// (trusted_base).  Pin is erased (R5/R6).
//
// Model of a future / of a service's readiness: a stream of poll results.
//   next()  prophecy: what the next poll returns          last()  what the most recent poll returned
//   polls() how often it was polled                        fid()   ghost identity given at creation
// (the same model as prelude/connector.rs; repeated here because that file cannot be included without the http
// stand-ins of unit `connector`)
//
// TIME IS NOT MODELLED.  Whether and when the timer's `poll` answers `Ready` is a prophecy (`next()`); that tokio
// answers `Ready` exactly from `created_at + duration` on, and wakes the task then, is tokio's contract - assumed,
// and exercised in real time by the bounded stand-ins `A.timeout.deadline` / `A.timeout.cleanup`.
// =============================================================================

// ---- std ----
#[verifier::external_type_specification]
#[verifier::external_body]
pub struct ExContext<'a>(std::task::Context<'a>);
#[verifier::reject_recursive_types(T)]
#[verifier::external_type_specification]
pub struct ExPoll<T>(std::task::Poll<T>);

/// `Poll::is_ready` / `is_pending` (std: `matches!(*self, Poll::Ready(_))` and its negation)
pub assume_specification<T> [std::task::Poll::<T>::is_ready] (p: &std::task::Poll<T>) -> (r: bool)
    ensures r == (*p is Ready);
pub assume_specification<T> [std::task::Poll::<T>::is_pending] (p: &std::task::Poll<T>) -> (r: bool)
    ensures r == (*p is Pending);

/// `Poll<Result<T, E>>::map_err`: the function is applied to the Err value of a Ready result (through the function's
/// own contract), everything else is passed through unchanged
pub assume_specification<T, E, U, F: FnOnce(E) -> U> [std::task::Poll::<Result<T, E>>::map_err] (p: std::task::Poll<Result<T, E>>, f: F) -> (r: std::task::Poll<Result<T, U>>)
    requires
        p matches std::task::Poll::Ready(Err(e)) ==> f.requires((e,)),
    ensures
        p is Pending ==> r is Pending,
        p matches std::task::Poll::Ready(Ok(v)) ==> r == std::task::Poll::<Result<T, U>>::Ready(Ok(v)),
        p matches std::task::Poll::Ready(Err(e)) ==> (r matches std::task::Poll::Ready(Err(u)) && f.ensures((e,), u));

/// `Duration::from_secs` / `from_millis` / `from_micros` / `from_nanos` (total, never panic): SOME duration - nothing is
/// said about which.  The extracted code builds no duration itself (it only passes the configured one on); these
/// entries exist so that an edit which does build one is judged by the verifier instead of stopping at its front end.
pub assume_specification [Duration::from_secs] (secs: u64) -> (r: Duration);
pub assume_specification [Duration::from_millis] (millis: u64) -> (r: Duration);
pub assume_specification [Duration::from_micros] (micros: u64) -> (r: Duration);
pub assume_specification [Duration::from_nanos] (nanos: u64) -> (r: Duration);

/// std's blanket `impl<T> From<T> for T` (through `impl<T, U: From<T>> Into<U> for T`): converting a value into its
/// own type is the identity.  (vstd specifies `Into::into` through `From::from` but has no entry for the reflexive
/// impl, and the orphan rule forbids adding one.)
pub broadcast axiom fn axiom_into_identity<E>(e: E, u: E)
    ensures #[trigger] call_ensures(<E as Into<E>>::into, (e,), u) ==> u == e;

/// std::future::Future after Pin erasure.  Polling a future that has returned Ready is outside the trait's
/// contract (the futures met here panic: "`async fn` resumed after completion", tokio's Sleep is merely
/// unspecified): the precondition makes it a proof obligation of every caller.
pub trait Future {
    type Output;
    /// ghost identity: given by whoever created the future, never changed by `poll`
    spec fn fid(&self) -> int;
    spec fn polls(&self) -> nat;
    /// result of the most recent poll (`None`: never polled)
    spec fn last(&self) -> Option<Poll<Self::Output>>;
    /// prophecy: result of the next poll
    spec fn next(&self) -> Poll<Self::Output>;

    fn poll(&mut self, cx: &mut Context<'_>) -> (r: Poll<Self::Output>)
        requires
            !(old(self).last() matches Some(Poll::Ready(_))),
        ensures
            r == old(self).next(),
            final(self).fid() == old(self).fid(),
            final(self).polls() == old(self).polls() + 1,
            final(self).last() == Some(r);
}
/// the future has completed: it must not be polled again
pub open spec fn fut_done<F: Future>(f: F) -> bool {
    f.last() matches Some(Poll::Ready(_))
}
/// a future nobody has polled yet
pub open spec fn fut_fresh<F: Future>(f: F) -> bool {
    f.polls() == 0 && f.last() is None
}

/// ghost: the reading of the clock "during this call" - one value per (non-suspending, sequential) function body, the
/// same device as `clock_now()` in prelude/pool.rs.  It only serves to say WHERE a timer is created.
pub uninterp spec fn clock_now() -> int;

// ---- tokio::time ----
pub mod tokio {
    pub mod time {
        use super::super::*;
        /// `tokio::time::Sleep`: a future that completes once, with `()`.
        ///   duration()    the duration it was created with        created_at()  the clock reading at creation
        /// Its deadline is `created_at() + duration()` and never moves: `poll` keeps both (the crate never calls `reset`).
        #[verifier::external_body]
        pub struct Sleep { _p: () }
        impl Sleep {
            pub uninterp spec fn duration(&self) -> Duration;
            pub uninterp spec fn created_at(&self) -> int;
        }
        impl Future for Sleep {
            type Output = ();
            uninterp spec fn fid(&self) -> int;
            uninterp spec fn polls(&self) -> nat;
            uninterp spec fn last(&self) -> Option<Poll<()>>;
            uninterp spec fn next(&self) -> Poll<()>;
            #[verifier::external_body]
            fn poll(&mut self, cx: &mut Context<'_>) -> (r: Poll<()>)
                ensures
                    final(self).duration() == old(self).duration(),
                    final(self).created_at() == old(self).created_at(),
            { unimplemented!() }
        }
        /// `tokio::time::sleep(d)`: a fresh timer for exactly `d`, counting from now
        #[verifier::external_body]
        pub fn sleep(duration: Duration) -> (s: Sleep)
            ensures
                s.duration() == duration,
                s.created_at() == clock_now(),
                fut_fresh(s),
        { unimplemented!() }
    }
}

// ---- tower ----
/// tower::Service<R>; the futures it returns obey the `Future` model above.
///   sid()              ghost identity of this service value (a clone is another value)
///   calls()            how often `call` was used on it
///   sent(fid) / made_by(fid)   creation record of a response future: the request it was created for, by which service
///   ready_*            the stream of `poll_ready` answers (same model as a future's poll results)
/// tower's usage contract - `call` only after `poll_ready` returned `Ready(Ok(()))` on this very value - is NOT
/// modelled as a precondition: it is the obligation of whoever drives the outermost service.
pub mod tower {
    use super::*;
    pub trait Service<R> {
        type Response;
        type Error;
        type Future: Future<Output = Result<Self::Response, Self::Error>>;
        spec fn sid(&self) -> int;
        spec fn calls(&self) -> nat;
        spec fn sent(fid: int) -> R;
        spec fn made_by(fid: int) -> int;
        spec fn ready_polls(&self) -> nat;
        spec fn ready_next(&self) -> Poll<Result<(), Self::Error>>;

        fn poll_ready(&mut self, cx: &mut Context<'_>) -> (r: Poll<Result<(), Self::Error>>)
            ensures
                r == old(self).ready_next(),
                final(self).sid() == old(self).sid(),
                final(self).calls() == old(self).calls(),
                final(self).ready_polls() == old(self).ready_polls() + 1;

        fn call(&mut self, req: R) -> (f: Self::Future)
            ensures
                Self::sent(f.fid()) == req,
                Self::made_by(f.fid()) == old(self).sid(),
                fut_fresh(f),
                final(self).sid() == old(self).sid(),
                final(self).calls() == old(self).calls() + 1,
                final(self).ready_polls() == old(self).ready_polls();
    }
}
