// =============================================================================
// TRUSTED PRELUDE (accept unit): A-class function of stream/duplex.rs.
// =============================================================================
/// the client behind request `q` has been handed the other half of the pipe of `s`
pub open spec fn acked(q: DuplexConnectionRequest, s: DuplexStream) -> bool {
    delivered::<DuplexStream>(q.ack.id()) is Some && delivered::<DuplexStream>(q.ack.id())->0.pipe() == s.pipe()
}
/// the client behind request `q` went away (its `connect` future was dropped) before it was answered
pub open spec fn client_gone(q: DuplexConnectionRequest) -> bool {
    dead(q.ack.id())
}

impl DuplexConnectionRequest {
    /// A: `DuplexConnectionRequest::ack` - `.map_err(|_| ..)` has a closure with a `_` pattern parameter, which the
    /// Verus front end rejects ("only variables are supported here, not general patterns").
    /// Assumed (read off its body: `DuplexStream::new`, `self.ack.send(tx)`, `Ok(rx)`): the result is `Err` iff
    /// the connecting client dropped its receiver; on `Ok` that client has been sent the other half of the
    /// returned stream's pipe.
    #[verifier::external_body]
    pub fn ack(self, max_buf_size: Option<usize>) -> (r: Result<DuplexStream, io::Error>)
        ensures
            r is Err <==> client_gone(self),
            r is Ok ==> acked(self, r->Ok_0),
            r is Err ==> r->Err_0.kind_of() == io::ErrorKind::ConnectionReset,
    { unimplemented!() }
}
