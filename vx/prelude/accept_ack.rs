// =============================================================================
// PRELUDE (accept unit): vocabulary of the `ack` contract (definitions only, no assumption).
// =============================================================================
/// the client behind request `q` has been handed the other half of the pipe of `s`
pub open spec fn acked(q: DuplexConnectionRequest, s: DuplexStream) -> bool {
    delivered::<DuplexStream>(q.ack.id()) is Some && delivered::<DuplexStream>(q.ack.id())->0.pipe() == s.pipe()
}
/// the client behind request `q` went away (its `connect` future was dropped) before it was answered
pub open spec fn client_gone(q: DuplexConnectionRequest) -> bool {
    dead(q.ack.id())
}

/// buffer size of the pipe `ack` creates: the size the client asked for, capped by the server's limit if it has one
pub open spec fn ack_buf_size(cap: Option<usize>, requested: usize) -> usize {
    match cap { Some(c) => if c <= requested { c } else { requested }, None => requested }
}
// `DuplexConnectionRequest::ack` itself is no longer assumed: it is extracted in units/accept.vxu (acc.ack.*; R30 names the
// `_` closure parameter of `.map_err(|_| ..)`), and `poll_accept` / `poll_next` are checked against the contract proved there.
