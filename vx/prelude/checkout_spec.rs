// =============================================================================
// SHARED SPECIFICATION TEXT (no assumption: `open spec fn` definitions only) - the vocabulary in which the contracts of
// `Checkout::{new, detached, as_delayed, poll}` and `Waiting::poll` (src/client/pool/checkout.rs) are written.
// Included by unit `checkout`, which PROVES those contracts (ck.*, wait.*), and by every unit that IMPORTS one of them
// (`//@ import checkout :: .. :: new` in unit `pool`): both sides read the contract text against these definitions.
// Needs in scope: prelude/pool.rs, prelude/pool_guard.rs, prelude/checkout.rs and the extracted `Waiting`,
// `InnerCheckoutConnecting`, `Checkout`.  Moved verbatim out of vx/units/checkout.vxu (notes/imports.md).
// =============================================================================
impl<C, B> Waiting<C, B> where C: PoolableConnection<B>, B: Send + 'static {
    /// the receiving end this waiter listens on
    pub open spec fn rx(&self) -> Option<Receiver<Pooled<C, B>>> {
        match *self { Waiting::Idle(rx) => Some(rx), Waiting::Connecting(rx) => Some(rx), Waiting::NoPool => None }
    }
    /// the next poll of this waiter yields a connection that was delivered through the channel
    pub open spec fn delivers(&self) -> Option<Pooled<C, B>> {
        match self.rx() { Some(rx) => match rx.next() { Poll::Ready(Ok(c)) => Some(c), _ => None }, None => None }
    }
    /// a dialing request whose channel is open and empty: it goes on listening while it dials
    pub open spec fn listens(&self) -> bool {
        match *self { Waiting::Idle(rx) => rx.next() is Pending, _ => false }
    }
    /// the next poll of this waiter blocks: a pure waiter whose channel is open and empty
    pub open spec fn blocks(&self) -> bool {
        match *self { Waiting::Connecting(rx) => rx.next() is Pending, _ => false }
    }
    /// the receiver has not yet produced its value (polling it again after that panics inside tokio)
    pub open spec fn wf(&self) -> bool {
        self.rx() is Some ==> !self.rx()->0.done()
    }
}

impl<T, P, B> InnerCheckoutConnecting<T, P, B> where T: Transport, P: Protocol<T::IO, B>, P::Connection: PoolableConnection<B>, B: Send + 'static {
    /// the connection attempt this state owns
    pub open spec fn connector(&self) -> Option<Connector<T, P, B>> {
        match *self {
            InnerCheckoutConnecting::Connecting(c) => Some(c),
            InnerCheckoutConnecting::ConnectingWithDelayDrop(Some(b)) => Some(*b),
            InnerCheckoutConnecting::ConnectingDelayed(b) => Some(*b),
            _ => None,
        }
    }
}

impl<T, P, B> Checkout<T, P, B> where T: Transport + 'static, P: Protocol<T::IO, B> + Send + 'static, P::Connection: PoolableConnection<B>, B: Send + 'static {
    // the four attributes in which unit `pool` states what `Pool::checkout` returns (checkout.tok / reuse / open), defined
    // on the real struct
    pub open spec fn token(&self) -> Token { self.token }
    pub open spec fn will_dial(&self) -> bool { self.inner.connector() is Some }
    pub open spec fn holds(&self) -> Option<P::Connection> { self.connection }
    pub open spec fn waits_on(&self) -> int { self.waiter.rx()->0.id() }

    /// the waiter neither delivers nor blocks: `poll` goes on to the state machine proper
    pub open spec fn falls_through(&self) -> bool { self.waiter.delivers() is None && !self.waiter.blocks() }

    /// the future may be polled: it has not completed and nothing was taken out of it
    ///  * `Connected` with `connection == None` only arises when `poll` has returned Ready,
    ///  * `ConnectingWithDelayDrop(None)` only arises in the value left behind by `as_delayed` (which is being dropped),
    ///  * a connector / receiver that has produced its result is never kept.
    pub open spec fn wf(&self) -> bool {
        self.waiter.wf()
        && (self.inner is Connected ==> self.connection is Some)
        && !(self.inner matches InnerCheckoutConnecting::ConnectingWithDelayDrop(None))
        && (self.inner.connector() is Some ==> !self.inner.connector()->0.done())
    }
}
