// =============================================================================
// TRUSTED PRELUDE (unit hosthdr): the parts of the `http` crate that `set_host_header` touches, as abstract stand-ins.
// Used AFTER prelude/hostport.rs (`Uri`, `Port<T>` with num()) and together with prelude/hostport_vocab.rs,
// prelude/hosthdr_vocab.rs (the ghost attributes and spec functions the contract of `set_host_header` mentions: shared with
// unit `http`, which imports that contract).
// Hand-written, never generated from /repo.  Every `external_body` / `uninterp` / `axiom` is an assumption.
// Accessor names of `Request<B>` (version_s, method_s, uri_s, headers_s, ext_s, rest_s) are those of
// prelude/http_types.rs so that the contract of this unit can be read against unit `http`.
// =============================================================================

// ---- header text ----
/// what `HeaderValue::from_str` accepts (http 1.3.1 src/header/value.rs `is_valid`: `b >= 32 && b != 127 || b == b'\t'`
/// over the bytes; every byte of a non-ASCII char is >= 128, so the same condition over chars)
pub open spec fn header_char(c: char) -> bool { c == '\t' || (c as u32 >= 32 && c as u32 != 127) }
pub open spec fn valid_header_text(s: Seq<char>) -> bool { forall|i: int| 0 <= i < s.len() ==> header_char(#[trigger] s[i]) }

/// decimal rendering of a port number (`<u16 as Display>`, `dec_u16` of prelude/hosthdr_vocab.rs): a non-empty string of ASCII digits
pub broadcast axiom fn axiom_dec_u16_digits(p: u16)
    ensures (#[trigger] dec_u16(p)).len() >= 1, forall|i: int| 0 <= i < dec_u16(p).len() ==> '0' <= #[trigger] dec_u16(p)[i] <= '9';

// `host_port_text(h, p)` (the text `format!("{}:{}", host, port)` produces): prelude/hosthdr_vocab.rs

/// STAND-IN FOR `format!("{}:{}", hostname, port)` (see the macro below): `Display for &str` writes the text itself,
/// `Display for http::uri::Port<T>` is `fmt::Display::fmt(&self.port, f)` with `port: u16` (http 1.3.1 src/uri/port.rs).
#[verifier::external_body]
pub fn fmt_host_port<T>(h: &str, p: &Port<T>) -> (r: String)
    ensures r@ == host_port_text(h@, p.num())
{ unimplemented!() }

/// `format!` cannot be expanded inside Verus (fmt::Arguments); the ONLY call shape accepted is the one in
/// `set_host_header`, with that very format string - any other use of `format!` in extracted text is a front-end error
/// (fn stubbed, undecided).
macro_rules! format {
    ("{}:{}", $h:expr, $p:expr) => { fmt_host_port($h, &$p) };
}

// (`&String` -> `&str`, the deref coercion at `HeaderValue::from_str(&s)`, is specified in vstd::string)

// ---- http::Uri: host ----
impl Uri {
    /// `Uri::host()` (ghost attribute `host_text()`: prelude/hosthdr_vocab.rs)
    #[verifier::external_body]
    pub fn host(&self) -> (r: Option<&str>)
        ensures (r is Some) == (self.host_text() is Some), r is Some ==> r->0@ == self.host_text()->0
    { unimplemented!() }
}
impl Clone for Uri {
    #[verifier::external_body]
    fn clone(&self) -> (r: Self) ensures r == *self { unimplemented!() }
}
/// EXPLICIT ASSUMPTION behind `.expect("uri host is valid header value")`: the host of a parsed `http::Uri` is
/// header-value-legal text.  (http 1.3.1 src/uri/authority.rs `Authority::parse` admits only bytes with a non-zero
/// entry in URI_CHARS - visible ASCII 0x21..0x7E, brackets of an IPv6 literal included - and `%`; no control
/// character, no space, no byte >= 0x80 ever gets into an authority.)
pub broadcast axiom fn axiom_uri_host_is_header_text(u: Uri)
    ensures (#[trigger] u.host_text()) is Some ==> valid_header_text(u.host_text()->0);

// ---- http::header::{HeaderName, HeaderValue} ----
/// header names are opaque tokens (the real type is a case-normalised string)
#[derive(PartialEq, Eq, Structural)]
pub struct HeaderName(pub u8);

#[verifier::external_body]
pub struct HeaderValue { _p: () }
#[verifier::external_body]
pub struct InvalidHeaderValue { _p: () }
impl std::fmt::Debug for InvalidHeaderValue {
    #[verifier::external_body]
    fn fmt(&self, f: &mut std::fmt::Formatter<'_>) -> std::fmt::Result { unimplemented!() }
}
impl HeaderValue {
    // (ghost attribute `text()`: prelude/hosthdr_vocab.rs)
    /// `HeaderValue::from_str`: accepts exactly header-value-legal text and stores it unchanged
    #[verifier::external_body]
    pub fn from_str(src: &str) -> (r: Result<HeaderValue, InvalidHeaderValue>)
        ensures (r is Ok) == valid_header_text(src@), r is Ok ==> r->Ok_0.text() == src@
    { unimplemented!() }
}

// ---- http::HeaderMap and its entry API ----
#[verifier::external_body]
pub struct HeaderMap { _p: () }
impl HeaderMap {
    // (ghost attributes `all_s(n)`, `full_s()`: prelude/hosthdr_vocab.rs)
    /// first value stored under `n` (what `HeaderMap::get` returns; same notion as `get_s` of prelude/http_types.rs)
    pub open spec fn get_s(&self, n: HeaderName) -> Option<HeaderValue> {
        if self.all_s(n).len() > 0 { Some(self.all_s(n)[0]) } else { None }
    }
    /// `HeaderMap::entry(key)` = `key.try_entry(self).expect("size overflows MAX_SIZE")`: it RESERVES room for one more
    /// name before it looks the key up (`try_entry2`: `self.try_reserve_one()?`), so it PANICS on a full map whether or
    /// not the key is present.  Prophecy form: `fin()` of the entry is what the map holds under `key` when the entry's
    /// borrow ends; it is determined only by `into_mut` / `insert` below (an entry that is dropped leaves it open,
    /// which can only make a proof fail).
    #[verifier::external_body]
    pub fn entry<'a>(&'a mut self, key: HeaderName) -> (e: Entry<'a>)
        requires !old(self).full_s(),
        ensures
            match e {
                Entry::Occupied(o) => old(self).all_s(key).len() > 0 && o.cur() == old(self).all_s(key)
                    && final(self).all_s(key) == o.fin(),
                Entry::Vacant(v) => old(self).all_s(key).len() == 0 && final(self).all_s(key) == v.fin(),
            },
            forall|n: HeaderName| n != key ==> #[trigger] final(self).all_s(n) == old(self).all_s(n),
            final(self).full_s() == old(self).full_s() || e is Vacant,
    { unimplemented!() }
}
impl HeaderMap {
    // ---- not used by the pinned `set_host_header`; declared so that a variant of it written with the plain map API
    //      (an overwrite with `insert`, a `contains_key` test, a non-panicking `try_insert`) is DECIDED by the verifier
    //      instead of being stubbed ----
    #[verifier::external_body]
    pub fn contains_key(&self, key: HeaderName) -> (r: bool)
        ensures r == (self.all_s(key).len() > 0)
    { unimplemented!() }
    /// `HeaderMap::insert`: REPLACES all values under `key`; panics ("size overflows MAX_SIZE") like the entry API
    #[verifier::external_body]
    pub fn insert(&mut self, key: HeaderName, val: HeaderValue) -> (r: Option<HeaderValue>)
        requires !old(self).full_s(),
        ensures
            r == old(self).get_s(key),
            final(self).all_s(key) == seq![val],
            forall|n: HeaderName| n != key ==> #[trigger] final(self).all_s(n) == old(self).all_s(n),
    { unimplemented!() }
    /// `HeaderMap::try_insert`: as `insert`, but a full map is reported instead of a panic (and left unchanged)
    #[verifier::external_body]
    pub fn try_insert(&mut self, key: HeaderName, val: HeaderValue) -> (r: Result<Option<HeaderValue>, MaxSizeReached>)
        ensures
            r is Err <==> old(self).full_s(),
            r is Err ==> *final(self) == *old(self),
            r is Ok ==> r->Ok_0 == old(self).get_s(key) && final(self).all_s(key) == seq![val],
            forall|n: HeaderName| n != key ==> #[trigger] final(self).all_s(n) == old(self).all_s(n),
    { unimplemented!() }
}
#[verifier::external_body]
pub struct MaxSizeReached { _p: () }
/// `http::header::InvalidHeaderName`: the error type of `try_entry` ("Unfortunately, we cannot change the return type of
/// this method, so the max size reached error needs to be converted into an InvalidHeaderName" - http 1.3.1 map.rs)
#[verifier::external_body]
pub struct InvalidHeaderName { _p: () }
impl HeaderMap {
    /// `HeaderMap::try_entry(key)` for a key that already IS a `HeaderName` (so the name cannot be invalid): `Err` exactly
    /// when the map cannot reserve room for one more name (`try_reserve_one` fails), and then nothing was written;
    /// otherwise the entry, as `entry` above.
    #[verifier::external_body]
    pub fn try_entry<'a>(&'a mut self, key: HeaderName) -> (r: Result<Entry<'a>, InvalidHeaderName>)
        ensures
            r is Err <==> old(self).full_s(),
            r is Err ==> *final(self) == *old(self),
            r is Ok ==> match r->Ok_0 {
                Entry::Occupied(o) => old(self).all_s(key).len() > 0 && o.cur() == old(self).all_s(key)
                    && final(self).all_s(key) == o.fin(),
                Entry::Vacant(v) => old(self).all_s(key).len() == 0 && final(self).all_s(key) == v.fin(),
            },
            r is Ok ==> forall|n: HeaderName| n != key ==> #[trigger] final(self).all_s(n) == old(self).all_s(n),
            r is Ok ==> final(self).full_s() == old(self).full_s() || r->Ok_0 is Vacant,
    { unimplemented!() }
}

/// two header maps with the same values under every name are the same map (`PartialEq for HeaderMap` compares exactly
/// that; iteration order between different names is not observable through the accessors used here)
pub axiom fn axiom_header_map_ext(a: HeaderMap, b: HeaderMap)
    requires forall|n: HeaderName| #[trigger] a.all_s(n) == b.all_s(n), a.full_s() == b.full_s(),
    ensures a == b;

#[verifier::external_body]
pub struct OccupiedEntry<'a> { _p: std::marker::PhantomData<&'a mut HeaderMap> }
#[verifier::external_body]
pub struct VacantEntry<'a> { _p: std::marker::PhantomData<&'a mut HeaderMap> }
/// stand-in for `http::header::Entry<'a, HeaderValue>` (same variant names as the real enum)
pub enum Entry<'a> {
    Occupied(OccupiedEntry<'a>),
    Vacant(VacantEntry<'a>),
}
impl<'a> OccupiedEntry<'a> {
    /// values under the key when the entry was taken (non-empty)
    pub uninterp spec fn cur(&self) -> Seq<HeaderValue>;
    /// prophecy: values under the key when the borrow ends
    pub uninterp spec fn fin(&self) -> Seq<HeaderValue>;
    /// `OccupiedEntry::into_mut`: a reference to the FIRST value; nothing else of the entry can change any more
    #[verifier::external_body]
    pub fn into_mut(self) -> (r: &'a mut HeaderValue)
        ensures *r == self.cur()[0], self.fin() == self.cur().update(0, *final(r))
    { unimplemented!() }
}
impl<'a> VacantEntry<'a> {
    /// prophecy: values under the key when the borrow ends
    pub uninterp spec fn fin(&self) -> Seq<HeaderValue>;
    /// `VacantEntry::insert` = `try_insert(value).expect("size overflows MAX_SIZE")`: cannot fail here, `entry` has
    /// already reserved the slot (`try_insert_entry` only refuses at 32768 entries, above the 24576 `entry` admits)
    #[verifier::external_body]
    pub fn insert(self, value: HeaderValue) -> (r: &'a mut HeaderValue)
        ensures *r == value, self.fin() == seq![*final(r)]
    { unimplemented!() }
}

// ---- http::Request<B>: head fields as spec accessors; a `&mut` accessor changes only its own field ----
#[verifier::external_body]
pub struct Version { _p: () }
#[verifier::external_body]
pub struct Method { _p: () }
#[verifier::external_body]
pub struct Extensions { _p: () }

#[verifier::external_body]
#[verifier::reject_recursive_types(B)]
pub struct Request<B> { _p: std::marker::PhantomData<B> }
impl<B> Request<B> {
    pub uninterp spec fn version_s(&self) -> Version;
    pub uninterp spec fn method_s(&self) -> Method;
    pub uninterp spec fn uri_s(&self) -> Uri;
    pub uninterp spec fn headers_s(&self) -> HeaderMap;
    pub uninterp spec fn ext_s(&self) -> Extensions;
    /// everything that is not one of the five head fields above (the body)
    pub uninterp spec fn rest_s(&self) -> int;

    #[verifier::external_body]
    pub fn uri(&self) -> (r: &Uri) ensures *r == self.uri_s() { unimplemented!() }
    #[verifier::external_body]
    pub fn headers_mut(&mut self) -> (r: &mut HeaderMap)
        ensures *r == old(self).headers_s(), final(self).headers_s() == *final(r),
            final(self).method_s() == old(self).method_s(), final(self).version_s() == old(self).version_s(),
            final(self).uri_s() == old(self).uri_s(), final(self).ext_s() == old(self).ext_s(),
            final(self).rest_s() == old(self).rest_s(),
    { unimplemented!() }
}
/// a request is determined by its head fields and its body
pub broadcast axiom fn axiom_request_ext<B>(a: Request<B>, b: Request<B>)
    ensures #[trigger] a.version_s() == #[trigger] b.version_s() && a.method_s() == b.method_s() && a.uri_s() == b.uri_s()
        && a.headers_s() == b.headers_s() && a.ext_s() == b.ext_s() && a.rest_s() == b.rest_s() ==> a == b;

// ---- stand-in module tree (paths as written in src/service/host.rs) ----
pub mod http {
    pub use super::{Uri, Request, HeaderMap, HeaderValue};
    pub mod uri {
        pub use super::super::Port;
    }
    pub mod header {
        pub use super::super::{HeaderName, HeaderValue, Entry};
        pub const HOST: HeaderName = HeaderName(1);
        // (other standard names: not used by the pinned code; declared so that a variant that files the value under
        //  another name is decided by the verifier rather than stubbed)
        pub const CONNECTION: HeaderName = HeaderName(2);
        pub const TRANSFER_ENCODING: HeaderName = HeaderName(3);
        pub const UPGRADE: HeaderName = HeaderName(4);
        pub const USER_AGENT: HeaderName = HeaderName(5);
        pub const CONTENT_LENGTH: HeaderName = HeaderName(6);
    }
}
