// =============================================================================
// SHARED SPEC FUNCTIONS (units `sniff`, `upgradable`): the vocabulary of the contract unit `sniff` PROVES for
// `ReadVersion::poll` (rv.cancel, rv.pending, rv.h2, rv.h1, rv.rewind) - moved verbatim out of units/sniff.vxu so that unit
// `upgradable` can import that contract instead of restating it.  Pure `open spec fn` definitions, no assumption.
// Needs in scope: the extracted `Rewind`, `HttpProtocol`, `ReadVersion` (same `//@ struct` / `//@ enum` directives in both
// units), `hyper::rt::Read` (prelude/sniff_hyper_rt.rs), `cells_hold` (prelude/sniff_cells.rs), `bytes::Bytes`
// (prelude/sniff_bytes.rs).
// =============================================================================
/// the bytes a `Rewind` still replays before it turns to its inner reader
pub open spec fn rw_prefix<R>(rw: Rewind<R>) -> Seq<u8> {
    match rw.prefix { Some(p) => p@, None => Seq::empty() }
}

/// The HTTP/2 client connection preface, RFC 9113 section 3.4:
///   "PRI * HTTP/2.0\r\n\r\nSM\r\n\r\n"  =  0x505249202a20485454502f322e300d0a0d0a534d0d0a0d0a
/// written here from the RFC text, independently of the constant in the code.
pub open spec fn preface() -> Seq<u8> {
    seq![0x50u8, 0x52, 0x49, 0x20, 0x2a, 0x20, 0x48, 0x54, 0x54, 0x50, 0x2f, 0x32, 0x2e, 0x30,
         0x0d, 0x0a, 0x0d, 0x0a, 0x53, 0x4d, 0x0d, 0x0a, 0x0d, 0x0a]
}

/// "the client's byte stream begins with the HTTP/2 connection preface"
pub open spec fn begins_with_preface(s: Seq<u8>) -> bool {
    s.len() >= 24 && s.take(24) == preface()
}

/// the bytes sniffed so far: the last `filled` bytes the reader delivered
/// (free functions over the fields: `self.buf` is mutably borrowed by the ReadBuf during `poll`)
pub open spec fn sniffed_of<I: Read>(io: Option<I>, filled: usize) -> Seq<u8> {
    let c = io->0.consumed();
    c.skip(c.len() - filled)
}
/// the client's byte stream as seen from the start of sniffing: sniffed bytes, then what is still to come
pub open spec fn stream_of<I: Read>(io: Option<I>, filled: usize) -> Seq<u8> {
    sniffed_of(io, filled) + io->0.remaining()
}
impl<I: Read> ReadVersion<I> {
    pub open spec fn sniffed(&self) -> Seq<u8> { sniffed_of(self.io, self.filled) }
    pub open spec fn stream(&self) -> Seq<u8> { stream_of(self.io, self.filled) }
    /// state invariant between polls (`sniff_inv`)
    pub open spec fn inv(&self) -> bool {
        &&& self.io is Some
        &&& self.filled <= 24
        &&& self.filled <= self.io->0.consumed().len()
        &&& cells_hold(self.buf@, self.sniffed())
        &&& self.version == HttpProtocol::Http2
        &&& self.sniffed() == preface().take(self.filled as int)
    }
}
