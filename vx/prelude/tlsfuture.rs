// =============================================================================
// TRUSTED PRELUDE (unit `tlsfuture`): what the two connect futures of client/conn/transport
// (`tls::future::TlsConnectionFuture`, `future::TransportBraidFuture`) and the handshake glue of
// client/conn/stream stand on.  Hand-written, never generated from the repository; every
// `external_body`, `assume_specification`, `axiom` and `uninterp` item is an assumption listed in
// the evidence file (trusted_base).  Pin is erased (R5/R6/R6e).
//
// Model of a future / of a handshake: a stream of poll results.
//   next()  prophecy: what the next poll returns          last()  what the most recent poll returned
//   polls() how often it was polled                        fid()   ghost identity given at creation
// (the same model as prelude/connector.rs; repeated here because that file cannot be included
// without the http stand-ins of unit `connector`)
// =============================================================================

// ---- std ----
#[verifier::external_type_specification]
#[verifier::external_body]
pub struct ExContext<'a>(std::task::Context<'a>);
#[verifier::reject_recursive_types(T)]
#[verifier::external_type_specification]
pub struct ExPoll<T>(std::task::Poll<T>);
#[verifier::external_type_specification]
#[verifier::external_body]
pub struct ExIoError(std::io::Error);

/// `std::mem::replace` (R6r rewrites pin_project's `project_replace` to it)
pub assume_specification<T> [std::mem::replace] (dest: &mut T, src: T) -> (r: T)
    ensures r == *old(dest), *final(dest) == src;

/// `Poll<Result<T, E>>::map_ok` / `map_err`: the function is applied to the Ok / Err value of a Ready result
/// (through the function's own contract), everything else is passed through unchanged
pub assume_specification<T, E, U, F: FnOnce(T) -> U> [std::task::Poll::<Result<T, E>>::map_ok] (p: std::task::Poll<Result<T, E>>, f: F) -> (r: std::task::Poll<Result<U, E>>)
    requires
        p matches std::task::Poll::Ready(Ok(v)) ==> f.requires((v,)),
    ensures
        p is Pending ==> r is Pending,
        p matches std::task::Poll::Ready(Err(e)) ==> r == std::task::Poll::<Result<U, E>>::Ready(Err(e)),
        p matches std::task::Poll::Ready(Ok(v)) ==> (r matches std::task::Poll::Ready(Ok(u)) && f.ensures((v,), u));
pub assume_specification<T, E, U, F: FnOnce(E) -> U> [std::task::Poll::<Result<T, E>>::map_err] (p: std::task::Poll<Result<T, E>>, f: F) -> (r: std::task::Poll<Result<T, U>>)
    requires
        p matches std::task::Poll::Ready(Err(e)) ==> f.requires((e,)),
    ensures
        p is Pending ==> r is Pending,
        p matches std::task::Poll::Ready(Ok(v)) ==> r == std::task::Poll::<Result<T, U>>::Ready(Ok(v)),
        p matches std::task::Poll::Ready(Err(e)) ==> (r matches std::task::Poll::Ready(Err(u)) && f.ensures((e,), u));

/// `rustls::pki_types::ServerName::try_from(h)` is `Ok` (same predicate as in prelude/tls.rs): deliberately
/// uninterpreted, no axiom says that any particular text is accepted
pub uninterp spec fn is_server_name(h: Seq<char>) -> bool;

/// std::future::Future after Pin erasure.  Polling a future that has returned Ready is outside the trait's
/// contract (the futures met here panic): the precondition makes it a proof obligation of every caller.
pub trait Future {
    type Output;
    /// ghost identity: given by whoever created the future, never changed by `poll`
    spec fn fid(&self) -> int;
    spec fn polls(&self) -> nat;
    /// result of the most recent poll (`None`: never polled)
    spec fn last(&self) -> Option<Poll<Self::Output>>;
    /// prophecy: result of the next poll
    spec fn next(&self) -> Poll<Self::Output>;

    fn poll(&mut self, cx: &mut Context<'_>) -> (r: Poll<Self::Output>)
        requires
            !(old(self).last() matches Some(Poll::Ready(_))),
        ensures
            r == old(self).next(),
            final(self).fid() == old(self).fid(),
            final(self).polls() == old(self).polls() + 1,
            final(self).last() == Some(r);
}
/// the future has completed: it must not be polled again
pub open spec fn fut_done<F: Future>(f: F) -> bool {
    f.last() matches Some(Poll::Ready(_))
}

// ---- rustls / tracing / tokio: only named ----
pub mod rustls {
    use super::*;
    #[verifier::external_body]
    pub struct ClientConfig { _p: () }
    pub mod client {
        pub use super::ClientConfig;
    }
}
pub mod tracing {
    #[verifier::external_body]
    pub struct Span { _p: () }
}
pub mod tokio {
    pub mod io {
        /// marker stand-ins: the extracted items only name these traits in bounds
        pub trait AsyncRead {}
        pub trait AsyncWrite {}
    }
}

// ---- the crate's own items that are not extracted ----
/// `crate::info::ConnectionInfo<Addr>` (addresses of a stream; only used for a trace line here)
#[verifier::external_body]
#[verifier::reject_recursive_types(A)]
pub struct ConnectionInfo<A> { _p: PhantomData<A> }
/// `crate::info::HasConnectionInfo`
pub trait HasConnectionInfo {
    type Addr;
    fn info(&self) -> ConnectionInfo<Self::Addr>;
}

/// `crate::client::conn::transport::Transport`: only its associated types are used by the two futures; the connect
/// future obeys the `Future` model
pub trait Transport: Send {
    type IO: HasConnectionInfo + Send + 'static;
    type Error;
    type Future: Future<Output = Result<Self::IO, <Self as Transport>::Error>>;
}

/// `crate::stream::tls::TlsHandshakeStream` (Pin-free in the source): a handshake is a stream of poll results.
/// `handshaken()`: some `poll_handshake` of this stream has returned `Ready(Ok(()))` - "the stream has completed
/// a TLS handshake".  Polling again after the handshake FAILED is outside the contract (tokio-rustls panics:
/// "unexpected polling after handshake").
pub trait TlsHandshakeStream: Sized {
    /// prophecy: result of the next `poll_handshake`
    spec fn hs_next(&self) -> Poll<Result<(), std::io::Error>>;
    /// result of the most recent `poll_handshake` (`None`: never polled)
    spec fn hs_last(&self) -> Option<Poll<Result<(), std::io::Error>>>;
    spec fn hs_polls(&self) -> nat;
    spec fn handshaken(&self) -> bool;
    /// `post` is the same session as `pre` (what the handshake was created with is never changed by driving it)
    spec fn same_session(pre: Self, post: Self) -> bool;

    fn poll_handshake(&mut self, cx: &mut Context<'_>) -> (r: Poll<Result<(), std::io::Error>>)
        requires
            !(old(self).hs_last() matches Some(Poll::Ready(Err(_)))),
        ensures
            r == old(self).hs_next(),
            final(self).hs_last() == Some(r),
            final(self).hs_polls() == old(self).hs_polls() + 1,
            final(self).handshaken() == (old(self).handshaken() || (r matches Poll::Ready(Ok(_)))),
            Self::same_session(*old(self), *final(self));
}
/// one `poll_handshake` (the postcondition above as a predicate)
pub open spec fn hs_step<S: TlsHandshakeStream>(pre: S, post: S, r: Poll<Result<(), std::io::Error>>) -> bool {
    &&& r == pre.hs_next()
    &&& post.hs_last() == Some(r)
    &&& post.hs_polls() == pre.hs_polls() + 1
    &&& post.handshaken() == (pre.handshaken() || (r matches Poll::Ready(Ok(_))))
    &&& S::same_session(pre, post)
}
/// the handshake may be polled
pub open spec fn hs_live<S: TlsHandshakeStream>(s: S) -> bool {
    !(s.hs_last() matches Some(Poll::Ready(Err(_))))
}

/// `crate::client::conn::stream::tls::TlsStream<IO>`: the client TLS session over `IO` with a delayed handshake.
/// (`TlsStream::new` is verified in unit `tls`: tls.new.sni / tls.new.valid_name - the name given is the name
/// offered and checked, nothing is written before the handshake is driven.)
#[verifier::external_body]
#[verifier::reject_recursive_types(IO)]
pub struct TlsStream<IO: HasConnectionInfo> { _p: PhantomData<IO> }

impl<IO: HasConnectionInfo> TlsStream<IO> {
    /// creation record: the server name offered in the ClientHello and checked against the certificate
    pub uninterp spec fn sni(&self) -> Seq<char>;
    /// creation record: the TLS configuration of the session
    pub uninterp spec fn config(&self) -> Arc<rustls::ClientConfig>;
    /// creation record: the transport stream the session runs over
    pub uninterp spec fn over(&self) -> IO;
    pub uninterp spec fn m_hs_next(&self) -> Poll<Result<(), std::io::Error>>;
    pub uninterp spec fn m_hs_last(&self) -> Option<Poll<Result<(), std::io::Error>>>;
    pub uninterp spec fn m_hs_polls(&self) -> nat;
    pub uninterp spec fn m_handshaken(&self) -> bool;
}

impl<IO> TlsStream<IO>
where
    IO: HasConnectionInfo + tokio::io::AsyncRead + tokio::io::AsyncWrite + Unpin,
    IO::Addr: Clone,
{
    /// panics (`.expect("should be valid dns name")`) unless `domain` is a server name
    #[verifier::external_body]
    pub fn new(stream: IO, domain: &str, config: Arc<rustls::ClientConfig>) -> (r: Self)
        requires
            is_server_name(domain@),
        ensures
            // creation records: checked against the contract unit `tls` proves for `TlsStream::new` (tls.new.sni) by the
            // refinement wrapper `//@ refine link.tlsfuture.tls_stream_new` in units/tls.vxu, where `sni()` / `config()` /
            // `over()` are DEFINED over the real struct (the `tokio_rustls::Connect` held in state `Handshake`)
            r.sni() == domain@,
            r.config() == config,
            r.over() == stream,
            // ---- NOT REFINED (no unit proves it): convention of the handshake model of this file - a session that has just
            // been created has no `poll_handshake` history.  (Unit tls proves `state is Handshake && tls is None`: the
            // handshake has not started; `m_hs_*` are history variables of the ASSUMED `poll_handshake` below.)
            r.m_hs_polls() == 0 && r.m_hs_last() is None && !r.m_handshaken(),
    { unimplemented!() }
}

impl<IO: HasConnectionInfo> TlsHandshakeStream for TlsStream<IO> {
    open spec fn hs_next(&self) -> Poll<Result<(), std::io::Error>> { self.m_hs_next() }
    open spec fn hs_last(&self) -> Option<Poll<Result<(), std::io::Error>>> { self.m_hs_last() }
    open spec fn hs_polls(&self) -> nat { self.m_hs_polls() }
    open spec fn handshaken(&self) -> bool { self.m_handshaken() }
    open spec fn same_session(pre: Self, post: Self) -> bool {
        post.sni() == pre.sni() && post.config() == pre.config() && post.over() == pre.over()
    }
    #[verifier::external_body]
    fn poll_handshake(&mut self, cx: &mut Context<'_>) -> (r: Poll<Result<(), std::io::Error>>)
    { unimplemented!() }
}

impl<IO: HasConnectionInfo> HasConnectionInfo for TlsStream<IO>
where
    IO::Addr: Clone,
{
    type Addr = IO::Addr;
    #[verifier::external_body]
    fn info(&self) -> ConnectionInfo<IO::Addr> { unimplemented!() }
}
/// marker only (Pin is erased): lets the `Tls: TlsHandshakeStream + Unpin` bound of `TlsBraid::poll_handshake` resolve
impl<IO: HasConnectionInfo> Unpin for TlsStream<IO> {}
