// =============================================================================
// TRUSTED PRELUDE (pool unit): stand-ins for tokio / parking_lot / the crate's
// own traits.  Hand-written; every item is an assumption listed in evidence.
// =============================================================================

// `Token` derives Hash + Eq structurally over Option<NonZeroUsize>.
pub broadcast axiom fn axiom_token_key_model()
    ensures #[trigger] vstd::std_specs::hash::obeys_key_model::<Token>();

// ---- abstract clock (machine Instant/Duration treated as mathematical integers) ----
#[verifier::external_type_specification]
#[verifier::external_body]
pub struct ExInstant(Instant);

pub uninterp spec fn inst(i: Instant) -> int;      // nanoseconds on an abstract monotone clock
pub uninterp spec fn nanos(d: Duration) -> int;    // length of a duration, >= 0
pub open spec fn f64_pos(x: f64) -> bool {         // x > 0.0 as the exec comparison sees it
    x.partial_cmp_spec(&0.0f64) == Some(std::cmp::Ordering::Greater)
}
pub broadcast axiom fn axiom_f64_cmp()              // exec `<`/`>` on f64 is the function partial_cmp_spec
    ensures #[trigger] <f64 as vstd::std_specs::cmp::PartialOrdSpec<f64>>::obeys_partial_cmp_spec();
pub uninterp spec fn inst_min() -> int;            // the earliest representable Instant
pub broadcast axiom fn axiom_inst_min(i: Instant) ensures #[trigger] inst(i) >= inst_min();
pub uninterp spec fn clock_now() -> int;           // ghost: the reading of the clock "at this pop"

pub broadcast axiom fn axiom_nanos_nonneg(d: Duration) ensures #[trigger] nanos(d) >= 0;

pub assume_specification [Instant::now] () -> (r: Instant)
    ensures inst(r) == clock_now();
pub assume_specification [Instant::checked_sub] (i: &Instant, d: Duration) -> (r: Option<Instant>)
    ensures
        r is Some ==> inst(r->0) == inst(*i) - nanos(d),
        r is None ==> inst(*i) - nanos(d) < inst_min();
pub assume_specification [Duration::as_secs_f64] (d: &Duration) -> (r: f64)
    ensures f64_pos(r) <==> nanos(*d) > 0;
pub assume_specification [<Instant as PartialEq>::eq] (a: &Instant, b: &Instant) -> (r: bool);
pub assume_specification [<Instant as PartialOrd>::partial_cmp] (a: &Instant, b: &Instant) -> (r: Option<std::cmp::Ordering>);
pub broadcast axiom fn axiom_instant_ord(a: Instant, b: Instant)
    ensures
        <Instant as vstd::std_specs::cmp::PartialOrdSpec<Instant>>::obeys_partial_cmp_spec(),
        #[trigger] a.partial_cmp_spec(&b) == (if inst(a) < inst(b) { Some(std::cmp::Ordering::Less) } else if inst(a) == inst(b) { Some(std::cmp::Ordering::Equal) } else { Some(std::cmp::Ordering::Greater) });
pub assume_specification<T, P: FnOnce(&T) -> bool> [Option::<T>::filter] (o: Option<T>, p: P) -> (r: Option<T>)
    requires o is Some ==> p.requires((&o->0,)),
    ensures
        o is None ==> r is None,
        o is Some ==> (exists|b: bool| p.ensures((&o->0,), b) && r == (if b { o } else { None::<T> }));

// ---- the crate's connection traits (signatures as in /repo; contracts assumed for
//      user implementors, verified for HttpConnection in unit `conn`) ----
pub trait Connection<B> {
    type Error;

    /// ghost identity of the underlying transport stream
    spec fn id(&self) -> int;
    /// ghost: may be multiplexed
    spec fn shareable(&self) -> bool;
    /// ghost: ready for the next request (previous exchange finished, not closed)
    spec fn open_now(&self) -> bool;

    /// ghost: the last `poll_ready` reported the previous exchange finished (Ready)
    spec fn settled(&self) -> bool;

    fn poll_ready(&mut self, cx: &mut std::task::Context<'_>) -> (r: std::task::Poll<Result<(), Self::Error>>)
        ensures
            final(self).id() == old(self).id(),
            final(self).shareable() == old(self).shareable(),
            (r is Ready) == final(self).settled();
}

pub trait PoolableConnection<B>: Connection<B> + Unpin + Send + Sized + 'static
where
    B: Send + 'static,
{
    fn is_open(&self) -> (r: bool)
        ensures r == self.open_now();

    fn can_share(&self) -> (r: bool)
        ensures r == self.shareable();

    fn reuse(&mut self) -> (r: Option<Self>)
        ensures
            final(self).id() == old(self).id(),
            final(self).shareable() == old(self).shareable(),
            final(self).open_now() == old(self).open_now(),
            r is Some <==> old(self).shareable(),
            r is Some ==> r->0.id() == old(self).id() && r->0.shareable() && r->0.open_now() == old(self).open_now();
}

// ---- tokio::sync::oneshot::Sender ----
#[verifier::external_body]
#[verifier::reject_recursive_types(T)]
pub struct Sender<T> { inner: std::marker::PhantomData<T> }

/// prophecy: what the receiving end of channel `id` gets (a sender is consumed by `send`,
/// so each channel carries at most one value)
pub uninterp spec fn delivered<T>(id: int) -> Option<T>;
/// prophecy: the receiving end of channel `id` is (or will be) gone without a value
pub uninterp spec fn dead(id: int) -> bool;

/// a channel whose receiver is gone never carries a value
pub broadcast axiom fn axiom_dead_not_delivered<T>(id: int)
    requires dead(id),
    ensures #[trigger] delivered::<T>(id) is None;

impl<T> Sender<T> {
    pub uninterp spec fn id(&self) -> int;

    #[verifier::external_body]
    pub fn is_closed(&self) -> (r: bool)
        ensures r ==> dead(self.id())
    { unimplemented!() }

    #[verifier::external_body]
    pub fn send(self, t: T) -> (r: Result<(), T>)
        ensures
            r is Err ==> r->Err_0 == t && dead(self.id()),
            r is Ok ==> delivered::<T>(self.id()) == Some(t),
    { unimplemented!() }
}
