// =============================================================================
// TRUSTED PRELUDE (unit `upgradable`, part 1): hyper's server connection builders and connection futures
// (http1 / http2) as stand-ins with ghost attributes, the marker traits the extracted text names, std::io
// bits, `Poll::map_err`.  (`mod hyper`: prelude/upgradable_hyper.rs.)  Used together with prelude/accept_task.rs, prelude/shutdown.rs (event history `Ev`,
// `Future`, `Connection`), prelude/serving.rs (`From<T> for T`, `BoxError`, `Body`) and prelude/sniff_bytes.rs.
// Hand-written; every item is an assumption listed in evidence.
// =============================================================================
#[verifier::external_type_specification]
pub struct ExErrorKind(std::io::ErrorKind);
/// the `kind()` of an io::Error (same model as prelude/sniff_io.rs)
pub uninterp spec fn err_kind(e: std::io::Error) -> std::io::ErrorKind;

/// `Poll<Result<T, E>>::map_err` (std): maps the error of a ready result, everything else passes through
pub assume_specification<T, E, U, F: FnOnce(E) -> U> [std::task::Poll::<Result<T, E>>::map_err] (p: Poll<Result<T, E>>, f: F) -> (r: Poll<Result<T, U>>)
    requires p matches Poll::Ready(Err(e)) ==> f.requires((e,)),
    ensures match p {
        Poll::Ready(Ok(t)) => r == Poll::<Result<T, U>>::Ready(Ok(t)),
        Poll::Ready(Err(e)) => (r matches Poll::Ready(Err(u)) && f.ensures((e,), u)),
        Poll::Pending => r is Pending,
    };

/// `bridge::rt::TokioExecutor` (default type argument of `Builder`)
#[verifier::external_body]
pub struct TokioExecutor { _p: PhantomData<u8> }

// `pub mod hyper { .. }`: opened in the unit text (prelude/upgradable_hyper.rs + prelude/sniff_hyper_rt.rs for `hyper::rt`)
/// `std::io::IoSlice` (named by the `Write` stand-in trait of prelude/sniff_hyper_rt.rs)
#[verifier::external_type_specification]
#[verifier::external_body]
pub struct ExIoSlice<'a>(std::io::IoSlice<'a>);

// ---- hyper::server::conn::http1 ----
// Ghost attributes of a connection future: `io()` the transport it reads the client's bytes from, `service()`
// the service it answers with, `made_by()` the builder (configuration) that made it, the event history of
// prelude/shutdown.rs.  Polling / graceful_shutdown never change the first three.
pub mod http1 {
    use super::*;
    #[verifier::external_body]
    pub struct Builder { _p: PhantomData<u8> }
    #[verifier::external_body]
    #[verifier::reject_recursive_types(I)]
    #[verifier::reject_recursive_types(S)]
    pub struct Connection<I, S> { _p: PhantomData<(I, S)> }
    #[verifier::external_body]
    #[verifier::reject_recursive_types(I)]
    #[verifier::reject_recursive_types(S)]
    pub struct UpgradeableConnection<I, S> { _p: PhantomData<(I, S)> }

    impl Builder {
        #[verifier::external_body]
        pub fn serve_connection<I, S>(&self, io: I, service: S) -> (r: Connection<I, S>)
            ensures r.io() == io, r.service() == service, r.made_by() == *self
        { unimplemented!() }
    }
    impl<I, S> Connection<I, S> {
        pub uninterp spec fn io(&self) -> I;
        pub uninterp spec fn service(&self) -> S;
        pub uninterp spec fn made_by(&self) -> Builder;
        /// `with_upgrades`: the same connection, able to hand the transport over on an HTTP upgrade; fresh
        #[verifier::external_body]
        pub fn with_upgrades(self) -> (r: UpgradeableConnection<I, S>)
            ensures r.io() == self.io(), r.service() == self.service(), r.made_by() == self.made_by(), r.log() == Seq::<Ev>::empty()
        { unimplemented!() }
    }
    impl<I, S> UpgradeableConnection<I, S> {
        pub uninterp spec fn io(&self) -> I;
        pub uninterp spec fn service(&self) -> S;
        pub uninterp spec fn made_by(&self) -> Builder;
        pub uninterp spec fn history(&self) -> Seq<Ev>;
    }
    impl<I, S> Ghosted for UpgradeableConnection<I, S> {
        open spec fn log(&self) -> Seq<Ev> { self.history() }
    }
    impl<I, S> Future for UpgradeableConnection<I, S> {
        type Output = Result<(), hyper::Error>;
        #[verifier::external_body]
        fn poll(&mut self, cx: &mut Context<'_>) -> (r: Poll<Result<(), hyper::Error>>)
            ensures final(self).io() == old(self).io(), final(self).service() == old(self).service(), final(self).made_by() == old(self).made_by()
        { unimplemented!() }
    }
    impl<I, S> super::Connection for UpgradeableConnection<I, S> {
        /// hyper's `http1::UpgradeableConnection::graceful_shutdown`
        #[verifier::external_body]
        fn graceful_shutdown(&mut self)
            ensures final(self).io() == old(self).io(), final(self).service() == old(self).service(), final(self).made_by() == old(self).made_by()
        { unimplemented!() }
    }
}

// ---- hyper::server::conn::http2 ----
pub mod http2 {
    use super::*;
    #[verifier::external_body]
    #[verifier::reject_recursive_types(E)]
    pub struct Builder<E> { _p: PhantomData<E> }
    #[verifier::external_body]
    #[verifier::reject_recursive_types(I)]
    #[verifier::reject_recursive_types(S)]
    #[verifier::reject_recursive_types(E)]
    pub struct Connection<I, S, E> { _p: PhantomData<(I, S, E)> }

    impl<E> Builder<E> {
        #[verifier::external_body]
        pub fn serve_connection<I, S>(&self, io: I, service: S) -> (r: Connection<I, S, E>)
            ensures r.io() == io, r.service() == service, r.made_by() == *self, r.log() == Seq::<Ev>::empty()
        { unimplemented!() }
    }
    impl<I, S, E> Connection<I, S, E> {
        pub uninterp spec fn io(&self) -> I;
        pub uninterp spec fn service(&self) -> S;
        pub uninterp spec fn made_by(&self) -> Builder<E>;
        pub uninterp spec fn history(&self) -> Seq<Ev>;
    }
    impl<I, S, E> Ghosted for Connection<I, S, E> {
        open spec fn log(&self) -> Seq<Ev> { self.history() }
    }
    impl<I, S, E> Future for Connection<I, S, E> {
        type Output = Result<(), hyper::Error>;
        #[verifier::external_body]
        fn poll(&mut self, cx: &mut Context<'_>) -> (r: Poll<Result<(), hyper::Error>>)
            ensures final(self).io() == old(self).io(), final(self).service() == old(self).service(), final(self).made_by() == old(self).made_by()
        { unimplemented!() }
    }
    impl<I, S, E> super::Connection for Connection<I, S, E> {
        /// hyper's `http2::Connection::graceful_shutdown`
        #[verifier::external_body]
        fn graceful_shutdown(&mut self)
            ensures final(self).io() == old(self).io(), final(self).service() == old(self).service(), final(self).made_by() == old(self).made_by()
        { unimplemented!() }
    }
}
