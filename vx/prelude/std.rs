// =============================================================================
// TRUSTED PRELUDE (std): assumed contracts on std items that vstd does not cover.
// Hand-written, never generated from /repo.  Every `assume_specification`,
// `external_body`, `axiom` and `uninterp` below is an assumption reported in the
// evidence files (trusted_base).
// =============================================================================

// ---- HashMap::get_mut (prophecy form: `*final(v)` is the value when the borrow ends) ----
pub uninterp spec fn get_mut_some<K, V, Q: ?Sized>(pre: Map<K, V>, post: Map<K, V>, k: &Q, cur: V, fin: V) -> bool;
pub uninterp spec fn get_mut_none<K, V, Q: ?Sized>(pre: Map<K, V>, post: Map<K, V>, k: &Q) -> bool;
pub broadcast axiom fn axiom_get_mut_some<K, V>(pre: Map<K, V>, post: Map<K, V>, k: &K, cur: V, fin: V)
    ensures #[trigger] get_mut_some::<K, V, K>(pre, post, k, cur, fin) <==> (pre.contains_key(*k) && cur == pre[*k] && post == pre.insert(*k, fin));
pub broadcast axiom fn axiom_get_mut_none<K, V>(pre: Map<K, V>, post: Map<K, V>, k: &K)
    ensures #[trigger] get_mut_none::<K, V, K>(pre, post, k) <==> (!pre.contains_key(*k) && post == pre);
pub assume_specification<'a, K, V, S, A, Q>[HashMap::<K,V,S,A>::get_mut](m: &'a mut HashMap<K,V,S,A>, k: &Q) -> (r: Option<&'a mut V>)
    where A: std::alloc::Allocator, K: std::cmp::Eq + std::hash::Hash + std::borrow::Borrow<Q>, Q: std::marker::MetaSized + std::hash::Hash + std::cmp::Eq + ?Sized, S: std::hash::BuildHasher
    ensures
        vstd::std_specs::hash::obeys_key_model::<K>() && vstd::std_specs::hash::builds_valid_hashers::<S>() ==> match r {
            Some(v) => get_mut_some(old(m)@, final(m)@, k, *v, *final(v)),
            None => get_mut_none(old(m)@, final(m)@, k),
        };

// ---- Entry::or_default (vstd models Entry with value()/final_value(); or_insert is in vstd) ----
pub uninterp spec fn default_value<V>() -> V;
pub assume_specification<'a, K, V: std::default::Default>[std::collections::hash_map::Entry::<'a, K, V>::or_default](e: std::collections::hash_map::Entry<'a, K, V>) -> (r: &'a mut V)
    ensures
        *r == (match e.value() { Some(v) => v, None => default_value::<V>() }),
        e.final_value() == Some(*final(r));
pub broadcast axiom fn axiom_default_vecdeque<T>()
    ensures (#[trigger] default_value::<VecDeque<T>>())@ == Seq::<T>::empty();

// ---- std::task ----
#[verifier::external_type_specification]
#[verifier::external_body]
pub struct ExContext<'a>(std::task::Context<'a>);

#[verifier::reject_recursive_types(T)]
#[verifier::external_type_specification]
pub struct ExPoll<T>(std::task::Poll<T>);

// ---- Option combinators missing from vstd (closure results through the closure's own contract) ----
pub assume_specification<T, U, F: FnOnce(T) -> U> [Option::<T>::map_or] (o: Option<T>, default: U, f: F) -> (r: U)
    requires o is Some ==> f.requires((o->0,)),
    ensures
        o is None ==> r == default,
        o is Some ==> f.ensures((o->0,), r);
pub assume_specification<T, F: FnOnce(T) -> bool> [Option::<T>::is_some_and] (o: Option<T>, f: F) -> (r: bool)
    requires o is Some ==> f.requires((o->0,)),
    ensures
        o is None ==> !r,
        o is Some ==> f.ensures((o->0,), r);
