// =============================================================================
// TRUSTED PRELUDE (units `sniff`, `bridge`), part 1: std::task / std::io bits, byte
// slices, `min`, `to_vec`.  Part 2 (pure spec fns about raw memory): prelude/sniff_cells.rs;
// part 3 (hyper's ReadBuf / ReadBufCursor and the `Read` / `Write` stand-in traits, the
// contents of `hyper::rt`): prelude/sniff_hyper_rt.rs - both shared with unit `upgradable`.
// Hand-written; every item is an assumption listed in the evidence file.
// =============================================================================

// ---- std::task ----
#[verifier::external_type_specification]
#[verifier::external_body]
pub struct ExContext<'a>(std::task::Context<'a>);
#[verifier::reject_recursive_types(T)]
#[verifier::external_type_specification]
pub struct ExPoll<T>(std::task::Poll<T>);

// ---- std::io::Error / ErrorKind -------------------------------------------------
#[verifier::external_type_specification]
#[verifier::external_body]
pub struct ExIoError(std::io::Error);
#[verifier::external_type_specification]
pub struct ExErrorKind(std::io::ErrorKind);
#[verifier::external_type_specification]
#[verifier::external_body]
pub struct ExIoSlice<'a>(std::io::IoSlice<'a>);

/// the `kind()` of an io::Error
pub uninterp spec fn err_kind(e: std::io::Error) -> std::io::ErrorKind;
pub assume_specification [<std::io::Error as From<std::io::ErrorKind>>::from] (k: std::io::ErrorKind) -> (e: std::io::Error)
    ensures err_kind(e) == k;

// `?` on a `Result<_, E>` inside a fn returning `Poll<Result<_, F>>`: returns `Ready(Err(_))`
pub assume_specification<T, E, F> [<std::task::Poll<std::result::Result<T, F>> as std::ops::FromResidual<std::result::Result<std::convert::Infallible, E>>>::from_residual] (r: std::result::Result<std::convert::Infallible, E>) -> (p: std::task::Poll<std::result::Result<T, F>>)
    where F: std::convert::From<E>
    ensures p matches std::task::Poll::Ready(Err(_));

// ---- byte slices ------------------------------------------------------------------
/// `==` / `!=` on `[u8]` is element-wise equality
pub broadcast axiom fn axiom_u8_slice_eq(a: &[u8], c: &[u8])
    ensures
        <[u8] as vstd::std_specs::cmp::PartialEqSpec<[u8]>>::obeys_eq_spec(),
        #[trigger] <[u8] as vstd::std_specs::cmp::PartialEqSpec<[u8]>>::eq_spec(a, c) <==> a@ == c@;

/// `std::cmp::min` (generic over `Ord`; its meaning is fixed for `usize` only)
pub uninterp spec fn min_spec<T>(a: T, b: T) -> T;
pub assume_specification<T: std::cmp::Ord> [std::cmp::min] (a: T, b: T) -> (r: T)
    ensures r == min_spec(a, b);
pub broadcast axiom fn axiom_min_usize(a: usize, b: usize)
    ensures #[trigger] min_spec(a, b) == (if a <= b { a } else { b });

pub assume_specification<T: Clone> [<[T]>::to_vec] (a: &[T]) -> (r: Vec<T>)
    ensures r@.len() == a@.len(), forall|i: int| 0 <= i < a@.len() ==> cloned(#[trigger] a@[i], r@[i]);
