// =============================================================================
// TRUSTED PRELUDE (unit `addrsort`): assumptions on std for `SocketAddrs::{sort_preferred, set_port, pop, len, is_empty}`,
// `IpVersion::from_binding`, `<SocketAddr as IpVersionExt>::version` (src/client/conn/dns.rs) and
// `TcpTransport::connecting` (src/client/conn/transport/tcp.rs).  Hand-written, never generated from /repo.  Every
// `external_body`, `assume_specification`, `axiom`, `uninterp` item is an assumption listed in the evidence (trusted_base).
// `VecDeque::{len, index, index_mut, remove, push_front, pop_front}` are vstd's own specifications over the `Seq` view
// (vstd/std_specs/vecdeque.rs): `remove(i)` yields `Some(old[i])` and deletes position i when i < len, else `None` and no
// change; `push_front(x)` makes the view `seq![x] + old`.
// =============================================================================

// ---- std::net::SocketAddr: the enum AS IT IS in std (`enum SocketAddr { V4(SocketAddrV4), V6(SocketAddrV6) }`), so that
// the crate's `version()` (a match on the two variants) is verified text and "family" is `a is V4` / `a is V6`; the two
// payload types stay opaque ----
#[verifier::external_type_specification]
#[verifier::external_body]
pub struct ExSocketAddrV4(SocketAddrV4);
#[verifier::external_type_specification]
#[verifier::external_body]
pub struct ExSocketAddrV6(SocketAddrV6);
#[verifier::external_type_specification]
pub struct ExSocketAddr(SocketAddr);
#[verifier::external_type_specification]
#[verifier::external_body]
pub struct ExIpv4Addr(Ipv4Addr);
#[verifier::external_type_specification]
#[verifier::external_body]
pub struct ExIpv6Addr(Ipv6Addr);

/// the port of a socket address (`SocketAddr::port`)
pub uninterp spec fn port_of(a: SocketAddr) -> u16;
/// the address `a` with its port replaced by `p`
pub uninterp spec fn with_port(a: SocketAddr, p: u16) -> SocketAddr;
/// `SocketAddr::set_port(&mut self, p)` (std: "Changes the port number associated with this socket address") ...
pub assume_specification [SocketAddr::set_port] (a: &mut SocketAddr, p: u16)
    ensures *final(a) == with_port(*old(a), p);
/// ... the new port is `p` and the address stays in its family (it sets the port inside the V4 / V6 payload)
pub broadcast axiom fn axiom_with_port(a: SocketAddr, p: u16)
    ensures port_of(#[trigger] with_port(a, p)) == p && (with_port(a, p) is V4) == (a is V4);

// ---- Option combinators missing from vstd ----
/// `Option::zip`: `Some((a, b))` iff both are `Some`
pub assume_specification<T, U> [Option::<T>::zip] (a: Option<T>, b: Option<U>) -> (r: Option<(T, U)>)
    ensures r == (match (a, b) { (Some(x), Some(y)) => Some((x, y)), _ => None });
/// `Option::is_some_and(f)`: `false` for `None`, else the closure's verdict on the payload (through the closure's own contract)
pub assume_specification<T, F: FnOnce(T) -> bool> [Option::<T>::is_some_and] (o: Option<T>, f: F) -> (r: bool)
    requires o is Some ==> f.requires((o->0,)),
    ensures
        o is None ==> !r,
        o is Some ==> f.ensures((o->0,), r);
pub assume_specification<T, A: std::alloc::Allocator> [VecDeque::<T, A>::is_empty] (v: &VecDeque<T, A>) -> (r: bool)
    ensures r == (v@.len() == 0);

// ---- added after seeded change C16-r4m2 (`connecting` filters wildcard local addresses out of the arguments of
// `from_binding` with `Option::filter(|ip| !ip.is_unspecified())`): without these three the changed body leaves the
// verifier's subset (fn stubbed, conn.* undecided); with them it is verified text and `conn.sorted_list_is_used` is decided ----
/// `Ipv4Addr::is_unspecified` ("the special 'unspecified' address 0.0.0.0") - an uninterpreted attribute of the address:
/// nothing is assumed about WHICH addresses have it, only that the method is a function of the address
pub uninterp spec fn v4_is_unspecified(ip: Ipv4Addr) -> bool;
pub assume_specification [Ipv4Addr::is_unspecified] (ip: &Ipv4Addr) -> (r: bool)
    ensures r == v4_is_unspecified(*ip);
/// `Ipv6Addr::is_unspecified` ("the special 'unspecified' address ::")
pub uninterp spec fn v6_is_unspecified(ip: Ipv6Addr) -> bool;
pub assume_specification [Ipv6Addr::is_unspecified] (ip: &Ipv6Addr) -> (r: bool)
    ensures r == v6_is_unspecified(*ip);
/// `Option::filter(p)`: `None` stays `None`; `Some(x)` stays `Some(x)` iff the predicate accepts `&x` (through the
/// closure's own contract - a closure without one leaves the result undetermined, so nothing can be concluded from it)
pub assume_specification<T, P: FnOnce(&T) -> bool> [Option::<T>::filter] (o: Option<T>, p: P) -> (r: Option<T>)
    requires o is Some ==> p.requires((&o->0,)),
    ensures
        o is None ==> r is None,
        r is Some ==> r == o,
        o is Some ==> p.ensures((&o->0,), r is Some);
