// =============================================================================
// TRUSTED PRELUDE (shutdown unit, part 2 - after the extracted CloseSender / CloseReciever):
// the close future, its fused form, handle clones.
// =============================================================================
/// a clone of the receiving side of the shutdown channel watches the same channel
impl Clone for CloseReciever {
    #[verifier::external_body]
    fn clone(&self) -> (r: Self)
        ensures r == *self
    { unimplemented!() }
}
/// a clone of a `CloseSender` is another handle on the same channel; it is un-sent iff the original is
impl Clone for CloseSender {
    #[verifier::external_body]
    fn clone(&self) -> (r: Self)
        ensures r == *self
    { unimplemented!() }
}

/// A: `CloseFuture` = `Box::pin(async move { sender.closed().await })` (async block, `IntoFuture for CloseReciever`).
/// Assumed: a poll returns `Ready` exactly when it finds the channel closed (every `CloseSender` handle of that
/// channel has been `send()`-ed or dropped).
#[verifier::external_body]
pub struct CloseFuture { _p: PhantomData<u8> }
impl CloseFuture {
    /// ghost: the channel this future waits on
    pub uninterp spec fn watches(&self) -> CloseReciever;
    pub uninterp spec fn polls(&self) -> nat;
    /// ghost: the most recent poll found the channel closed
    pub uninterp spec fn saw_closed(&self) -> bool;

    #[verifier::external_body]
    pub fn poll(&mut self, cx: &mut Context<'_>) -> (r: Poll<()>)
        ensures
            final(self).watches() == old(self).watches(),
            final(self).polls() == old(self).polls() + 1,
            (r is Ready) == final(self).saw_closed(),
    { unimplemented!() }

    /// `FutureExt::fuse`
    #[verifier::external_body]
    pub fn fuse(self) -> (r: Fuse<CloseFuture>)
        ensures r.watches() == self.watches(), !r.fired()
    { unimplemented!() }
}
impl CloseReciever {
    /// `IntoFuture::into_future` (A: async block)
    #[verifier::external_body]
    pub fn into_future(self) -> (r: CloseFuture)
        ensures r.watches() == self
    { unimplemented!() }
}

/// `futures_util::future::Fuse<CloseFuture>`: yields `Ready` at most once - exactly when a poll finds the
/// channel closed and it has not fired yet; afterwards it is `Pending` forever (the inner future is gone).
#[verifier::external_body]
#[verifier::reject_recursive_types(F)]
pub struct Fuse<F> { _p: PhantomData<F> }
impl Fuse<CloseFuture> {
    pub uninterp spec fn watches(&self) -> CloseReciever;
    /// ghost: it has already returned `Ready` once
    pub uninterp spec fn fired(&self) -> bool;
    /// ghost: the most recent poll found the channel closed
    pub uninterp spec fn saw_closed(&self) -> bool;

    #[verifier::external_body]
    pub fn poll(&mut self, cx: &mut Context<'_>) -> (r: Poll<()>)
        ensures
            final(self).watches() == old(self).watches(),
            (r is Ready) <==> (!old(self).fired() && final(self).saw_closed()),
            final(self).fired() == (old(self).fired() || r is Ready),
    { unimplemented!() }
}
