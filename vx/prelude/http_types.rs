// =============================================================================
// TRUSTED PRELUDE (units `http`, `sni`): the `http` crate's value types as abstract
// stand-ins with accessor spec functions.  Hand-written, never generated from /repo.
// Every `external_body` / `uninterp` / `axiom` here is an assumption listed in evidence.
// Paths (`http::Version::HTTP_2`, `http::uri::Authority`, `header::HOST`, ...) resolve
// through the stand-in modules at the end of this file.
// =============================================================================

// ---- http::Version: five public constants, ordered 0.9 < 1.0 < 1.1 < 2 < 3 (the real type derives
//      PartialOrd over a private enum in exactly this order).  The model has more inhabitants than
//      the real type (any u8); contracts quantify over all of them, which is a superset.
#[derive(Clone, Copy, PartialEq, Eq, Structural)]
pub struct Version(pub u8);
impl Version {
    pub const HTTP_09: Version = Version(0);
    pub const HTTP_10: Version = Version(1);
    pub const HTTP_11: Version = Version(2);
    pub const HTTP_2: Version = Version(3);
    pub const HTTP_3: Version = Version(4);
}
impl PartialOrd for Version {
    #[verifier::external_body]
    fn partial_cmp(&self, o: &Version) -> Option<std::cmp::Ordering> { unimplemented!() }
}
pub broadcast axiom fn axiom_version_ord_obeys()
    ensures #[trigger] <Version as vstd::std_specs::cmp::PartialOrdSpec<Version>>::obeys_partial_cmp_spec();
pub broadcast axiom fn axiom_version_ord_spec(a: Version, b: Version)
    ensures
        #[trigger] a.partial_cmp_spec(&b) == (if a.0 < b.0 { Some(std::cmp::Ordering::Less) } else if a.0 == b.0 { Some(std::cmp::Ordering::Equal) } else { Some(std::cmp::Ordering::Greater) });
pub broadcast group axiom_version_ord { axiom_version_ord_obeys, axiom_version_ord_spec }

// ---- http::Method: an opaque token; `CONNECT` is one distinguished value ----
#[derive(PartialEq, Eq, Structural)]
pub struct Method(pub u64);
impl Method {
    pub const CONNECT: Method = Method(0);
    pub const GET: Method = Method(1);
}
impl Clone for Method {
    #[verifier::external_body]
    fn clone(&self) -> (r: Self) ensures r == *self { unimplemented!() }
}
/// `impl PartialEq<Method> for &Method` of the http crate (`req.method() == Method::CONNECT`)
impl<'a> PartialEq<Method> for &'a Method {
    #[verifier::external_body]
    fn eq(&self, o: &Method) -> bool { unimplemented!() }
}
pub broadcast axiom fn axiom_method_ref_eq_obeys()
    ensures #[trigger] <&Method as vstd::std_specs::cmp::PartialEqSpec<Method>>::obeys_eq_spec();
pub broadcast axiom fn axiom_method_ref_eq_spec(a: &Method, b: Method)
    ensures #[trigger] <&Method as vstd::std_specs::cmp::PartialEqSpec<Method>>::eq_spec(&a, &b) == (*a == b);
pub broadcast group axiom_method_ref_eq { axiom_method_ref_eq_obeys, axiom_method_ref_eq_spec }

// ---- http::uri::{Scheme, Authority, PathAndQuery}: opaque, compared as values ----
/// schemes are opaque tokens; `HTTP` and `HTTPS` are two distinguished values
#[derive(PartialEq, Eq, Structural)]
pub struct Scheme(pub u64);
impl Scheme {
    pub const HTTP: Scheme = Scheme(0);
    pub const HTTPS: Scheme = Scheme(1);
}
/// the derived `PartialEq` of Scheme is structural equality (used through `Option<&Scheme> == Option<&Scheme>`)
pub broadcast axiom fn axiom_scheme_eq_obeys()
    ensures #[trigger] <Scheme as vstd::std_specs::cmp::PartialEqSpec<Scheme>>::obeys_eq_spec();
pub broadcast axiom fn axiom_scheme_eq_spec(a: Scheme, b: Scheme)
    ensures #[trigger] a.eq_spec(&b) == (a == b);
pub broadcast group axiom_scheme_eq { axiom_scheme_eq_obeys, axiom_scheme_eq_spec }
impl Clone for Scheme {
    #[verifier::external_body]
    fn clone(&self) -> (r: Self) ensures r == *self { unimplemented!() }
}

#[verifier::external_body]
pub struct Authority { _p: () }
impl Authority {
    /// `Authority::host()`: the host part, port and userinfo stripped (IPv6 literals keep their brackets)
    pub uninterp spec fn host_s(&self) -> Seq<char>;
    /// the full text (`Display` / `as_str`)
    pub uninterp spec fn text(&self) -> Seq<char>;
    #[verifier::external_body]
    pub fn host(&self) -> (r: &str) ensures r@ == self.host_s() { unimplemented!() }
    /// `ToString` via `Display`
    #[verifier::external_body]
    pub fn to_string(&self) -> (r: String) ensures r@ == self.text() { unimplemented!() }
}
impl Clone for Authority {
    #[verifier::external_body]
    fn clone(&self) -> (r: Self) ensures r == *self { unimplemented!() }
}
/// `<Authority as FromStr>::from_str` as a function of the text: `None` = not a syntactically valid authority
pub uninterp spec fn parse_authority(s: Seq<char>) -> Option<Authority>;

#[verifier::external_body]
pub struct PathAndQuery { _p: () }
impl PathAndQuery {
    /// `PathAndQuery::as_str()` (which yields "/" for an empty path-and-query)
    pub uninterp spec fn text(&self) -> Seq<char>;
    #[verifier::external_body]
    pub fn as_str(&self) -> (r: &str) ensures r@ == self.text() { unimplemented!() }
}
impl Clone for PathAndQuery {
    #[verifier::external_body]
    fn clone(&self) -> (r: Self) ensures r == *self { unimplemented!() }
}

// ---- http::header::{HeaderName, HeaderValue}, http::HeaderMap ----
/// header names are opaque tokens (the real type is a case-normalised string)
#[derive(PartialEq, Eq, Structural)]
pub struct HeaderName(pub u8);
impl HeaderName {
    /// `HeaderName::from_static(s)`: a function of the text; distinct from every standard constant used
    /// here whenever the text differs (see `axiom_static_names`)
    pub uninterp spec fn of_static(s: Seq<char>) -> HeaderName;
    #[verifier::external_body]
    pub const fn from_static(s: &'static str) -> (r: HeaderName) ensures r == HeaderName::of_static(s@) { HeaderName(200u8.wrapping_add(s.len() as u8)) }
}
impl Clone for HeaderName {
    #[verifier::external_body]
    fn clone(&self) -> (r: Self) ensures r == *self { unimplemented!() }
}
/// `http::header::AsHeaderName` / `IntoHeaderName`: what may be used to index a HeaderMap
pub trait AsHeaderName {
    spec fn hname(&self) -> HeaderName;
}
impl AsHeaderName for HeaderName {
    open spec fn hname(&self) -> HeaderName { *self }
}
impl<'a> AsHeaderName for &'a HeaderName {
    open spec fn hname(&self) -> HeaderName { **self }
}

#[verifier::external_body]
pub struct HeaderValue { _p: () }
#[verifier::external_body]
pub struct ToStrError { _p: () }
impl HeaderValue {
    /// the value as text, `None` when it contains bytes outside visible ASCII
    pub uninterp spec fn str_s(&self) -> Option<Seq<char>>;
    #[verifier::external_body]
    pub fn to_str(&self) -> (r: Result<&str, ToStrError>)
        ensures
            r is Ok <==> self.str_s() is Some,
            r is Ok ==> r->Ok_0@ == self.str_s()->0,
    { unimplemented!() }
}

#[verifier::external_body]
pub struct HeaderMap { _p: () }
impl HeaderMap {
    /// first value stored under `n`
    pub uninterp spec fn get_s(&self, n: HeaderName) -> Option<HeaderValue>;
    #[verifier::external_body]
    pub fn get<K: AsHeaderName>(&self, k: K) -> (r: Option<&HeaderValue>)
        ensures
            r is Some <==> self.get_s(k.hname()) is Some,
            r is Some ==> *r->0 == self.get_s(k.hname())->0,
    { unimplemented!() }
    /// removes every value stored under `k`; all other names keep their values
    #[verifier::external_body]
    pub fn remove<K: AsHeaderName>(&mut self, k: K) -> (r: Option<HeaderValue>)
        ensures
            r == old(self).get_s(k.hname()),
            final(self).get_s(k.hname()) is None,
            forall|n: HeaderName| n != k.hname() ==> #[trigger] final(self).get_s(n) == old(self).get_s(n),
    { unimplemented!() }
}

// ---- http::Extensions: a type-indexed map ----
#[verifier::external_body]
pub struct Extensions { _p: () }
impl Extensions {
    pub uninterp spec fn get_s<T>(&self) -> Option<T>;
    /// prophecy form: `*final(v)` is the stored value when the borrow ends.  (That entries of *other*
    /// types are untouched cannot be stated - no quantification over types; not needed here.)
    #[verifier::external_body]
    pub fn get_mut<T>(&mut self) -> (r: Option<&mut T>)
        ensures
            match r {
                Some(v) => old(self).get_s::<T>() == Some(*v) && final(self).get_s::<T>() == Some(*final(v)),
                None => old(self).get_s::<T>() is None && *final(self) == *old(self),
            },
    { unimplemented!() }
}

// ---- http::Uri ----
#[verifier::external_body]
pub struct Uri { _p: () }
impl Uri {
    pub uninterp spec fn scheme_s(&self) -> Option<Scheme>;
    pub uninterp spec fn authority_s(&self) -> Option<Authority>;
    pub uninterp spec fn pq_s(&self) -> Option<PathAndQuery>;
    #[verifier::external_body]
    pub fn scheme(&self) -> (r: Option<&Scheme>)
        ensures r is Some <==> self.scheme_s() is Some, r is Some ==> *r->0 == self.scheme_s()->0
    { unimplemented!() }
    #[verifier::external_body]
    pub fn authority(&self) -> (r: Option<&Authority>)
        ensures r is Some <==> self.authority_s() is Some, r is Some ==> *r->0 == self.authority_s()->0
    { unimplemented!() }
    #[verifier::external_body]
    pub fn path_and_query(&self) -> (r: Option<&PathAndQuery>)
        ensures r is Some <==> self.pq_s() is Some, r is Some ==> *r->0 == self.pq_s()->0
    { unimplemented!() }
}
impl Uri {
    /// `Uri::from_parts` (assumed): parts without a scheme are valid unless they carry both an authority and a
    /// path (so authority-only and path-only parts are valid); anything else may fail.  On success
    /// the components are the given ones; a path-and-query that renders as "/" may be normalised away.
    #[verifier::external_body]
    pub fn from_parts(parts: UriParts) -> (r: Result<Uri, InvalidUriParts>)
        ensures
            parts.scheme is None && !(parts.authority is Some && parts.path_and_query is Some) ==> r is Ok,
            r is Ok ==> r->Ok_0.scheme_s() == parts.scheme && r->Ok_0.authority_s() == parts.authority,
            r is Ok && parts.path_and_query is Some && parts.path_and_query->0.text() != "/"@
                ==> r->Ok_0.pq_s() == parts.path_and_query,
            r is Ok && parts.path_and_query is None && parts.scheme is None ==> r->Ok_0.pq_s() is None,
    { unimplemented!() }
    /// the URI `/`
    pub uninterp spec fn slash() -> Uri;
    #[verifier::external_body]
    pub fn default() -> (r: Uri) ensures r == Uri::slash() { unimplemented!() }
    /// the URI as text (`Display`)
    pub uninterp spec fn text(&self) -> Seq<char>;
}
/// `Uri::default()` is the origin-form URI "/": no scheme, no authority, path "/"
pub broadcast axiom fn axiom_uri_slash()
    ensures
        #[trigger] Uri::slash().scheme_s() is None, Uri::slash().authority_s() is None,
        Uri::slash().pq_s() is Some, Uri::slash().pq_s()->0.text() == "/"@, Uri::slash().text() == "/"@;
/// `impl PartialEq<&str> for Uri`: compares the text
impl<'a> PartialEq<&'a str> for Uri {
    #[verifier::external_body]
    fn eq(&self, o: &&'a str) -> bool { unimplemented!() }
}
pub broadcast axiom fn axiom_uri_str_eq_obeys()
    ensures #[trigger] <Uri as vstd::std_specs::cmp::PartialEqSpec<&str>>::obeys_eq_spec();
pub broadcast axiom fn axiom_uri_str_eq_spec(a: Uri, b: &str)
    ensures #[trigger] a.eq_spec(&b) == (a.text() == b@);
pub broadcast group axiom_uri_str_eq { axiom_uri_str_eq_obeys, axiom_uri_str_eq_spec }
/// `http::uri::InvalidUri`: the error of parsing a URI component
#[verifier::external_body]
pub struct InvalidUri { _p: () }
#[verifier::external_body]
pub struct InvalidUriParts { _p: () }
impl std::fmt::Debug for InvalidUriParts {
    #[verifier::external_body]
    fn fmt(&self, f: &mut std::fmt::Formatter<'_>) -> std::fmt::Result { unimplemented!() }
}
/// `http::uri::Parts` (public fields; the private marker field is omitted)
pub struct UriParts {
    pub scheme: Option<Scheme>,
    pub authority: Option<Authority>,
    pub path_and_query: Option<PathAndQuery>,
}
impl UriParts {
    pub fn default() -> (r: UriParts)
        ensures r.scheme is None && r.authority is None && r.path_and_query is None
    { UriParts { scheme: None, authority: None, path_and_query: None } }
}
/// `http::request::Parts` (the head of a request): only the URI is read by the extracted code
pub struct RequestParts {
    pub method: Method,
    pub uri: Uri,
    pub version: Version,
    pub headers: HeaderMap,
    pub extensions: Extensions,
}
impl Clone for Uri {
    #[verifier::external_body]
    fn clone(&self) -> (r: Self) ensures r == *self { unimplemented!() }
}

// ---- http::Request<B>: head fields as spec accessors; a `&mut` accessor changes only its own field ----
#[verifier::external_body]
#[verifier::reject_recursive_types(B)]
pub struct Request<B> { _p: std::marker::PhantomData<B> }
impl<B> Request<B> {
    pub uninterp spec fn version_s(&self) -> Version;
    pub uninterp spec fn method_s(&self) -> Method;
    pub uninterp spec fn uri_s(&self) -> Uri;
    pub uninterp spec fn headers_s(&self) -> HeaderMap;
    pub uninterp spec fn ext_s(&self) -> Extensions;
    /// everything that is not one of the five head fields above (the body)
    pub uninterp spec fn rest_s(&self) -> int;

    #[verifier::external_body]
    pub fn version(&self) -> (r: Version) ensures r == self.version_s() { unimplemented!() }
    #[verifier::external_body]
    pub fn method(&self) -> (r: &Method) ensures *r == self.method_s() { unimplemented!() }
    #[verifier::external_body]
    pub fn uri(&self) -> (r: &Uri) ensures *r == self.uri_s() { unimplemented!() }
    #[verifier::external_body]
    pub fn headers(&self) -> (r: &HeaderMap) ensures *r == self.headers_s() { unimplemented!() }

    #[verifier::external_body]
    pub fn version_mut(&mut self) -> (r: &mut Version)
        ensures *r == old(self).version_s(), final(self).version_s() == *final(r),
            final(self).method_s() == old(self).method_s(), final(self).uri_s() == old(self).uri_s(),
            final(self).headers_s() == old(self).headers_s(), final(self).ext_s() == old(self).ext_s(),
            final(self).rest_s() == old(self).rest_s(),
    { unimplemented!() }
    #[verifier::external_body]
    pub fn uri_mut(&mut self) -> (r: &mut Uri)
        ensures *r == old(self).uri_s(), final(self).uri_s() == *final(r),
            final(self).method_s() == old(self).method_s(), final(self).version_s() == old(self).version_s(),
            final(self).headers_s() == old(self).headers_s(), final(self).ext_s() == old(self).ext_s(),
            final(self).rest_s() == old(self).rest_s(),
    { unimplemented!() }
    #[verifier::external_body]
    pub fn headers_mut(&mut self) -> (r: &mut HeaderMap)
        ensures *r == old(self).headers_s(), final(self).headers_s() == *final(r),
            final(self).method_s() == old(self).method_s(), final(self).version_s() == old(self).version_s(),
            final(self).uri_s() == old(self).uri_s(), final(self).ext_s() == old(self).ext_s(),
            final(self).rest_s() == old(self).rest_s(),
    { unimplemented!() }
    #[verifier::external_body]
    pub fn extensions_mut(&mut self) -> (r: &mut Extensions)
        ensures *r == old(self).ext_s(), final(self).ext_s() == *final(r),
            final(self).method_s() == old(self).method_s(), final(self).version_s() == old(self).version_s(),
            final(self).uri_s() == old(self).uri_s(), final(self).headers_s() == old(self).headers_s(),
            final(self).rest_s() == old(self).rest_s(),
    { unimplemented!() }
}
/// a request is determined by its head fields and its body
pub broadcast axiom fn axiom_request_ext<B>(a: Request<B>, b: Request<B>)
    ensures #[trigger] a.version_s() == #[trigger] b.version_s() && a.method_s() == b.method_s() && a.uri_s() == b.uri_s()
        && a.headers_s() == b.headers_s() && a.ext_s() == b.ext_s() && a.rest_s() == b.rest_s() ==> a == b;

// ---- http::Response<B>: opaque ----
#[verifier::external_body]
#[verifier::reject_recursive_types(B)]
pub struct Response<B> { _p: std::marker::PhantomData<B> }

// ---- stand-in module tree (paths as written in /repo) ----
pub mod http {
    pub use super::{Version, Method, Uri, Request, HeaderMap, HeaderName, HeaderValue, Extensions};
    pub use super::Response;
    pub mod uri {
        pub use super::super::{Scheme, Authority, PathAndQuery, InvalidUriParts, InvalidUri};
        pub use super::super::UriParts as Parts;
    }
    pub mod request {
        pub use super::super::RequestParts as Parts;
    }
    pub mod header {
        pub use super::super::{HeaderName, HeaderValue};
        pub use super::super::header_consts::*;
    }
}
pub mod header_consts {
    use super::HeaderName;
    pub const HOST: HeaderName = HeaderName(1);
    pub const CONNECTION: HeaderName = HeaderName(2);
    pub const TRANSFER_ENCODING: HeaderName = HeaderName(3);
    pub const UPGRADE: HeaderName = HeaderName(4);
}
pub mod header {
    pub use super::header_consts::*;
}
