// =============================================================================
// DICTIONARY (no assumption: `open spec fn` definitions only) between the vocabulary of unit `connector`'s hand-written
// stand-ins of `Pool::checkout` / `Checkout::detached` (prelude/connector_pool.rs: an opaque `Checkout` with ghost
// attributes) and the real `Checkout` of units `pool` / `checkout`.  The attributes are DEFINED here over the real struct,
// so that the text of those stand-ins compiles in the exporting units and Verus can check it against the proved contracts
// (`//@ refine link.connector.pool_checkout` in units/pool.vxu, `//@ refine link.connector.checkout_detached` in
// units/checkout.vxu).  Included after prelude/checkout_spec.rs.
// =============================================================================
impl<T, P, B> Connector<T, P, B> where T: Transport, P: Protocol<T::IO, B> {
    /// unit `connector` (real state machine): "may be polled" is its state invariant `wf()`; in the opaque model of
    /// prelude/checkout.rs that is "no `poll_connector` has returned Ready yet".  (Link 4c - `Connector::poll_connector` - stays
    /// by hand: THIS line is the whole dictionary for preconditions.)
    pub open spec fn wf(&self) -> bool { !self.done() }
}
impl<T, P, B> Checkout<T, P, B> where T: Transport + 'static, P: Protocol<T::IO, B> + Send + 'static, P::Connection: PoolableConnection<B>, B: Send + 'static {
    /// the checkout belongs to a pool (`Checkout::detached` stores `PoolRef::none()`)
    pub open spec fn via_pool(&self) -> bool { !self.pool.is_none_ref() }
    /// the connector it dials with (meaningful while `will_dial()`)
    pub open spec fn dial(&self) -> Connector<T, P, B> { self.inner.connector()->0 }
}
