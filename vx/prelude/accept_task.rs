// =============================================================================
// TRUSTED PRELUDE (accept / shutdown units): std::task types (same text as in prelude/std.rs,
// without the collection specs those units do not need).
// =============================================================================
#[verifier::external_type_specification]
#[verifier::external_body]
pub struct ExContext<'a>(std::task::Context<'a>);

#[verifier::reject_recursive_types(T)]
#[verifier::external_type_specification]
pub struct ExPoll<T>(std::task::Poll<T>);

/// the poll result is `Ready(Err(_))`
pub open spec fn ready_err<T, E>(r: Poll<Result<T, E>>) -> bool {
    match r { Poll::Ready(Err(_)) => true, _ => false }
}
/// `Some(e)` iff the poll result is `Ready(Err(e))`
pub open spec fn ready_errv<T, E>(r: Poll<Result<T, E>>) -> Option<E> {
    match r { Poll::Ready(Err(e)) => Some(e), _ => None }
}
/// `Some(v)` iff the poll result is `Ready(Ok(v))`
pub open spec fn ready_ok<T, E>(r: Poll<Result<T, E>>) -> Option<T> {
    match r { Poll::Ready(Ok(v)) => Some(v), _ => None }
}

// ---- `?` on a `Result` inside a fn returning `Poll<Result<..>>` (core: `Poll::Ready(Err(From::from(e)))`) ----
pub assume_specification<T, E, F: std::convert::From<E>> [<std::task::Poll<std::result::Result<T, F>> as std::ops::FromResidual<std::result::Result<std::convert::Infallible, E>>>::from_residual] (x: std::result::Result<std::convert::Infallible, E>) -> (r: std::task::Poll<std::result::Result<T, F>>)
    ensures
        ready_err(r),
        x is Err,
        match r { std::task::Poll::Ready(Err(f)) => call_ensures(F::from, (x->Err_0,), f), _ => false };
