// =============================================================================
// SHARED VOCABULARY (units `hosthdr`, `http`): the ghost attributes and spec functions that the contract unit `hosthdr`
// PROVES for `set_host_header` mentions - moved out of prelude/hosthdr.rs / units/hosthdr.vxu so that unit `http` can IMPORT
// that contract (`//@ import hosthdr :: - :: set_host_header`) instead of an uninterpreted relation `host_header_set`.
// Included AFTER the unit's own abstract `Uri`, `HeaderName`, `HeaderValue`, `HeaderMap`, `Request<B>` (prelude/hostport.rs +
// prelude/hosthdr.rs, or prelude/http_types.rs: same names, `HeaderName(pub u8)`, HOST = HeaderName(1), same accessor names
// version_s / method_s / uri_s / headers_s / ext_s / rest_s) and after prelude/hostport_vocab.rs.
// The `uninterp spec fn` are names, not facts: nothing is assumed about them here.
// =============================================================================
impl Uri {
    /// `Uri::host()`: the host of the authority (IPv6 literals keep their brackets); None without an authority
    pub uninterp spec fn host_text(&self) -> Option<Seq<char>>;
}
impl HeaderValue {
    /// the bytes of the value, as text
    pub uninterp spec fn text(&self) -> Seq<char>;
}
impl HeaderMap {
    /// all values stored under `n`, in insertion order (empty = the name is absent)
    pub uninterp spec fn all_s(&self, n: HeaderName) -> Seq<HeaderValue>;
    /// the map cannot take one more name: `try_reserve_one` would have to grow the index table beyond
    /// MAX_SIZE = 1 << 15 slots (http 1.3.1 src/header/map.rs; that is at 24576 distinct names)
    pub uninterp spec fn full_s(&self) -> bool;
}
/// decimal rendering of a port number (`<u16 as Display>`)
pub uninterp spec fn dec_u16(p: u16) -> Seq<char>;

/// the text `format!("{}:{}", host, port)` produces: host, a colon, the decimal port
pub open spec fn host_port_text(h: Seq<char>, p: u16) -> Seq<char> { h + seq![':'] + dec_u16(p) }

/// C13: the text of the Host header for a URI that has a host: the host, plus `:port` iff the URI carries an explicit
/// port that is not the default port of its scheme
pub open spec fn host_value_of(uri: Uri) -> Seq<char> {
    if uri.port_num() is Some && !is_default_port(&uri) { host_port_text(uri.host_text()->0, uri.port_num()->0) } else { uri.host_text()->0 }
}

/// everything of the request except the header map is as before
pub open spec fn same_but_headers<B>(a: Request<B>, b: Request<B>) -> bool {
    a.version_s() == b.version_s() && a.method_s() == b.method_s() && a.uri_s() == b.uri_s()
        && a.ext_s() == b.ext_s() && a.rest_s() == b.rest_s()
}
