// =============================================================================
// TRUSTED PRELUDE (unit tokenmap): the two std functions of `TokenMap::insert`'s counter step that vstd does not
// cover.  `NonZero<T>` itself, its view `n@` (the integer, never 0), `NonZero::new` (Some(n) iff n != 0, with that
// view) and `NonZero::get` come from vstd::std_specs::nonzero; `HashMap::entry`, `Entry::{Occupied, Vacant}`,
// `OccupiedEntry::into_mut`, `VacantEntry::insert` from vstd::std_specs::hash.
// =============================================================================

/// `NonZeroUsize::checked_add`: the sum when it fits into usize, else None (core::num::nonzero: "Adds an unsigned
/// integer to a non-zero value. Checks for overflow and returns None on overflow.")
pub assume_specification [std::num::NonZero::<usize>::checked_add] (a: NonZeroUsize, b: usize) -> (r: Option<NonZeroUsize>)
    ensures
        (r is Some) == (a@ + b <= usize::MAX),
        r is Some ==> r->0@ == a@ + b;

/// `Option::or`: the first if it is Some, else the second (the argument is evaluated eagerly, as in std)
pub assume_specification<T> [std::option::Option::<T>::or] (a: Option<T>, b: Option<T>) -> (r: Option<T>)
    ensures r == (if a is Some { a } else { b });
