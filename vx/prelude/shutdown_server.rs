// =============================================================================
// TRUSTED PRELUDE (shutdown unit, part 3): the traits the server is generic over (only what the
// extracted text names), hyper's `Executor`, the A-class `Serving::poll_once`.
// =============================================================================
pub trait Accept { type Conn; }
pub trait HasConnectionInfo {}
pub trait MakeServiceRef<IO, B> { type Service; type Future; }
pub trait Protocol<S, IO, B> {
    type Error;
    type Connection: Connection + Future<Output = Result<(), Self::Error>>;
}
pub trait Sealed<T> {}

/// ghost: the future `f` was handed to the executor (it will be polled to completion or dropped there)
pub uninterp spec fn spawned<F>(f: F) -> bool;
/// `hyper::rt::Executor`
pub trait Executor<Fut> {
    fn execute(&self, fut: Fut)
        ensures spawned(fut);
}

/// `ServerError` (thiserror enum over boxed errors): opaque here
#[verifier::external_body]
pub struct ServerError { _p: PhantomData<u8> }
