// =============================================================================
// TRUSTED PRELUDE (unit tlsinfo): tokio::sync::{RwLock, oneshot::Receiver}, Arc.
// T2 (monitor rule) for the RwLock: the protected State is `Empty` exactly for receivers created by
// `TlsConnectionInfoReciever::empty()` - `inv` is assumed on acquisition and proved, for the value actually in the
// slot, where the write guard is released (obligation ti.keeps_kind; the unit text states that `inv` speaks about the
// kind only: axiom_slot_inv_is_kind).
// `try_read`/`try_write` may fail for no reason visible to the caller (lock contention).
// =============================================================================
pub mod tokio { pub mod sync { pub mod oneshot { pub use super::super::super::Receiver; } } }
#[verifier::external_body]
#[verifier::reject_recursive_types(T)]
pub struct Receiver<T> { _p: std::marker::PhantomData<T> }
pub struct RecvError {}
impl std::fmt::Debug for RecvError {
    #[verifier::external_body]
    fn fmt(&self, f: &mut std::fmt::Formatter<'_>) -> std::fmt::Result { unimplemented!() }
}
#[verifier::external]
impl<T> std::future::Future for Receiver<T> {
    type Output = Result<T, RecvError>;
    fn poll(self: std::pin::Pin<&mut Self>, cx: &mut std::task::Context<'_>) -> std::task::Poll<Self::Output> { unimplemented!() }
}
#[verifier::external]
impl<T> Unpin for Receiver<T> {}
/// ASSUMED (A): the TLS acceptor sends the connection info before it lets go of the sender, so awaiting the
/// receiver of a TLS connection never yields `RecvError` (the `.expect(..)` in `recv` relies on this).
pub broadcast axiom fn axiom_info_is_sent<T>(f: &mut Receiver<T>)
    ensures #[trigger] f.awaited() ==> f@ is Ok;

#[verifier::external_body]
#[verifier::reject_recursive_types(T)]
pub struct RwLock<T> { _p: std::marker::PhantomData<T> }
#[verifier::external_body]
#[verifier::reject_recursive_types(T)]
pub struct RwLockReadGuard<T> { _p: std::marker::PhantomData<T> }
#[verifier::external_body]
#[verifier::reject_recursive_types(T)]
pub struct RwLockWriteGuard<T> { _p: std::marker::PhantomData<T> }
pub struct TryLockError {}

impl<T> View for RwLockReadGuard<T> { type V = T; uninterp spec fn view(&self) -> T; }
impl<T> View for RwLockWriteGuard<T> { type V = T; uninterp spec fn view(&self) -> T; }

impl<T> RwLock<T> {
    /// the invariant every holder of the lock finds (and must leave) the protected value in
    pub uninterp spec fn inv(&self, v: T) -> bool;

    #[verifier::external_body]
    pub async fn read(&self) -> (g: RwLockReadGuard<T>) ensures self.inv(g@) { unimplemented!() }
    #[verifier::external_body]
    pub async fn write(&self) -> (g: RwLockWriteGuard<T>) ensures self.inv(g@) { unimplemented!() }
    #[verifier::external_body]
    pub fn try_read(&self) -> (r: Result<RwLockReadGuard<T>, TryLockError>) ensures r is Ok ==> self.inv(r->Ok_0@) { unimplemented!() }
    #[verifier::external_body]
    pub fn try_write(&self) -> (r: Result<RwLockWriteGuard<T>, TryLockError>) ensures r is Ok ==> self.inv(r->Ok_0@) { unimplemented!() }
}
impl<T> std::ops::Deref for RwLockReadGuard<T> {
    type Target = T;
    #[verifier::external_body]
    fn deref(&self) -> (r: &T) ensures *r == self@ { unimplemented!() }
}
impl<T> std::ops::Deref for RwLockWriteGuard<T> {
    type Target = T;
    #[verifier::external_body]
    fn deref(&self) -> (r: &T) ensures *r == self@ { unimplemented!() }
}
impl<T> std::ops::DerefMut for RwLockWriteGuard<T> {
    #[verifier::external_body]
    fn deref_mut(&mut self) -> (r: &mut T) ensures *r == old(self)@, *final(r) == final(self)@ { unimplemented!() }
}

/// `TlsConnectionInfo` (info/tls.rs): an opaque, clonable value here
#[verifier::external_body]
pub struct TlsConnectionInfo { _p: () }
impl Clone for TlsConnectionInfo {
    #[verifier::external_body]
    fn clone(&self) -> (r: Self) ensures r == *self { unimplemented!() }
}
