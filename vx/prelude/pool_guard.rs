// =============================================================================
// TRUSTED PRELUDE (R8): PoolRef / PoolGuard stand for Weak<Mutex<PoolInner>> and its
// ArcMutexGuard.  Assumption T2 (monitor rule): the value behind a freshly acquired
// guard satisfies `wf`; every critical section re-establishes `wf` (obligations *.wf).
// =============================================================================
#[verifier::external_body]
#[verifier::reject_recursive_types(C)]
#[verifier::reject_recursive_types(B)]
pub struct PoolRef<C, B> where C: PoolableConnection<B>, B: Send + 'static {
    _p: PhantomData<(C, B)>,
}

impl<C, B> PoolRef<C, B> where C: PoolableConnection<B>, B: Send + 'static {
    /// the reference was created by `PoolRef::none()` (it will never yield a pool)
    pub uninterp spec fn is_none_ref(&self) -> bool;

    #[verifier::external_body]
    pub fn none() -> (r: Self)
        ensures r.is_none_ref()
    { unimplemented!() }

    /// the pool behind the reference still exists (not `none()`, not dropped)
    pub uninterp spec fn alive(&self) -> bool;

    /// blocks until the lock is free: `None` only if there is no pool any more
    #[verifier::external_body]
    pub fn lock(&self) -> (r: Option<PoolGuard<C, B>>)
        ensures
            self.is_none_ref() ==> r is None,
            r is None ==> !self.alive(),
            r is Some ==> r->0@.wf(),
    { unimplemented!() }

    /// does NOT block: `None` also when another thread merely holds the lock (says nothing about `alive`)
    #[verifier::external_body]
    pub fn try_lock(&self) -> (r: Option<PoolGuard<C, B>>)
        ensures
            self.is_none_ref() ==> r is None,
            r is Some ==> r->0@.wf(),
    { unimplemented!() }
}

impl<C, B> Clone for PoolRef<C, B> where C: PoolableConnection<B>, B: Send + 'static {
    #[verifier::external_body]
    fn clone(&self) -> (r: Self)
        ensures r == *self
    { unimplemented!() }
}

#[verifier::external_body]
#[verifier::reject_recursive_types(C)]
#[verifier::reject_recursive_types(B)]
pub struct PoolGuard<C, B> where C: PoolableConnection<B>, B: Send + 'static {
    _p: PhantomData<(C, B)>,
}

impl<C, B> View for PoolGuard<C, B> where C: PoolableConnection<B>, B: Send + 'static {
    type V = PoolInner<C, B>;
    uninterp spec fn view(&self) -> PoolInner<C, B>;
}

impl<C, B> std::ops::Deref for PoolGuard<C, B> where C: PoolableConnection<B>, B: Send + 'static {
    type Target = PoolInner<C, B>;
    #[verifier::external_body]
    fn deref(&self) -> (r: &PoolInner<C, B>)
        ensures *r == self@
    { unimplemented!() }
}

impl<C, B> std::ops::DerefMut for PoolGuard<C, B> where C: PoolableConnection<B>, B: Send + 'static {
    #[verifier::external_body]
    fn deref_mut(&mut self) -> (r: &mut PoolInner<C, B>)
        ensures *r == old(self)@, *final(r) == final(self)@
    { unimplemented!() }
}

// `Pooled::take(mut self)` is no longer a stand-in of this file: units `pool` and `checkout` (whose extracted
// `PoolInner::push` calls it) IMPORT its contract from unit `pooltake`, where it is proved on the real body (take.*).

// ---- tokio stand-ins (paths as written in /repo) ----
/// ghost: the future `f` was handed to the runtime (it will be polled to completion or dropped)
pub uninterp spec fn spawned<F>(f: F) -> bool;

#[verifier::external_body]
#[verifier::reject_recursive_types(T)]
pub struct Receiver<T> { inner: std::marker::PhantomData<T> }
impl<T> Receiver<T> {
    pub uninterp spec fn id(&self) -> int;
    /// a `poll` has returned Ready (tokio panics with "called after complete" when polled again: the
    /// precondition of `poll` is a proof obligation of every caller).  Declared here, next to `channel()`; the
    /// receiver's `poll` / `close` stand-ins are in prelude/checkout.rs.
    pub uninterp spec fn done(&self) -> bool;
}

pub mod tokio {
    use super::*;
    #[verifier::external_body]
    pub fn spawn<F>(f: F)
        ensures spawned(f)
    { unimplemented!() }

    pub mod sync { pub mod oneshot {
        use super::super::super::*;
        #[verifier::external_body]
        pub fn channel<T>() -> (r: (Sender<T>, Receiver<T>))
            ensures r.0.id() == r.1.id(),
                // a new receiver has not been polled (needed by the precondition of `Checkout::new`, which unit `pool`
                // imports from unit `checkout` and has to establish at its call sites)
                !r.1.done(),
        { unimplemented!() }
    } }
}
