// =============================================================================
// TRUSTED PRELUDE (unit `sni`, `ValidateSNIService::{call, poll_ready}`): what the three-line body stands on -
// tower::Service (the INNER service), futures-util's `Either` / `TryFutureExt::map_err` / `MapErr`, and
// `std::future::{ready, Ready}`, `Poll::map_err`.  Hand-written, never generated from the repository; every
// `external_body`, `assume_specification`, `axiom` and `uninterp` item is an assumption listed in the evidence file.
// Nothing here is polled: `call` only BUILDS a future.  What the built futures answer when polled is the library's
// (assumed: `Ready` yields its value, `MapErr` yields the inner future's output with the function applied to an
// `Err`); the bounded stand-in `A.sni.service` runs the real glue.
// =============================================================================

// ---- std::task ----
#[verifier::external_type_specification]
#[verifier::external_body]
pub struct ExContext<'a>(std::task::Context<'a>);
#[verifier::reject_recursive_types(T)]
#[verifier::external_type_specification]
pub struct ExPoll<T>(std::task::Poll<T>);

/// `Poll<Result<T, E>>::map_err`: the function is applied to the Err value of a Ready result (through the function's
/// own contract), everything else is passed through unchanged  (same text as prelude/timeout.rs)
pub assume_specification<T, E, U, F: FnOnce(E) -> U> [std::task::Poll::<Result<T, E>>::map_err] (p: std::task::Poll<Result<T, E>>, f: F) -> (r: std::task::Poll<Result<T, U>>)
    requires
        p matches std::task::Poll::Ready(Err(e)) ==> f.requires((e,)),
    ensures
        p is Pending ==> r is Pending,
        p matches std::task::Poll::Ready(Ok(v)) ==> r == std::task::Poll::<Result<T, U>>::Ready(Ok(v)),
        p matches std::task::Poll::Ready(Err(e)) ==> (r matches std::task::Poll::Ready(Err(u)) && f.ensures((e,), u));

// ---- std::future::{ready, Ready} ----
#[verifier::external_type_specification]
#[verifier::external_body]
#[verifier::reject_recursive_types(T)]
pub struct ExReady<T>(std::future::Ready<T>);
/// the value a `Ready` future was made with (and resolves to, at its first poll)
pub uninterp spec fn ready_value<T>(f: std::future::Ready<T>) -> T;
pub assume_specification<T> [std::future::ready] (t: T) -> (f: std::future::Ready<T>)
    ensures ready_value(f) == t;

// ---- std::error::Error: a marker bound here (no method of it is used) ----
#[verifier::external_trait_specification]
pub trait ExError: std::fmt::Debug + std::fmt::Display {
    type ExternalTraitSpecificationFor: std::error::Error;
}

// ---- futures_util::future::{Either, MapErr}, futures_util::TryFutureExt ----
/// `futures_util::future::Either<A, B>`: the crate's public two-variant enum, as defined there
pub enum Either<A, B> {
    Left(A),
    Right(B),
}
/// `futures_util::future::MapErr<Fut, F>`: a future that owns an inner future and an error-mapping function.
///   fut()   the inner future it was made from (by value: nothing else owns it)
///   f()     the mapping function
#[verifier::external_body]
#[verifier::reject_recursive_types(Fut)]
#[verifier::reject_recursive_types(F)]
pub struct MapErr<Fut, F> { _p: std::marker::PhantomData<(Fut, F)> }
impl<Fut, F> MapErr<Fut, F> {
    pub uninterp spec fn fut(&self) -> Fut;
    pub uninterp spec fn f(&self) -> F;
}
/// `TryFutureExt::map_err(self, f)` as a constructor: wraps exactly `self`; the callable (a fn item in the extracted
/// code) is coerced to the function pointer the declared future type names, and the pointer denotes that callable:
/// `maps(a, b)` is the callable's own postcondition.  Requires the callable to be total (no precondition).
pub trait TryFutureExt: Sized {
    fn map_err<A, B, G: FnOnce(A) -> B>(self, f: G) -> (r: MapErr<Self, FnPtr1<A, B>>)
        requires
            forall|a: A| f.requires((a,)),
        ensures
            r.fut() == self,
            forall|a: A, b: B| #[trigger] r.f().maps(a, b) == f.ensures((a,), b);
}
impl<Fut> TryFutureExt for Fut {
    #[verifier::external_body]
    fn map_err<A, B, G: FnOnce(A) -> B>(self, f: G) -> (r: MapErr<Self, FnPtr1<A, B>>) { unimplemented!() }
}
pub mod futures_util {
    pub use super::TryFutureExt;
    pub mod future { pub use super::super::{Either, MapErr}; }
}

// ---- tower::Service<R>: the INNER service (an arbitrary implementation) ----
/// Model (the one of prelude/timeout.rs, without the poll stream of the futures - nothing is polled here):
///   sid()                    ghost identity of this service value
///   calls()                  how often `call` was used on it
///   sent(f) / made_by(f) / call_no(f)   creation record of a response future: the request it was created for, by
///                            which service value, as its how-manieth call
///   ready_polls() / ready_next()        the stream of `poll_ready` answers (`ready_next` is a prophecy)
/// tower's usage contract - `call` only after `poll_ready` returned `Ready(Ok(()))` - is NOT a precondition here: it
/// is the obligation of whoever drives the outermost service.
pub mod tower {
    use super::*;
    pub trait Service<R> {
        type Response;
        type Error;
        type Future;
        spec fn sid(&self) -> int;
        spec fn calls(&self) -> nat;
        spec fn sent(f: Self::Future) -> R;
        spec fn made_by(f: Self::Future) -> int;
        spec fn call_no(f: Self::Future) -> nat;
        spec fn ready_polls(&self) -> nat;
        spec fn ready_next(&self) -> std::task::Poll<Result<(), Self::Error>>;

        fn poll_ready(&mut self, cx: &mut std::task::Context<'_>) -> (r: std::task::Poll<Result<(), Self::Error>>)
            ensures
                r == old(self).ready_next(),
                final(self).sid() == old(self).sid(),
                final(self).calls() == old(self).calls(),
                final(self).ready_polls() == old(self).ready_polls() + 1;

        fn call(&mut self, req: R) -> (f: Self::Future)
            ensures
                Self::sent(f) == req,
                Self::made_by(f) == old(self).sid(),
                Self::call_no(f) == old(self).calls(),
                final(self).sid() == old(self).sid(),
                final(self).calls() == old(self).calls() + 1,
                final(self).ready_polls() == old(self).ready_polls();
    }
}
