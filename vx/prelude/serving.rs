// =============================================================================
// TRUSTED PRELUDE (unit `serving`): the traits the accept loop is generic over, after Pin erasure (R5),
// with the ghost state the contracts of `Serving::poll_once` / `Serving::poll` talk about.
// Used together with prelude/accept_task.rs (Poll helpers, `?` in a Poll fn) and prelude/shutdown.rs
// (event history `Ev`, `Future`, `Connection`, `Instrumented`, `tracing::Span`).
// Hand-written; every item is an assumption listed in evidence.
// =============================================================================

// ---- std ----
/// `std::mem::replace` (R6r rewrites pin_project's `project_replace` to it)
pub assume_specification<T> [std::mem::replace] (dest: &mut T, src: T) -> (r: T)
    ensures r == *old(dest), *final(dest) == src;

/// `impl<T> From<T> for T` (core): the identity - reached through `?` when the error type already matches
pub assume_specification<T> [<T as std::convert::From<T>>::from] (t: T) -> (r: T)
    ensures r == t;

#[verifier::external_type_specification]
#[verifier::external_body]
pub struct ExIoError(std::io::Error);

/// `crate::BoxError` = `Box<dyn Error + Send + Sync>`: opaque
#[verifier::external_body]
pub struct BoxError { _p: PhantomData<u8> }

/// `http_body::Body` (used as a bound only)
pub trait Body { type Data; type Error; }

// ---- tracing ----
impl tracing::Span {
    /// `tracing::Span::none()` - what R1s puts in place of a `*_span!(..)` constructor (T1: a span carries no
    /// program state)
    #[verifier::external_body]
    pub fn none() -> (r: Self) { unimplemented!() }
}
/// `tracing::Instrument` (blanket impl for every `T: Sized`): wraps the future, nothing else.  The body below is
/// verified, it is the definition of the stand-in `Instrumented` of prelude/shutdown.rs.
pub trait Instrument: Sized {
    fn instrument(self, span: Span) -> (r: Instrumented<Self>)
        ensures r.inner == self, r.span == span;
}
impl<T> Instrument for T {
    fn instrument(self, span: Span) -> (r: Instrumented<Self>) { Instrumented { inner: self, span } }
}

// ---- crate::info ----
#[verifier::external_body]
#[verifier::reject_recursive_types(A)]
pub struct ConnectionInfo<A> { _p: PhantomData<A> }
/// `info::HasConnectionInfo`: a pure observer of the stream
pub trait HasConnectionInfo {
    type Addr;
    fn info(&self) -> ConnectionInfo<Self::Addr>;
}

// ---- server::conn::Accept (Pin erased) ----
/// Ghost: `handed()` every connection `poll_accept` has returned so far, oldest first; `polls()` how often it
/// was polled; `failed()` the most recent poll returned `Ready(Err(_))` - the acceptor's own report that the
/// listener is gone (what the units `accept` prove about `DuplexIncoming` / `TlsAcceptor`; assumed for a user
/// acceptor).
pub trait Accept {
    type Conn: HasConnectionInfo;
    type Error: Into<BoxError>;
    spec fn handed(&self) -> Seq<Self::Conn>;
    spec fn polls(&self) -> nat;
    spec fn failed(&self) -> bool;
    fn poll_accept(&mut self, cx: &mut Context<'_>) -> (r: Poll<Result<Self::Conn, Self::Error>>)
        ensures
            final(self).polls() == old(self).polls() + 1,
            final(self).handed() == (match r { Poll::Ready(Ok(c)) => old(self).handed().push(c), _ => old(self).handed() }),
            final(self).failed() == ready_err(r);
}

// ---- service::MakeServiceRef ----
/// Ghost: `targets()` every connection `make_service_ref` was called for, oldest first; `ready_failed()` the
/// most recent `poll_ready_ref` returned `Ready(Err(_))`.  A make future starts with an empty history.
pub trait MakeServiceRef<Target, ReqBody> {
    type Service;
    type MakeError: Into<BoxError>;
    type Future: Future<Output = Result<Self::Service, Self::MakeError>>;
    spec fn targets(&self) -> Seq<Target>;
    spec fn ready_failed(&self) -> bool;
    fn poll_ready_ref(&mut self, cx: &mut Context<'_>) -> (r: Poll<Result<(), Self::MakeError>>)
        ensures
            final(self).targets() == old(self).targets(),
            final(self).ready_failed() == ready_err(r);
    fn make_service_ref(&mut self, target: &Target) -> (r: Self::Future)
        ensures
            final(self).targets() == old(self).targets().push(*target),
            final(self).ready_failed() == old(self).ready_failed(),
            r.log() == Seq::<Ev>::empty();
}

// ---- server::Protocol ----
/// Ghost attributes of a *fresh* connection future: the stream it serves and the service it serves it with.
/// A fresh connection has an empty history (never polled, never told to shut down).
pub trait Protocol<S, IO, B> {
    type Error;
    type Connection: Connection + Future<Output = Result<(), Self::Error>>;
    spec fn stream_of(c: Self::Connection) -> IO;
    spec fn service_of(c: Self::Connection) -> S;
    fn serve_connection_with_upgrades(&self, stream: IO, service: S) -> (r: Self::Connection)
        ensures
            Self::stream_of(r) == stream,
            Self::service_of(r) == service,
            r.log() == Seq::<Ev>::empty();
}

// ---- executor ----
pub trait Sealed<T> {}
/// ghost: the future `f` was handed to the executor (it will be polled to completion or dropped there)
pub uninterp spec fn spawned<F>(f: F) -> bool;
/// `hyper::rt::Executor`
pub trait Executor<Fut> {
    fn execute(&self, fut: Fut)
        ensures spawned(fut);
}
