// =============================================================================
// SHARED SPECIFICATION TEXT (no assumption: `open spec fn` definitions only) - the vocabulary in which the contracts of
// `EyeballSet::{join_next, process_all, finish}` (src/happy_eyeballs.rs) are written.
// Included by unit `eyeballs`, which PROVES those contracts, and by every unit that IMPORTS one of them
// (`//@ import eyeballs :: .. :: finish` in unit `tcpconnect`): the imported contract text is only meaningful when both
// units read it against the same definitions, so the definitions live here and nowhere else.
// Needs in scope: the extracted `HappyEyeballsError`, `EyeballSet`; prelude/eyeballs.rs (FuturesUnordered ghost history,
// `outcome`).  Moved verbatim out of vx/units/eyeballs.vxu (notes/imports.md).
// =============================================================================
pub type HappyEyeballsResult<T, E> = Result<T, HappyEyeballsError<E>>;

/// the error `join_next` has recorded after the completions `s` (in completion order): the FIRST failure
pub open spec fn first_err<T, E>(s: Seq<Result<T, E>>) -> Option<HappyEyeballsError<E>>
    decreases s.len()
{
    if s.len() == 0 {
        None
    } else {
        match first_err(s.drop_last()) {
            Some(x) => Some(x),
            None => match s.last() {
                Err(e) => Some(HappyEyeballsError::Error(e)),
                Ok(_) => None,
            },
        }
    }
}

impl<F, T, E> EyeballSet<F, T, E> where F: Future<Output = Result<T, E>> {
    /// attempts started so far, in start order (ghost `started` of the design)
    pub open spec fn started_seq(&self) -> Seq<F> { self.tasks.pushed() }

    /// representation invariant: the recorded error is the first failure among the completions consumed so far
    pub open spec fn wf(&self) -> bool {
        self.error == first_err(self.tasks.outputs())
    }

    /// the pacing configuration and the candidate queue are the same in both states
    pub open spec fn same_config(&self, o: Self) -> bool {
        self.delay == o.delay && self.timeout == o.timeout && self.initial_concurrency == o.initial_concurrency
    }
}

/// how many attempts `process_all` starts before it waits for the first time
pub open spec fn initial_batch(ic: Option<usize>, n: int) -> int {
    if ic is Some && (ic->0 as int) < n { ic->0 as int } else { n }
}

impl<F, T, E> EyeballSet<F, T, E> where F: Future<Output = Result<T, E>> {
    /// Of the candidates queued in `pre`, exactly the first `k` have been started (appended to the started
    /// sequence in queue order), the next `d` (0 or 1) was taken out and dropped unstarted, the rest is still queued.
    pub open spec fn progress(pre: Self, post: Self, k: int, d: int) -> bool {
        &&& 0 <= k && 0 <= d <= 1 && k + d <= pre.queue@.len()
        &&& post.tasks.pushed() == pre.tasks.pushed() + pre.queue@.subrange(0, k)
        &&& post.queue@ == pre.queue@.subrange(k + d, pre.queue@.len() as int)
    }
    /// what is reported when everything failed: the recorded first failure, else NoProgress
    pub open spec fn final_error(&self) -> HappyEyeballsError<E> {
        match first_err(self.tasks.outputs()) { Some(x) => x, None => HappyEyeballsError::NoProgress }
    }
    // ---- the clauses of C10 / C11 for one run (pre -> post, result r) of `process_all` / `finish` ----
    /// C11: attempts are started in queue order: the started sequence grows by a prefix of the queue
    pub open spec fn c_order(pre: Self, post: Self) -> bool {
        0 <= post.started_since(pre) <= pre.queue@.len()
        && post.tasks.pushed() == pre.tasks.pushed() + pre.queue@.subrange(0, post.started_since(pre))
    }
    /// C11: each candidate at most once: started ++ (at most one, dropped unstarted, and only on success) ++ still
    /// queued is the original queue
    pub open spec fn c_once(pre: Self, post: Self, r: HappyEyeballsResult<T, E>) -> bool {
        Self::progress(pre, post, post.started_since(pre), post.dropped_since(pre))
        && (post.dropped_since(pre) == 1 ==> r is Ok)
    }
    /// C11: the initial batch is started before anything is reported
    pub open spec fn c_initial(pre: Self, post: Self) -> bool {
        post.started_since(pre) >= initial_batch(pre.initial_concurrency, pre.queue@.len() as int)
    }
    /// C11: beyond the initial batch, at most one attempt per wait that did not produce the success
    pub open spec fn c_next(pre: Self, post: Self, r: HappyEyeballsResult<T, E>) -> bool {
        post.started_since(pre) - initial_batch(pre.initial_concurrency, pre.queue@.len() as int)
            <= post.waits_since(pre) - (if r is Ok { 1int } else { 0int })
    }
    /// C10: failure only after every candidate was started and has finished
    pub open spec fn c_err_last(pre: Self, post: Self, r: HappyEyeballsResult<T, E>) -> bool {
        r is Err ==> post.queue@.len() == 0 && post.tasks.idle() && post.tasks.pushed() == pre.tasks.pushed() + pre.queue@
    }
    /// C10: ... and the error is the first failure consumed, NoProgress only if there was none
    pub open spec fn c_err_first(post: Self, r: HappyEyeballsResult<T, E>) -> bool {
        r is Err ==> r->Err_0 == post.final_error()
    }
    /// C10: a success is the output of a started attempt, and it is the last completion consumed
    pub open spec fn c_ok(post: Self, r: HappyEyeballsResult<T, E>) -> bool {
        r is Ok ==> post.tasks.finished().len() > 0
            && post.tasks.pushed().contains(post.tasks.finished().last())
            && outcome(post.tasks.finished().last()) == Ok::<T, E>(r->Ok_0)
    }
    /// C10: first success wins: every completion consumed by this run before the one that is reported is a failure
    /// (and on Err every completion consumed is a failure)
    pub open spec fn c_first_success(pre: Self, post: Self, r: HappyEyeballsResult<T, E>) -> bool {
        &&& pre.tasks.finished().len() <= post.tasks.finished().len()
        &&& forall|j: int| pre.tasks.finished().len() <= j < post.tasks.finished().len() - (if r is Ok { 1int } else { 0int })
                ==> outcome(#[trigger] post.tasks.finished()[j]) is Err
    }
    /// all completions consumed since `pre` are failures
    pub open spec fn only_failures_since(&self, pre: Self) -> bool {
        &&& pre.tasks.finished().len() <= self.tasks.finished().len()
        &&& forall|j: int| pre.tasks.finished().len() <= j < self.tasks.finished().len()
                ==> outcome(#[trigger] self.tasks.finished()[j]) is Err
    }
    /// C10: no candidates at all: NoProgress
    pub open spec fn c_empty(pre: Self, r: HappyEyeballsResult<T, E>) -> bool {
        pre.queue@.len() == 0 && pre.tasks.pushed().len() == 0 && pre.tasks.finished().len() == 0
            ==> r is Err && r->Err_0 is NoProgress
    }

    /// number of attempts started / waits begun since `pre`
    pub open spec fn started_since(&self, pre: Self) -> int { self.tasks.pushed().len() - pre.tasks.pushed().len() }
    pub open spec fn waits_since(&self, pre: Self) -> int { self.tasks.waits() - pre.tasks.waits() }
    /// number of candidates that left the queue without being started
    pub open spec fn dropped_since(&self, pre: Self) -> int { pre.queue@.len() - self.started_since(pre) - self.queue@.len() }
}
