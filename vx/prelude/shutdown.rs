// =============================================================================
// TRUSTED PRELUDE (shutdown unit): stand-ins for std::future::Future and the crate's
// `server::conn::Connection` after Pin erasure (R5), tracing's `Instrumented`/`Span`,
// futures_util's `Fuse`, tokio's watch channel handles, hyper's `Executor`.
// Hand-written; every item is an assumption listed in evidence.
// =============================================================================

/// What happens to one connection future, in order.
pub enum Ev {
    /// it was polled; `true`: that poll returned `Ready`
    Polled(bool),
    /// `graceful_shutdown` was called on it
    Told,
}

/// ghost history shared by the two traits a connection implements (`Future`, `Connection`)
pub trait Ghosted {
    spec fn log(&self) -> Seq<Ev>;
}

/// std::future::Future after Pin erasure: every poll is recorded in the ghost history
pub trait Future: Ghosted {
    type Output;
    fn poll(&mut self, cx: &mut Context<'_>) -> (r: Poll<Self::Output>)
        ensures final(self).log() == old(self).log().push(Ev::Polled(r is Ready));
}

/// `server::conn::Connection` after Pin erasure.  `graceful_shutdown` is hyper's: it only *tells* the
/// connection to finish (in-flight exchanges complete when the connection is polled on) - recorded as `Told`.
pub trait Connection: Ghosted {
    fn graceful_shutdown(&mut self)
        ensures final(self).log() == old(self).log().push(Ev::Told);
}

/// number of `graceful_shutdown` calls in a history
pub open spec fn count_told(l: Seq<Ev>) -> nat
    decreases l.len()
{
    if l.len() == 0 { 0 } else { count_told(l.drop_last()) + (if l.last() is Told { 1nat } else { 0nat }) }
}
pub proof fn lemma_count_told_push(l: Seq<Ev>, e: Ev)
    ensures count_told(l.push(e)) == count_told(l) + (if e is Told { 1nat } else { 0nat })
{
    assert(l.push(e).drop_last() =~= l);
}

// ---- tracing ----
pub mod tracing {
    use super::*;
    #[verifier::external_body]
    pub struct Span { _p: PhantomData<u8> }
    impl Clone for Span {
        #[verifier::external_body]
        fn clone(&self) -> (r: Self) { unimplemented!() }
    }
}
pub use tracing::Span;

/// `tracing::instrument::Instrumented<T>`: the wrapped future plus a span; polling it polls `inner`
/// (entering the span has no effect on program state, assumption T1)
#[verifier::reject_recursive_types(T)]
pub struct Instrumented<T> { pub inner: T, pub span: Span }
impl<T: Ghosted> Ghosted for Instrumented<T> {
    open spec fn log(&self) -> Seq<Ev> { self.inner.log() }
}
impl<T: Future> Future for Instrumented<T> {
    type Output = T::Output;
    #[verifier::external_body]
    fn poll(&mut self, cx: &mut Context<'_>) -> (r: Poll<T::Output>)
    { unimplemented!() }
}
impl<T> Instrumented<T> {
    /// `Instrumented::inner_pin_mut` (Pin erased): a mutable borrow of the wrapped future
    #[verifier::external_body]
    pub fn inner_pin_mut(&mut self) -> (r: &mut T)
        ensures *r == old(self).inner, *final(r) == final(self).inner, final(self).span == old(self).span
    { unimplemented!() }
    #[verifier::external_body]
    pub fn span(&self) -> (r: &Span)
        ensures *r == self.span
    { unimplemented!() }
}

// ---- tokio::sync::watch handles (the shutdown / finished channels carry no value: only "closed" matters) ----
pub mod tokio { pub mod sync { pub mod watch {
    use super::super::super::*;
    /// a *receiving* handle: the channel counts as closed once every receiving handle is dropped
    #[verifier::external_body]
    #[verifier::reject_recursive_types(T)]
    pub struct Receiver<T> { _p: PhantomData<T> }
    #[verifier::external_body]
    #[verifier::reject_recursive_types(T)]
    pub struct Sender<T> { _p: PhantomData<T> }
    impl<T> Receiver<T> {
        /// ghost identity of the watch channel this handle belongs to
        pub uninterp spec fn chan(&self) -> int;
    }
    impl<T> Sender<T> {
        /// ghost identity of the watch channel this handle belongs to
        pub uninterp spec fn chan(&self) -> int;
    }
    /// `tokio::sync::watch::channel(init)`: the two handles of ONE new channel (nothing is said about other channels:
    /// that two calls give different channels is not expressible without global ghost state and is not claimed)
    #[verifier::external_body]
    pub fn channel<T>(init: T) -> (r: (Sender<T>, Receiver<T>))
        ensures r.0.chan() == r.1.chan()
    { unimplemented!() }
} } }
