// =============================================================================
// TRUSTED PRELUDE (unit `acceptor`): what `Acceptor::poll_accept` dispatches to and wraps into.  Used with
// prelude/accept_task.rs and prelude/accept_tls.rs (the Pin-erased `Accept` trait with ghost `accept_polls` /
// `accept_outcome`).  Hand-written; every item is an assumption listed in evidence.
// =============================================================================
/// `server::conn::Stream<IO>` (plain or TLS wrapper around an accepted transport): ghost `io()` for the plain form
#[verifier::external_body]
#[verifier::reject_recursive_types(IO)]
pub struct Stream<IO> { _p: PhantomData<IO> }
impl<IO> Stream<IO> {
    pub uninterp spec fn io(&self) -> IO;
    /// `Stream::new`: wraps the transport, no I/O
    #[verifier::external_body]
    pub fn new(io: IO) -> (r: Self)
        ensures r.io() == io
    { unimplemented!() }
}
/// `server::conn::tls::TlsStream<IO>` (handshake not started: unit `accept`, tls.lazy_handshake)
#[verifier::external_body]
#[verifier::reject_recursive_types(IO)]
pub struct TlsStream<IO> { _p: PhantomData<IO> }
impl<IO> From<TlsStream<IO>> for Stream<IO> {
    /// `impl From<TlsStream<IO>> for Stream<IO>`: wraps, no I/O
    #[verifier::external_body]
    fn from(s: TlsStream<IO>) -> (r: Self) { unimplemented!() }
}
/// `server::conn::tls::TlsAcceptor<A>` as an `Accept` (its `poll_accept` is under contract in unit `accept`:
/// tls.polls_once, tls.err_is_listener); here only the trait contract is used
#[verifier::external_body]
#[verifier::reject_recursive_types(A)]
pub struct RawTlsAcceptor<A> { _p: PhantomData<A> }
impl<A: Accept> Accept for RawTlsAcceptor<A> {
    type Conn = TlsStream<A::Conn>;
    type Error = A::Error;
    uninterp spec fn accept_polls(&self) -> nat;
    uninterp spec fn accept_outcome(&self) -> Poll<Result<Self::Conn, Self::Error>>;
    #[verifier::external_body]
    fn poll_accept(&mut self, cx: &mut Context<'_>) -> (r: Poll<Result<Self::Conn, Self::Error>>) { unimplemented!() }
}
/// `Poll<T>::map` (std)
pub assume_specification<T, U, F: FnOnce(T) -> U> [std::task::Poll::<T>::map] (p: Poll<T>, f: F) -> (r: Poll<U>)
    requires p matches Poll::Ready(t) ==> f.requires((t,)),
    ensures match p { Poll::Ready(t) => (r matches Poll::Ready(u) && f.ensures((t,), u)), Poll::Pending => r is Pending };
#[verifier::external_type_specification]
#[verifier::external_body]
pub struct ExIoError(std::io::Error);

// ---- what `AcceptorCore` dispatches to: the three listeners of the `stream` feature, each as an `Accept` in the
// trait vocabulary (each `poll_accept` is under contract in its own unit and vocabulary - tcpinfo: tcp.accept.*,
// unixinfo: unix.accept.*, accept: acc.* for `DuplexIncoming`; here only the trait contract is used), and the streams they
// hand out (`Braid` and its three `From` conversions are extracted from stream/core.rs in the unit)
#[verifier::external_body]
pub struct TcpListener { _p: PhantomData<u8> }
#[verifier::external_body]
pub struct UnixListener { _p: PhantomData<u8> }
#[verifier::external_body]
pub struct DuplexIncoming { _p: PhantomData<u8> }
#[verifier::external_body]
pub struct TcpStream { _p: PhantomData<u8> }
#[verifier::external_body]
pub struct UnixStream { _p: PhantomData<u8> }
#[verifier::external_body]
pub struct DuplexStream { _p: PhantomData<u8> }
impl Accept for TcpListener {
    type Conn = TcpStream;
    type Error = std::io::Error;
    uninterp spec fn accept_polls(&self) -> nat;
    uninterp spec fn accept_outcome(&self) -> Poll<Result<Self::Conn, Self::Error>>;
    #[verifier::external_body]
    fn poll_accept(&mut self, cx: &mut Context<'_>) -> (r: Poll<Result<Self::Conn, Self::Error>>) { unimplemented!() }
}
impl Accept for UnixListener {
    type Conn = UnixStream;
    type Error = std::io::Error;
    uninterp spec fn accept_polls(&self) -> nat;
    uninterp spec fn accept_outcome(&self) -> Poll<Result<Self::Conn, Self::Error>>;
    #[verifier::external_body]
    fn poll_accept(&mut self, cx: &mut Context<'_>) -> (r: Poll<Result<Self::Conn, Self::Error>>) { unimplemented!() }
}
impl Accept for DuplexIncoming {
    type Conn = DuplexStream;
    type Error = std::io::Error;
    uninterp spec fn accept_polls(&self) -> nat;
    uninterp spec fn accept_outcome(&self) -> Poll<Result<Self::Conn, Self::Error>>;
    #[verifier::external_body]
    fn poll_accept(&mut self, cx: &mut Context<'_>) -> (r: Poll<Result<Self::Conn, Self::Error>>) { unimplemented!() }
}
/// `Poll<Result<T, E>>::map_ok` (std): `Ready(Ok(t))` -> `Ready(Ok(f(t)))`, everything else unchanged
pub assume_specification<T, E, U, F: FnOnce(T) -> U> [std::task::Poll::<Result<T, E>>::map_ok] (p: Poll<Result<T, E>>, f: F) -> (r: Poll<Result<U, E>>)
    requires p matches Poll::Ready(Ok(t)) ==> f.requires((t,)),
    ensures match p {
        Poll::Ready(Ok(t)) => (r matches Poll::Ready(Ok(u)) && f.ensures((t,), u)),
        Poll::Ready(Err(e)) => r == Poll::<Result<U, E>>::Ready(Err(e)),
        Poll::Pending => r is Pending };
