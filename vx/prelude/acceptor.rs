// =============================================================================
// TRUSTED PRELUDE (unit `acceptor`): what `Acceptor::poll_accept` dispatches to and wraps into.  Used with
// prelude/accept_task.rs and prelude/accept_tls.rs (the Pin-erased `Accept` trait with ghost `accept_polls` /
// `accept_outcome`).  Hand-written; every item is an assumption listed in evidence.
// =============================================================================
/// `server::conn::Stream<IO>` (plain or TLS wrapper around an accepted transport): ghost `io()` for the plain form
#[verifier::external_body]
#[verifier::reject_recursive_types(IO)]
pub struct Stream<IO> { _p: PhantomData<IO> }
impl<IO> Stream<IO> {
    pub uninterp spec fn io(&self) -> IO;
    /// `Stream::new`: wraps the transport, no I/O
    #[verifier::external_body]
    pub fn new(io: IO) -> (r: Self)
        ensures r.io() == io
    { unimplemented!() }
}
/// `server::conn::tls::TlsStream<IO>` (handshake not started: unit `accept`, tls.lazy_handshake)
#[verifier::external_body]
#[verifier::reject_recursive_types(IO)]
pub struct TlsStream<IO> { _p: PhantomData<IO> }
impl<IO> From<TlsStream<IO>> for Stream<IO> {
    /// `impl From<TlsStream<IO>> for Stream<IO>`: wraps, no I/O
    #[verifier::external_body]
    fn from(s: TlsStream<IO>) -> (r: Self) { unimplemented!() }
}
/// `server::conn::tls::TlsAcceptor<A>` as an `Accept` (its `poll_accept` is under contract in unit `accept`:
/// tls.polls_once, tls.err_is_listener); here only the trait contract is used
#[verifier::external_body]
#[verifier::reject_recursive_types(A)]
pub struct RawTlsAcceptor<A> { _p: PhantomData<A> }
impl<A: Accept> Accept for RawTlsAcceptor<A> {
    type Conn = TlsStream<A::Conn>;
    type Error = A::Error;
    uninterp spec fn accept_polls(&self) -> nat;
    uninterp spec fn accept_outcome(&self) -> Poll<Result<Self::Conn, Self::Error>>;
    #[verifier::external_body]
    fn poll_accept(&mut self, cx: &mut Context<'_>) -> (r: Poll<Result<Self::Conn, Self::Error>>) { unimplemented!() }
}
/// `Poll<T>::map` (std)
pub assume_specification<T, U, F: FnOnce(T) -> U> [std::task::Poll::<T>::map] (p: Poll<T>, f: F) -> (r: Poll<U>)
    requires p matches Poll::Ready(t) ==> f.requires((t,)),
    ensures match p { Poll::Ready(t) => (r matches Poll::Ready(u) && f.ensures((t,), u)), Poll::Pending => r is Pending };
/// `AcceptorCore`: only named as the default type argument of `Acceptor<A = AcceptorCore>`
#[verifier::external_body]
pub struct AcceptorCore { _p: PhantomData<u8> }
