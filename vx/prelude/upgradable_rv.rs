// =============================================================================
// TRUSTED PRELUDE (unit `upgradable`, part 2 - after the extracted `ConnectionError`, `ReadVersion`, `Rewind`).
// =============================================================================
/// thiserror's `#[from]` on `ConnectionError::Hyper`: the generated `From<hyper::Error>` wraps the error
impl vstd::std_specs::convert::FromSpecImpl<hyper::Error> for ConnectionError {
    open spec fn obeys_from_spec() -> bool { true }
    open spec fn from_spec(e: hyper::Error) -> ConnectionError { ConnectionError::Hyper(e) }
}
impl From<hyper::Error> for ConnectionError {
    fn from(e: hyper::Error) -> (r: ConnectionError) { ConnectionError::Hyper(e) }
}

/// one poll of a sniffer in state `rv` reported verdict `v` and handed out the rewind `rw` (a relation that names
/// the event; what it means for the client's bytes is unit `sniff`: rv.h2 / rv.h1 / rv.rewind)
pub uninterp spec fn decided<I>(rv: ReadVersion<I>, v: HttpProtocol, rw: Rewind<I>) -> bool;

impl<I> ReadVersion<I> {
    /// `impl Future for ReadVersion` - PROVED in unit `sniff` (under its state invariant); restated here as a
    /// stand-in: a cancelled sniffer reports `Interrupted` and changes nothing (rv.cancel); `Pending` keeps the
    /// cancel flag (rv.pending).
    #[verifier::external_body]
    pub fn poll(&mut self, cx: &mut Context<'_>) -> (r: Poll<Result<(HttpProtocol, Rewind<I>), io::Error>>)
        ensures
            old(self).cancelled ==> (r matches Poll::Ready(Err(e)) && err_kind(e) == io::ErrorKind::Interrupted) && *final(self) == *old(self),
            r matches Poll::Ready(Ok((v, rw))) ==> decided(*old(self), v, rw),
            r is Pending ==> final(self).cancelled == old(self).cancelled,
    { unimplemented!() }
}
