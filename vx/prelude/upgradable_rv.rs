// =============================================================================
// TRUSTED PRELUDE (unit `upgradable`, part 2 - after the extracted `ConnectionError`, `ReadVersion`, `Rewind`).
// =============================================================================
/// thiserror's `#[from]` on `ConnectionError::Hyper`: the generated `From<hyper::Error>` wraps the error
impl vstd::std_specs::convert::FromSpecImpl<hyper::Error> for ConnectionError {
    open spec fn obeys_from_spec() -> bool { true }
    open spec fn from_spec(e: hyper::Error) -> ConnectionError { ConnectionError::Hyper(e) }
}
impl From<hyper::Error> for ConnectionError {
    fn from(e: hyper::Error) -> (r: ConnectionError) { ConnectionError::Hyper(e) }
}
// `ReadVersion::poll` is no longer restated here: unit `upgradable` imports the contract unit `sniff` proves (`//@ import`)
