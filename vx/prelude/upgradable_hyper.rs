    // =============================================================================
    // TRUSTED PRELUDE (unit `upgradable`): CONTENTS of `pub mod hyper { .. }` except `hyper::rt` - the unit text opens the
    // module, includes this file, then builds `hyper::rt` from prelude/sniff_hyper_rt.rs (the `Read` / `Write` model of unit
    // `sniff`, needed by the imported contract of `ReadVersion::poll`) plus `rt::bounds`.  Hand-written; assumptions.
    // =============================================================================
    use super::*;
    /// `hyper::Error`: opaque
    #[verifier::external_body]
    pub struct Error { _p: PhantomData<u8> }
    pub mod body {
        use super::super::*;
        #[verifier::external_body]
        pub struct Incoming { _p: PhantomData<u8> }
    }
    pub mod service {
        pub trait HttpService<ReqBody> { type ResBody; type Error; type Future; }
    }
