    // =============================================================================
    // TRUSTED PRELUDE (units `sniff`, `bridge`; unit `upgradable` for the imported contract of `ReadVersion::poll`):
    // the CONTENTS of `pub mod hyper { pub mod rt { .. } }` - hyper's ReadBuf / ReadBufCursor (unsafe code outside
    // reach) and the hyper `Read` / `Write` traits as stand-ins with the Pin-erased signatures (R5).  The unit text
    // opens and closes the two modules (unit `upgradable` adds its own items to `hyper` / `hyper::rt`).
    // Moved verbatim out of prelude/sniff_io.rs.  Hand-written; every item is an assumption listed in the evidence file.
    // =============================================================================
    use vstd::prelude::*;
    use vstd::raw_ptr::MemContents;
    use std::mem::MaybeUninit;
    use std::task::{Context, Poll};
    use super::super::*;

    // ---- hyper::rt::ReadBuf (model) ------------------------------------------------
    // A ReadBuf owns `&'a mut [MaybeUninit<u8>]` plus a `filled` count.  Through its public API the
    // filled region only grows and filled bytes are never overwritten.  Ghost attributes:
    //   cap()        length of the raw buffer
    //   fill()       the bytes of the filled region (what `filled()` returns)
    //   cells()      the raw cells as they are now (only known until a cursor has been handed out)
    //   last_fill()  PROPHECY: the filled region at the moment the ReadBuf is dropped.  `fill()` is always
    //                a prefix of it; when the borrow ends (`has_resolved`) both coincide and the raw
    //                buffer holds exactly these bytes in its first cells (A-buf: raw memory persists).
    #[verifier::external_body]
    pub struct ReadBuf<'a> { p: std::marker::PhantomData<&'a mut u8> }

    // A cursor over the unfilled part.  Ghost attributes:
    //   done()   bytes appended through this cursor so far
    //   room()   capacity still available
    //   cells()  the raw cells of the unfilled part, from the current position
    //   total()  PROPHECY: everything that will have been appended when the cursor is dropped
    #[verifier::external_body]
    pub struct ReadBufCursor<'a> { p: std::marker::PhantomData<&'a mut u8> }

    impl<'a> ReadBuf<'a> {
        pub uninterp spec fn cap(&self) -> nat;
        pub uninterp spec fn fill(&self) -> Seq<u8>;
        pub uninterp spec fn cells(&self) -> Seq<MaybeUninit<u8>>;
        pub uninterp spec fn last_fill(&self) -> Seq<u8>;

        #[verifier::external_body]
        pub fn uninit(raw: &'a mut [MaybeUninit<u8>]) -> (r: ReadBuf<'a>)
            ensures
                r.cap() == old(raw)@.len(),
                r.fill() == Seq::<u8>::empty(),
                r.cells() == old(raw)@,
                r.last_fill().len() <= r.cap(),
                final(raw)@.len() == old(raw)@.len(),
                cells_hold(final(raw)@, r.last_fill()),
                // hyper never de-initialises a byte ("if part of it turns out to be initialized, it must stay initialized")
                no_deinit(old(raw)@, final(raw)@),
        { unimplemented!() }

        #[verifier::external_body]
        pub fn filled(&self) -> (s: &[u8])
            ensures s@ == self.fill()
        { unimplemented!() }

        #[verifier::external_body]
        pub fn unfilled<'c>(&'c mut self) -> (c: ReadBufCursor<'c>)
            ensures
                c.done() == Seq::<u8>::empty(),
                c.room() == old(self).cap() - old(self).fill().len(),
                c.cells() == old(self).cells().skip(old(self).fill().len() as int),
                c.total().len() <= c.room(),
                old(self).fill().len() <= old(self).cap(),
                final(self).cap() == old(self).cap(),
                final(self).last_fill() == old(self).last_fill(),
                final(self).fill() == old(self).fill() + c.total(),
                c.total() == final(self).fill().skip(old(self).fill().len() as int),
                is_prefix_of(final(self).fill(), final(self).last_fill()),
        { unimplemented!() }
    }

    /// end of the ReadBuf's life: the prophecy is the final filled region
    pub broadcast axiom fn axiom_readbuf_resolved(rb: ReadBuf<'_>)
        requires #[trigger] has_resolved(rb),
        ensures rb.fill() == rb.last_fill();

    impl<'a> ReadBufCursor<'a> {
        pub uninterp spec fn done(&self) -> Seq<u8>;
        pub uninterp spec fn room(&self) -> nat;
        pub uninterp spec fn cells(&self) -> Seq<MaybeUninit<u8>>;
        pub uninterp spec fn total(&self) -> Seq<u8>;

        /// representation facts that hold for every cursor state
        pub open spec fn wf(&self) -> bool {
            is_prefix_of(self.done(), self.total()) && self.total().len() <= self.done().len() + self.room()
                && self.cells().len() == self.room()
        }

        /// SAFETY (hyper): the caller must not de-initialise bytes that are initialised.  The slice is the
        /// unfilled part; whatever the caller leaves in it is what the cursor sees afterwards.
        #[verifier::external_body]
        pub unsafe fn as_mut(&mut self) -> (r: &mut [MaybeUninit<u8>])
            ensures
                r@ == old(self).cells(),
                final(r)@.len() == r@.len(),
                final(self).cells() == final(r)@,
                final(self).done() == old(self).done(),
                final(self).room() == old(self).room(),
                final(self).total() == old(self).total(),
        { unimplemented!() }

        /// SAFETY (hyper): the next `n` bytes must have been initialised (and lie inside the buffer:
        /// hyper only checks `filled + n` for arithmetic overflow)
        #[verifier::external_body]
        pub unsafe fn advance(&mut self, n: usize)
            requires
                // tagged: a call site is checked against the *actual* argument (unit bridge, hyper-side `poll_read`)
                n <= old(self).room(), //# tio.read.advance_fits [C18]
                cells_init(old(self).cells(), n as int), //# tio.read.advance_init [C18]
            ensures
                final(self).done() == old(self).done() + cells_val(old(self).cells(), n as int),
                final(self).room() == old(self).room() - n,
                final(self).cells() == old(self).cells().skip(n as int),
                final(self).total() == old(self).total(),
        { unimplemented!() }
    }

    /// every cursor state satisfies `wf` (bytes appended so far are a prefix of the prophecy, and the
    /// rest of the prophecy fits into the remaining room)
    pub broadcast axiom fn axiom_cursor_wf(c: ReadBufCursor<'_>)
        ensures #[trigger] c.wf();

    /// end of the cursor's life: the prophecy is what has been appended
    pub broadcast axiom fn axiom_cursor_resolved(c: ReadBufCursor<'_>)
        requires #[trigger] has_resolved(c),
        ensures c.done() == c.total();

    // ---- hyper::rt::Read (stand-in, Pin-erased) with the ghost stream model -----------
    //   consumed()   bytes this reader has delivered so far
    //   remaining()  PROPHECY: the bytes it will still deliver before end-of-stream
    pub trait Read {
        spec fn consumed(&self) -> Seq<u8>;
        spec fn remaining(&self) -> Seq<u8>;

        fn poll_read(&mut self, cx: &mut Context<'_>, buf: ReadBufCursor<'_>) -> (r: Poll<Result<(), std::io::Error>>)
            ensures
                read_contract(old(self).consumed(), old(self).remaining(), final(self).consumed(), final(self).remaining(), buf, r);
    }

    /// what is (going to be) appended through the cursor from its present state on
    pub open spec fn appended(buf: ReadBufCursor<'_>) -> Seq<u8> {
        buf.total().skip(buf.done().len() as int)
    }

    /// The contract of one `poll_read` call on a byte source whose still-to-come bytes go from r0 to r1:
    /// a `Ready(Ok)` moves a chunk `w` from the front of the stream to the end of the cursor; the chunk is
    /// empty only at end-of-stream or when the cursor has no room.  `Pending` / `Err` move nothing.
    pub open spec fn read_moves(r0: Seq<u8>, r1: Seq<u8>, buf: ReadBufCursor<'_>, r: Poll<Result<(), std::io::Error>>) -> bool {
        let w = appended(buf);
        match r {
            Poll::Ready(Ok(_)) => r0 == w + r1 && (w.len() == 0 ==> (buf.room() == 0 || r0.len() == 0)),
            _ => r1 == r0 && w.len() == 0,
        }
    }
    /// ... and the reader's record of what it has delivered grows by the same chunk
    pub open spec fn read_contract(c0: Seq<u8>, r0: Seq<u8>, c1: Seq<u8>, r1: Seq<u8>, buf: ReadBufCursor<'_>, r: Poll<Result<(), std::io::Error>>) -> bool {
        read_moves(r0, r1, buf, r) && c1 == (if r matches Poll::Ready(Ok(_)) { c0 + appended(buf) } else { c0 })
    }

    // ---- hyper::rt::Write (stand-in, Pin-erased) ---------------------------------------
    // The effect of each operation is an abstract relation between the writer before, the writer after,
    // the arguments and the result; an adapter is transparent when its own operation *is* the inner one.
    pub trait Write: Sized {
        spec fn write_rel(pre: Self, post: Self, buf: Seq<u8>, r: Poll<Result<usize, std::io::Error>>) -> bool;
        spec fn write_vectored_rel(pre: Self, post: Self, bufs: &[std::io::IoSlice<'_>], r: Poll<Result<usize, std::io::Error>>) -> bool;
        spec fn flush_rel(pre: Self, post: Self, r: Poll<Result<(), std::io::Error>>) -> bool;
        spec fn shutdown_rel(pre: Self, post: Self, r: Poll<Result<(), std::io::Error>>) -> bool;
        spec fn vectored(&self) -> bool;

        fn poll_write(&mut self, cx: &mut Context<'_>, buf: &[u8]) -> (r: Poll<Result<usize, std::io::Error>>)
            ensures Self::write_rel(*old(self), *final(self), buf@, r);
        fn poll_write_vectored(&mut self, cx: &mut Context<'_>, bufs: &[std::io::IoSlice<'_>]) -> (r: Poll<Result<usize, std::io::Error>>)
            ensures Self::write_vectored_rel(*old(self), *final(self), bufs, r);
        fn poll_flush(&mut self, cx: &mut Context<'_>) -> (r: Poll<Result<(), std::io::Error>>)
            ensures Self::flush_rel(*old(self), *final(self), r);
        fn poll_shutdown(&mut self, cx: &mut Context<'_>) -> (r: Poll<Result<(), std::io::Error>>)
            ensures Self::shutdown_rel(*old(self), *final(self), r);
        fn is_write_vectored(&self) -> (r: bool)
            ensures r == self.vectored();
    }
