// =============================================================================
// TRUSTED PRELUDE (R8, pool unit, checkout side): `Pool` stands for
// { inner: Arc<Mutex<PoolInner>>, keys: Arc<Mutex<TokenMap<K>>> }.  A-class functions get their assumed
// summaries here.  The checkout types are NOT modelled here any more: unit `pool` extracts the real `Checkout` /
// `Waiting` / `InnerCheckoutConnecting`, takes `Transport` / `Protocol` / `Connector` from prelude/checkout.rs (the
// model unit `checkout` is proved against) and IMPORTS the contract of `Checkout::new` from unit `checkout`.
// =============================================================================
/// stand-in for `pool::Key` (Eq + Hash + Debug + TryFrom<&Parts>): the unit never looks inside a key
pub trait Key: Sized {}

/// A: `TokenMap::insert` (closure capturing `&mut self.counter`): the token of a key is a function of the
/// key, never zero.  Injectivity (distinct keys get distinct tokens until usize::MAX keys were seen) is the
/// axiom below.
pub uninterp spec fn token_of<K>(k: K) -> Token;
pub axiom fn axiom_token_of_injective<K>(a: K, b: K)
    ensures token_of(a) == token_of(b) ==> a == b;

#[verifier::external_body]
#[verifier::reject_recursive_types(K)]
pub struct KeysMutex<K> { _p: PhantomData<K> }
#[verifier::external_body]
#[verifier::reject_recursive_types(K)]
pub struct KeysGuard<K> { _p: PhantomData<K> }
impl<K> KeysMutex<K> {
    #[verifier::external_body]
    pub fn lock(&self) -> (g: KeysGuard<K>) { unimplemented!() }
}
impl<K> KeysGuard<K> {
    #[verifier::external_body]
    pub fn insert(&mut self, key: K) -> (r: Token)
        ensures r == token_of(key), !(r.0 is None)
    { unimplemented!() }
}

#[verifier::external_body]
#[verifier::reject_recursive_types(C)]
#[verifier::reject_recursive_types(B)]
pub struct PoolMutex<C, B> where C: PoolableConnection<B>, B: Send + 'static { _p: PhantomData<(C, B)> }
impl<C, B> PoolMutex<C, B> where C: PoolableConnection<B>, B: Send + 'static {
    /// T2 (monitor rule): the protected value satisfies `wf` on acquisition
    #[verifier::external_body]
    pub fn lock(&self) -> (g: PoolGuard<C, B>)
        ensures g@.wf()
    { unimplemented!() }
}

#[verifier::reject_recursive_types(C)]
#[verifier::reject_recursive_types(B)]
#[verifier::reject_recursive_types(K)]
pub struct Pool<C, B, K> where C: PoolableConnection<B>, B: Send + 'static {
    pub inner: PoolMutex<C, B>,
    pub keys: KeysMutex<K>,
}
impl<C, B, K> Pool<C, B, K> where C: PoolableConnection<B>, B: Send + 'static {
    #[verifier::external_body]
    pub fn as_ref(&self) -> (r: PoolRef<C, B>)
        ensures !r.is_none_ref()
    { unimplemented!() }
}
