// =============================================================================
// TRUSTED PRELUDE (eyeballs unit, part 2): the future returned by `EyeballSet::join_next`.
//
// Verus gives an `async fn` a contract for COMPLETION only.  `join_next` is also CANCELLED (its future is
// handed to `tokio::time::timeout` and dropped when the stagger delay fires), and Verus has no notion of
// what a dropped, half-run async body leaves behind.  Callers therefore see this stand-in:
//   * completion half  = `join_effects` + `wf` preservation, the very clauses that are PROVED on the real body (`join_next_body`);
//   * cancellation half = `wait_abandoned` (ASSUMED): `join_next` has a single await (`self.tasks.next()`),
//     assigns `self.error` only after it, and `StreamExt::next` is cancel-safe; before the await only
//     `self.started` is touched (not mentioned in any contract).
// =============================================================================
impl<F, T, E> EyeballSet<F, T, E> where F: Future<Output = Result<T, E>> {
    #[verifier::external_body]
    pub fn join_next<'a>(&'a mut self) -> (fut: impl Future<Output = Eyeball<T>> + 'a)
        ensures
            fut.awaited() ==> Self::join_effects(*old(self), *final(self), fut@),
            fut.awaited() ==> (old(self).wf() ==> final(self).wf()),
            !fut.awaited() ==> Self::wait_abandoned(*old(self), *final(self)),
    { std::future::pending() }
}
