// =============================================================================
// SHARED SPEC FUNCTIONS (units `sniff`, `bridge`, `upgradable`): raw (possibly uninitialised) memory in vstd's
// MaybeUninit model, byte-sequence prefix.  Moved out of prelude/sniff_io.rs so that unit `upgradable` can import
// the contract unit `sniff` proves for `ReadVersion::poll` (its invariant `inv()` speaks about `cells_hold`).
// Pure `open spec fn` definitions, no assumption.  Needs `vstd::raw_ptr::MemContents`, `std::mem::MaybeUninit`.
// =============================================================================
// ---- raw (possibly uninitialised) memory: vstd's MaybeUninit model ----------------
/// cells `[0, s.len())` of `cs` are initialised and hold the bytes `s`
pub open spec fn cells_hold(cs: Seq<MaybeUninit<u8>>, s: Seq<u8>) -> bool {
    s.len() <= cs.len() && forall|i: int| 0 <= i < s.len() ==> (#[trigger] cs[i]).mem_contents() == MemContents::Init(s[i])
}
/// cells `[0, n)` of `cs` are initialised
pub open spec fn cells_init(cs: Seq<MaybeUninit<u8>>, n: int) -> bool {
    n <= cs.len() && forall|i: int| 0 <= i < n ==> (#[trigger] cs[i]).mem_contents() is Init
}
/// the bytes held by cells `[0, n)`
pub open spec fn cells_val(cs: Seq<MaybeUninit<u8>>, n: int) -> Seq<u8> {
    Seq::new(n as nat, |i: int| cs[i].mem_contents().value())
}
/// going from cells `a` to cells `b` no initialised byte was de-initialised
pub open spec fn no_deinit(a: Seq<MaybeUninit<u8>>, b: Seq<MaybeUninit<u8>>) -> bool {
    a.len() == b.len() && forall|i: int| 0 <= i < b.len() && a[i].mem_contents() is Init ==> (#[trigger] b[i]).mem_contents() is Init
}
pub open spec fn is_prefix_of(a: Seq<u8>, b: Seq<u8>) -> bool {
    a.len() <= b.len() && b.take(a.len() as int) == a
}
