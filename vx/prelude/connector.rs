// =============================================================================
// TRUSTED PRELUDE (unit `connector`): stand-ins for what client/conn/connector.rs uses from
// std::future, client::conn::{Transport, Protocol}, crate::info and tower.  Hand-written; every
// item is an assumption listed in evidence.  Pin is erased (R5/R6e).
//
// Model of a future / a service's readiness: a stream of poll results.
//   next()  prophecy: what the next poll returns          last()  what the most recent poll returned
//   polls() how often it was polled                        fid()   ghost identity given at creation
// =============================================================================

/// std::future::Future after Pin erasure.  Polling a future that has returned Ready is outside the trait's
/// contract (the futures met here panic: "`async fn` resumed after completion", "future polled in invalid
/// state", ...): the precondition makes it a proof obligation of every caller.
pub trait Future {
    type Output;
    /// ghost identity: given by whoever created the future, never changed by `poll`
    spec fn fid(&self) -> int;
    spec fn polls(&self) -> nat;
    /// result of the most recent poll (`None`: never polled)
    spec fn last(&self) -> Option<Poll<Self::Output>>;
    /// prophecy: result of the next poll
    spec fn next(&self) -> Poll<Self::Output>;

    fn poll(&mut self, cx: &mut Context<'_>) -> (r: Poll<Self::Output>)
        requires
            !(old(self).last() matches Some(Poll::Ready(_))),
        ensures
            r == old(self).next(),
            final(self).fid() == old(self).fid(),
            final(self).polls() == old(self).polls() + 1,
            final(self).last() == Some(r);
}
/// the future has completed: it must not be polled again
pub open spec fn fut_done<F: Future>(f: F) -> bool {
    f.last() matches Some(Poll::Ready(_))
}

/// `crate::info::ConnectionInfo<Addr>` (addresses of a stream; only used for a trace line)
#[verifier::external_body]
#[verifier::reject_recursive_types(A)]
pub struct ConnectionInfo<A> { _p: PhantomData<A> }
/// `crate::info::HasConnectionInfo`
pub trait HasConnectionInfo {
    type Addr;
    fn info(&self) -> ConnectionInfo<Self::Addr>;
}

/// `client::conn::Transport` (a tower::Service<Parts> under another name).
/// tower's contract: `connect` (= `call`) may only be used after `poll_ready` has returned `Ready(Ok(()))`
/// on this very value, and uses that readiness up (a service may panic otherwise).
pub trait Transport: Sized {
    type IO: HasConnectionInfo;
    type Error;
    type Future: Future<Output = Result<Self::IO, <Self as Transport>::Error>>;

    /// ghost identity of this transport value (a clone is another value)
    spec fn tid(&self) -> int;
    spec fn ready_polls(&self) -> nat;
    /// result of the most recent `poll_ready` (`None`: not polled since creation / since the last `connect`)
    spec fn ready_last(&self) -> Option<Poll<Result<(), <Self as Transport>::Error>>>;
    /// prophecy: result of the next `poll_ready`
    spec fn ready_next(&self) -> Poll<Result<(), <Self as Transport>::Error>>;
    /// creation record of a connect future: which transport made it, for which request
    spec fn made_by(fid: int) -> int;
    spec fn made_for(fid: int) -> http::request::Parts;

    fn connect(&mut self, req: http::request::Parts) -> (f: <Self as Transport>::Future)
        requires
            old(self).ready_last() matches Some(Poll::Ready(Ok(_))),
        ensures
            Self::made_by(f.fid()) == old(self).tid(),
            Self::made_for(f.fid()) == req,
            f.polls() == 0 && f.last() is None,
            final(self).tid() == old(self).tid(),
            final(self).ready_last() is None;

    fn poll_ready(&mut self, cx: &mut Context<'_>) -> (r: Poll<Result<(), <Self as Transport>::Error>>)
        ensures
            r == old(self).ready_next(),
            final(self).tid() == old(self).tid(),
            final(self).ready_polls() == old(self).ready_polls() + 1,
            final(self).ready_last() == Some(r);
}

/// `client::conn::Protocol<IO, B>` (a tower::Service<ProtocolRequest<IO, B>> under another name); same readiness
/// contract as `Transport`
pub trait Protocol<IO: HasConnectionInfo, B>: Sized {
    type Error;
    type Connection;
    type Future: Future<Output = Result<Self::Connection, <Self as Protocol<IO, B>>::Error>>;

    spec fn pid(&self) -> int;
    spec fn ready_polls(&self) -> nat;
    spec fn ready_last(&self) -> Option<Poll<Result<(), <Self as Protocol<IO, B>>::Error>>>;
    spec fn ready_next(&self) -> Poll<Result<(), <Self as Protocol<IO, B>>::Error>>;
    /// creation record of a handshake future: which protocol value made it, on which stream, for which version
    spec fn hs_by(fid: int) -> int;
    spec fn hs_on(fid: int) -> IO;
    spec fn hs_version(fid: int) -> HttpProtocol;

    fn connect(&mut self, transport: IO, version: HttpProtocol) -> (f: <Self as Protocol<IO, B>>::Future)
        requires
            old(self).ready_last() matches Some(Poll::Ready(Ok(_))),
        ensures
            Self::hs_by(f.fid()) == old(self).pid(),
            Self::hs_on(f.fid()) == transport,
            Self::hs_version(f.fid()) == version,
            f.polls() == 0 && f.last() is None,
            final(self).pid() == old(self).pid(),
            final(self).ready_last() is None;

    fn poll_ready(&mut self, cx: &mut Context<'_>) -> (r: Poll<Result<(), <Self as Protocol<IO, B>>::Error>>)
        ensures
            r == old(self).ready_next(),
            final(self).pid() == old(self).pid(),
            final(self).ready_polls() == old(self).ready_polls() + 1,
            final(self).ready_last() == Some(r);
}

/// A: `ConnectorMeta` (tracing spans of a connection attempt; no effect on program state, T1)
#[verifier::external_body]
pub struct ConnectorMeta { _p: PhantomData<()> }
impl ConnectorMeta {
    #[verifier::external_body]
    pub fn new() -> (r: Self) { unimplemented!() }
}

/// `Poll::map`: the closure is applied to a Ready value (through the closure's own contract)
pub assume_specification<T, U, F: FnOnce(T) -> U> [std::task::Poll::<T>::map] (p: std::task::Poll<T>, f: F) -> (r: std::task::Poll<U>)
    requires
        p matches std::task::Poll::Ready(v) ==> f.requires((v,)),
    ensures
        p is Pending ==> r is Pending,
        p matches std::task::Poll::Ready(v) ==> (r matches std::task::Poll::Ready(u) && f.ensures((v,), u));

// ---------------------------------------------------------------------------------------------
// what `ConnectorService` and its `ResponseFuture` use
// ---------------------------------------------------------------------------------------------
/// `crate::BoxError` (Box<dyn Error + Send + Sync>): opaque
#[verifier::external_body]
pub struct BoxError { _p: PhantomData<()> }
/// `http_body::Body`
pub trait Body { type Data; type Error; }
/// `client::conn::Connection<B>`: only named in bounds
pub trait Connection<B> { type ResBody; }
/// `client::conn::connection::ConnectionError`: opaque (the connector code only moves it)
#[verifier::external_body]
pub struct ConnectionError { _p: PhantomData<()> }
/// `client::Error`: opaque; each conversion into it is a function of the source error
#[verifier::external_body]
pub struct ClientError { _p: PhantomData<()> }
pub uninterp spec fn client_error_of_connector<A, B>(e: Error<A, B>) -> ClientError;
pub uninterp spec fn client_error_of_connection(e: BoxError) -> ClientError;
pub uninterp spec fn box_of_connection_error(e: ConnectionError) -> BoxError;
impl ClientError {
    /// the tuple-variant constructor `client::Error::Connection(BoxError)`
    #[verifier::external_body]
    #[allow(non_snake_case)]
    pub fn Connection(e: BoxError) -> (r: ClientError)
        ensures r == client_error_of_connection(e)
    { unimplemented!() }
}
/// `impl<E1, E2> From<connector::Error<E1, E2>> for client::Error` (client/error.rs)
impl<E1, E2> vstd::std_specs::convert::FromSpecImpl<Error<E1, E2>> for ClientError {
    open spec fn obeys_from_spec() -> bool { true }
    open spec fn from_spec(e: Error<E1, E2>) -> ClientError { client_error_of_connector(e) }
}
impl<E1, E2> From<Error<E1, E2>> for ClientError {
    #[verifier::external_body]
    fn from(e: Error<E1, E2>) -> (r: ClientError)
        ensures r == client_error_of_connector(e)
    { unimplemented!() }
}
/// `impl From<E: std::error::Error> for Box<dyn Error>` at `ConnectionError`
impl vstd::std_specs::convert::FromSpecImpl<ConnectionError> for BoxError {
    open spec fn obeys_from_spec() -> bool { true }
    open spec fn from_spec(e: ConnectionError) -> BoxError { box_of_connection_error(e) }
}
impl From<ConnectionError> for BoxError {
    #[verifier::external_body]
    fn from(e: ConnectionError) -> (r: BoxError)
        ensures r == box_of_connection_error(e)
    { unimplemented!() }
}

/// `service::ExecuteRequest<C, B>`: a connection bundled with the request to send on it
#[verifier::reject_recursive_types(C)]
#[verifier::reject_recursive_types(B)]
pub struct ExecuteRequest<C, B> { pub conn: C, pub request: http::Request<B> }
impl<C, B> ExecuteRequest<C, B> {
    pub fn new(conn: C, request: http::Request<B>) -> (r: Self)
        ensures r.conn == conn, r.request == request
    { ExecuteRequest { conn, request } }
}

/// tower::Service<R>; the futures it returns obey the `Future` model above.  `sent(fid)`: creation record of a
/// response future - the request it was created for.
pub mod tower {
    use super::*;
    pub trait Service<R> {
        type Response;
        type Error;
        type Future: Future<Output = Result<Self::Response, Self::Error>>;
        spec fn sent(fid: int) -> R;
        fn call(&mut self, req: R) -> (f: Self::Future)
            ensures Self::sent(f.fid()) == req, f.polls() == 0 && f.last() is None;
    }
}

/// `http::Request::{into_parts, from_parts}` and `Parts: Clone` (the http crate): head and body are split and joined
/// without change.  `rest_s()` stands for the body.
pub uninterp spec fn body_id<B>(b: B) -> int;
impl<B> Request<B> {
    #[verifier::external_body]
    pub fn into_parts(self) -> (r: (RequestParts, B))
        ensures
            r.0.version == self.version_s(), r.0.method == self.method_s(), r.0.uri == self.uri_s(),
            r.0.headers == self.headers_s(), r.0.extensions == self.ext_s(), body_id(r.1) == self.rest_s(),
    { unimplemented!() }
    #[verifier::external_body]
    pub fn from_parts(parts: RequestParts, body: B) -> (r: Self)
        ensures
            r.version_s() == parts.version, r.method_s() == parts.method, r.uri_s() == parts.uri,
            r.headers_s() == parts.headers, r.ext_s() == parts.extensions, r.rest_s() == body_id(body),
    { unimplemented!() }
}
impl Clone for RequestParts {
    #[verifier::external_body]
    fn clone(&self) -> (r: Self)
        ensures r.version == self.version, r.method == self.method, r.uri == self.uri, r.headers == self.headers
    { unimplemented!() }
}
