// =============================================================================
// TRUSTED PRELUDE (unit `bridge`): tokio's ReadBuf (unsafe code outside reach)
// and the tokio `AsyncRead` / `AsyncWrite` traits as stand-ins with the
// Pin-erased signatures (R5).  Hand-written; every item is an assumption
// listed in the evidence file.
// =============================================================================
pub mod tokio {
pub mod io {
    use vstd::prelude::*;
    use vstd::raw_ptr::MemContents;
    use std::mem::MaybeUninit;
    use std::task::{Context, Poll};
    use super::super::*;

    // ---- tokio::io::ReadBuf (model) ------------------------------------------------
    // `buf: &'a mut [MaybeUninit<u8>]`, `filled <= initialized <= capacity`.  Ghost attributes:
    //   cap()         length of the raw buffer
    //   fill()        the bytes of the filled region (`filled()`)
    //   init()        the `initialized` watermark
    //   cells()       the raw cells as they are now
    //   last_cells()  PROPHECY: the raw cells when the ReadBuf is dropped (= what the lender of the raw
    //                 buffer sees afterwards)
    #[verifier::external_body]
    pub struct ReadBuf<'a> { p: std::marker::PhantomData<&'a mut u8> }

    impl<'a> ReadBuf<'a> {
        pub uninterp spec fn cap(&self) -> nat;
        pub uninterp spec fn fill(&self) -> Seq<u8>;
        pub uninterp spec fn init(&self) -> nat;
        pub uninterp spec fn cells(&self) -> Seq<MaybeUninit<u8>>;
        pub uninterp spec fn last_cells(&self) -> Seq<MaybeUninit<u8>>;

        /// tokio's representation invariant: filled <= initialized <= capacity, the filled cells hold the
        /// filled bytes, everything below the watermark is initialised
        pub open spec fn wf(&self) -> bool {
            &&& self.fill().len() <= self.init() <= self.cap()
            &&& self.cap() <= usize::MAX
            &&& self.cells().len() == self.cap()
            &&& cells_hold(self.cells(), self.fill())
            &&& cells_init(self.cells(), self.init() as int)
        }

        #[verifier::external_body]
        pub fn uninit(buf: &'a mut [MaybeUninit<u8>]) -> (r: ReadBuf<'a>)
            ensures
                r.cap() == old(buf)@.len(),
                r.fill() == Seq::<u8>::empty(),
                r.init() == 0,
                r.cells() == old(buf)@,
                final(buf)@ == r.last_cells(),
                r.wf(),
        { unimplemented!() }

        #[verifier::external_body]
        pub fn filled(&self) -> (s: &[u8])
            ensures s@ == self.fill()
        { unimplemented!() }

        /// SAFETY (tokio): the caller must not de-initialise portions of the buffer that have already been
        /// initialised (obligation `tio.aread.no_deinit` at the end of the borrow).
        #[verifier::external_body]
        pub unsafe fn unfilled_mut(&mut self) -> (r: &mut [MaybeUninit<u8>])
            ensures
                r@ == old(self).cells().skip(old(self).fill().len() as int),
                final(r)@.len() == r@.len(),
                final(self).cells() == old(self).cells().take(old(self).fill().len() as int) + final(r)@,
                final(self).cap() == old(self).cap(),
                final(self).fill() == old(self).fill(),
                final(self).init() == old(self).init(),
                final(self).last_cells() == old(self).last_cells(),
        { unimplemented!() }

        /// SAFETY (tokio): `n` unfilled bytes of the buffer must already have been initialised
        #[verifier::external_body]
        pub unsafe fn assume_init(&mut self, n: usize)
            requires
                old(self).fill().len() + n <= old(self).cap(),
                cells_init(old(self).cells(), old(self).fill().len() + n),
            ensures
                final(self).init() == (if old(self).fill().len() + n > old(self).init() { (old(self).fill().len() + n) as nat } else { old(self).init() }),
                final(self).cap() == old(self).cap(),
                final(self).fill() == old(self).fill(),
                final(self).cells() == old(self).cells(),
                final(self).last_cells() == old(self).last_cells(),
        { unimplemented!() }

        /// PANICS (tokio) when `n > initialized`: the precondition is a proof obligation
        #[verifier::external_body]
        pub fn set_filled(&mut self, n: usize)
            requires
                n <= old(self).init(),
            ensures
                final(self).fill() == cells_val(old(self).cells(), n as int),
                final(self).init() == old(self).init(),
                final(self).cap() == old(self).cap(),
                final(self).cells() == old(self).cells(),
                final(self).last_cells() == old(self).last_cells(),
        { unimplemented!() }
    }

    /// end of the ReadBuf's life: the lender sees the cells as they are
    pub broadcast axiom fn axiom_tokio_readbuf_resolved(rb: ReadBuf<'_>)
        requires #[trigger] has_resolved(rb),
        ensures rb.cells() == rb.last_cells();

    /// what a call appended to the filled region of a tokio ReadBuf
    pub open spec fn tappended(pre: ReadBuf<'_>, post: ReadBuf<'_>) -> Seq<u8> {
        post.fill().skip(pre.fill().len() as int)
    }

    /// The contract of one `AsyncRead::poll_read` call: the buffer keeps its capacity and its previously
    /// filled prefix, the watermark does not drop, no initialised byte is de-initialised; `Ready(Ok)` appends a chunk `w` taken from the front of
    /// the stream (empty only at end-of-stream or when there is no room); `Pending` / `Err` append nothing.
    pub open spec fn aread_moves(r0: Seq<u8>, r1: Seq<u8>, pre: ReadBuf<'_>, post: ReadBuf<'_>, r: Poll<Result<(), std::io::Error>>) -> bool {
        let w = tappended(pre, post);
        &&& post.cap() == pre.cap()
        &&& post.last_cells() == pre.last_cells()
        &&& is_prefix_of(pre.fill(), post.fill())
        &&& post.init() >= pre.init()
        &&& post.wf()
        &&& no_deinit(pre.cells(), post.cells())
        &&& match r {
            Poll::Ready(Ok(_)) => r0 == w + r1 && (w.len() == 0 ==> (pre.cap() == pre.fill().len() || r0.len() == 0)),
            _ => r1 == r0 && w.len() == 0,
        }
    }
    pub open spec fn aread_contract(c0: Seq<u8>, r0: Seq<u8>, c1: Seq<u8>, r1: Seq<u8>, pre: ReadBuf<'_>, post: ReadBuf<'_>, r: Poll<Result<(), std::io::Error>>) -> bool {
        aread_moves(r0, r1, pre, post, r) && c1 == (if r matches Poll::Ready(Ok(_)) { c0 + tappended(pre, post) } else { c0 })
    }

    // ---- tokio::io::AsyncRead (stand-in, Pin-erased), same ghost stream model as hyper's Read ----
    pub trait AsyncRead {
        spec fn consumed(&self) -> Seq<u8>;
        spec fn remaining(&self) -> Seq<u8>;

        fn poll_read(&mut self, cx: &mut Context<'_>, buf: &mut ReadBuf<'_>) -> (r: Poll<Result<(), std::io::Error>>)
            requires
                old(buf).wf(),
            ensures
                aread_contract(old(self).consumed(), old(self).remaining(), final(self).consumed(), final(self).remaining(), *old(buf), *final(buf), r);
    }

    // ---- tokio::io::AsyncWrite (stand-in, Pin-erased): abstract effect relations, as for hyper's Write ----
    pub trait AsyncWrite: Sized {
        spec fn write_rel(pre: Self, post: Self, buf: Seq<u8>, r: Poll<Result<usize, std::io::Error>>) -> bool;
        spec fn write_vectored_rel(pre: Self, post: Self, bufs: &[std::io::IoSlice<'_>], r: Poll<Result<usize, std::io::Error>>) -> bool;
        spec fn flush_rel(pre: Self, post: Self, r: Poll<Result<(), std::io::Error>>) -> bool;
        spec fn shutdown_rel(pre: Self, post: Self, r: Poll<Result<(), std::io::Error>>) -> bool;
        spec fn vectored(&self) -> bool;

        fn poll_write(&mut self, cx: &mut Context<'_>, buf: &[u8]) -> (r: Poll<Result<usize, std::io::Error>>)
            ensures Self::write_rel(*old(self), *final(self), buf@, r);
        fn poll_write_vectored(&mut self, cx: &mut Context<'_>, bufs: &[std::io::IoSlice<'_>]) -> (r: Poll<Result<usize, std::io::Error>>)
            ensures Self::write_vectored_rel(*old(self), *final(self), bufs, r);
        fn poll_flush(&mut self, cx: &mut Context<'_>) -> (r: Poll<Result<(), std::io::Error>>)
            ensures Self::flush_rel(*old(self), *final(self), r);
        fn poll_shutdown(&mut self, cx: &mut Context<'_>) -> (r: Poll<Result<(), std::io::Error>>)
            ensures Self::shutdown_rel(*old(self), *final(self), r);
        fn is_write_vectored(&self) -> (r: bool)
            ensures r == self.vectored();
    }
}
}
