// =============================================================================
// TRUSTED PRELUDE (unit alpn): the two protocol handshakes of HttpConnectionBuilder are opaque (hyper);
// a transport exposes the ALPN result of its TLS handshake.
// =============================================================================
pub mod http {
    use vstd::prelude::*;
    use vstd::std_specs::cmp::*;
    #[derive(Clone, Copy, Eq)]
    pub struct Version(pub u8);
    impl Version {
        pub const HTTP_11: Version = Version(2);
        pub const HTTP_2: Version = Version(3);
    }
    /// `==` on the stand-in is structural equality (http's Version derives PartialEq)
    impl PartialEq for Version {
        #[verifier::external_body]
        fn eq(&self, o: &Self) -> (r: bool) ensures r == (*self == *o) { self.0 == o.0 }
    }
    impl PartialEqSpecImpl for Version {
        open spec fn obeys_eq_spec() -> bool { true }
        open spec fn eq_spec(&self, o: &Self) -> bool { *self == *o }
    }
}

#[derive(Clone, Copy, PartialEq, Eq)]
pub enum HttpProtocol { Http1, Http2 }

pub mod crate_info {}
pub mod info {
    use super::*;
    use vstd::prelude::*;
    use vstd::std_specs::cmp::*;
    #[derive(Clone, Copy, Eq)]
    pub enum Protocol { Http(http::Version), Other }
    /// `==` is structural equality (crate::info::Protocol derives PartialEq)
    impl PartialEq for Protocol {
        #[verifier::external_body]
        fn eq(&self, o: &Self) -> (r: bool) ensures r == (*self == *o) { unimplemented!() }
    }
    impl PartialEqSpecImpl for Protocol {
        open spec fn obeys_eq_spec() -> bool { true }
        open spec fn eq_spec(&self, o: &Self) -> bool { *self == *o }
    }
}
pub struct TlsConnectionInfo { pub alpn: Option<info::Protocol> }

pub trait HasTlsConnectionInfo {
    /// ghost: what the TLS handshake negotiated via ALPN (None: no TLS, or nothing negotiated)
    spec fn alpn_s(&self) -> Option<info::Protocol>;
    fn tls_info(&self) -> (r: Option<&TlsConnectionInfo>)
        ensures (match r { Some(t) => t.alpn, None => None }) == self.alpn_s();
}

pub trait HasConnectionInfo { type Addr; }
pub trait AsyncRead {}
pub trait AsyncWrite {}

#[verifier::external_body]
pub struct ConnectionError { _p: () }

/// the connection a handshake produces: HTTP/2 or HTTP/1.1
#[verifier::external_body]
#[verifier::reject_recursive_types(B)]
pub struct HttpConnection<B> { _p: std::marker::PhantomData<B> }
impl<B> HttpConnection<B> {
    pub uninterp spec fn is_h2(&self) -> bool;
}

#[verifier::reject_recursive_types(B)]
pub struct HttpConnectionBuilder<B> { pub _p: std::marker::PhantomData<B> }
impl<B> HttpConnectionBuilder<B> {
    #[verifier::external_body]
    pub async fn handshake_h2<IO>(&self, stream: IO) -> (r: Result<HttpConnection<B>, ConnectionError>)
        ensures r is Ok ==> r->Ok_0.is_h2()
    { unimplemented!() }
    #[verifier::external_body]
    pub async fn handshake_h1<IO>(&self, stream: IO) -> (r: Result<HttpConnection<B>, ConnectionError>)
        ensures r is Ok ==> !r->Ok_0.is_h2()
    { unimplemented!() }
}
