// =============================================================================
// TRUSTED PRELUDE (unit `cdrop`): what `<Checkout as PinnedDrop>::drop` needs beyond the preludes of unit
// `checkout`.  Included INSIDE `mod cdrop_scope` of units/cdrop.vxu: a module of its own so that the path
// `tokio::task::spawn` of the extracted text resolves to the stand-in below (the `tokio` stand-in module of
// prelude/pool_guard.rs has `spawn` but no `task`; a local item shadows the glob import of the outer one).
// Hand-written; every item is an assumption.
// =============================================================================

/// R23: the future built by the async block of `drop`,
///     async move { if let Err(err) = checkout.await { tracing::error!(error=%err, "error during delayed drop"); } }
/// Opaque (Verus has no generator types).  It OWNS exactly one value, the checkout it captured; its body is not
/// part of `drop` - it runs in the task the future is handed to: it drives that checkout (`Checkout::poll`, under
/// contract in unit `checkout`: ck.poll.*) and logs an error result.
#[verifier::external_body]
#[verifier::reject_recursive_types(T)]
#[verifier::reject_recursive_types(P)]
#[verifier::reject_recursive_types(B)]
pub struct DelayedDrop<T, P, B>
    where T: Transport + 'static, P: Protocol<T::IO, B> + Send + 'static, P::Connection: PoolableConnection<B>, B: Send + 'static
{ _p: PhantomData<(T, P, B)> }

impl<T, P, B> DelayedDrop<T, P, B>
    where T: Transport + 'static, P: Protocol<T::IO, B> + Send + 'static, P::Connection: PoolableConnection<B>, B: Send + 'static
{
    /// ghost: the checkout this future owns and will drive
    pub uninterp spec fn checkout(&self) -> Checkout<T, P, B>;
}

/// R23 constructor of the 0-th async block of `drop` (captures: `checkout`, by move)
#[verifier::external_body]
pub fn async_block_0<T, P, B>(checkout: Checkout<T, P, B>) -> (r: DelayedDrop<T, P, B>)
    where T: Transport + 'static, P: Protocol<T::IO, B> + Send + 'static, P::Connection: PoolableConnection<B>, B: Send + 'static
    ensures r.checkout() == checkout
{ unimplemented!() }

/// `tokio::task::spawn` (the same function as `tokio::spawn` of prelude/pool_guard.rs, same ghost record `spawned`):
/// the future is handed to the runtime.  A: a runtime is present (tokio panics otherwise: "there is no reactor
/// running"); the JoinHandle is dropped by the caller (detached task) - returned as unit here.
pub mod tokio { pub mod task {
    use super::super::super::*;
    #[verifier::external_body]
    pub fn spawn<F>(f: F)
        ensures spawned(f)
    { unimplemented!() }
} }
