// =============================================================================
// TRUSTED PRELUDE (unit unixinfo): tokio's UnixStream and the OS address queries (may fail for peers whose address
// the crate cannot represent, e.g. a non-UTF-8 path); UnixAddr is opaque.
// =============================================================================
#[verifier::external_type_specification]
#[verifier::external_body]
pub struct ExIoError(std::io::Error);

#[verifier::external_body]
pub struct UnixAddr { _p: () }
impl Clone for UnixAddr {
    #[verifier::external_body]
    fn clone(&self) -> (r: Self) ensures r == *self { unimplemented!() }
}
#[verifier::external_body]
pub struct OsSocketAddr { _p: () }
impl UnixAddr {
    /// `TryFrom<tokio::net::unix::SocketAddr>`: fails for paths that are not UTF-8
    #[verifier::external_body]
    pub fn try_from(a: OsSocketAddr) -> (r: Result<UnixAddr, std::io::Error>) { unimplemented!() }
}

pub mod tokio { pub mod net {
    use super::super::*;
    #[verifier::external_body]
    pub struct UnixStream { _p: () }
    impl UnixStream {
        #[verifier::external_body]
        pub fn peer_addr(&self) -> (r: Result<OsSocketAddr, std::io::Error>) { unimplemented!() }
        #[verifier::external_body]
        pub fn local_addr(&self) -> (r: Result<OsSocketAddr, std::io::Error>) { unimplemented!() }
    }
} }

pub assume_specification<T, E, U, F: FnOnce(T) -> Result<U, E>> [Result::<T, E>::and_then] (r0: Result<T, E>, f: F) -> (r: Result<U, E>)
    requires r0 is Ok ==> f.requires((r0->Ok_0,)),
    ensures
        r0 is Err ==> r is Err,
        r0 is Ok ==> f.ensures((r0->Ok_0,), r);
