// =============================================================================
// TRUSTED PRELUDE (unit unixinfo): tokio's UnixStream and the OS address queries (may fail for peers whose address
// the crate cannot represent, e.g. a non-UTF-8 path); UnixAddr is opaque.
// =============================================================================
#[verifier::external_type_specification]
#[verifier::external_body]
pub struct ExIoError(std::io::Error);

#[verifier::external_body]
pub struct UnixAddr { _p: () }
impl Clone for UnixAddr {
    #[verifier::external_body]
    fn clone(&self) -> (r: Self) ensures r == *self { unimplemented!() }
}
#[verifier::external_body]
pub struct OsSocketAddr { _p: () }
impl UnixAddr {
    /// `TryFrom<tokio::net::unix::SocketAddr>`: fails for paths that are not UTF-8
    #[verifier::external_body]
    pub fn try_from(a: OsSocketAddr) -> (r: Result<UnixAddr, std::io::Error>) { unimplemented!() }
}

pub mod tokio { pub mod net {
    use super::super::*;
    #[verifier::external_body]
    pub struct UnixStream { _p: () }
    impl UnixStream {
        #[verifier::external_body]
        pub fn peer_addr(&self) -> (r: Result<OsSocketAddr, std::io::Error>) { unimplemented!() }
        #[verifier::external_body]
        pub fn local_addr(&self) -> (r: Result<OsSocketAddr, std::io::Error>) { unimplemented!() }
    }
} }

pub assume_specification<T, E, U, F: FnOnce(T) -> Result<U, E>> [Result::<T, E>::and_then] (r0: Result<T, E>, f: F) -> (r: Result<U, E>)
    requires r0 is Ok ==> f.requires((r0->Ok_0,)),
    ensures
        r0 is Err ==> r is Err,
        r0 is Ok ==> f.ensures((r0->Ok_0,), r);

// ---- tokio's UnixListener as the accept loop sees it (`pub use tokio::net::UnixListener` in stream/unix.rs) ----
// Prophecy form as in prelude/tcpinfo.rs: `accept_outcome()` of the listener AFTER the call is what that call answered.
#[verifier::external_type_specification]
#[verifier::external_body]
pub struct ExContext<'a>(std::task::Context<'a>);

#[verifier::reject_recursive_types(T)]
#[verifier::external_type_specification]
pub struct ExPoll<T>(std::task::Poll<T>);

impl OsSocketAddr {
    /// `TryInto<UnixAddr>` through `TryFrom<tokio::net::unix::SocketAddr> for UnixAddr`: may fail (non-UTF-8 path)
    #[verifier::external_body]
    pub fn try_into(self) -> (r: Result<UnixAddr, std::io::Error>) { unimplemented!() }
}
impl Default for UnixAddr {
    /// `#[derive(Default)]`: the unnamed address
    #[verifier::external_body]
    fn default() -> (r: Self) { unimplemented!() }
}
/// `Result::unwrap_or_default` (std): total - `Err` gives `T::default()`
pub assume_specification<T: Default, E> [Result::<T, E>::unwrap_or_default] (r0: Result<T, E>) -> (r: T)
    ensures r0 matches Ok(v) ==> r == v;

#[verifier::external_body]
pub struct UnixListener { _p: () }
impl UnixListener {
    pub uninterp spec fn accept_polls(&self) -> nat;
    pub uninterp spec fn accept_outcome(&self) -> std::task::Poll<Result<(tokio::net::UnixStream, OsSocketAddr), std::io::Error>>;
    /// tokio::net::UnixListener::poll_accept (inherent): one OS-level accept attempt
    #[verifier::external_body]
    pub fn poll_accept(&mut self, cx: &mut std::task::Context<'_>) -> (r: std::task::Poll<Result<(tokio::net::UnixStream, OsSocketAddr), std::io::Error>>)
        ensures
            final(self).accept_polls() == old(self).accept_polls() + 1,
            r == final(self).accept_outcome(),
    { unimplemented!() }
    /// R5 leaves `self.get_mut()` of `self: Pin<&mut Self>` (Self: Unpin) in place: `Pin::get_mut` is the identity
    #[verifier::external_body]
    pub fn get_mut(&mut self) -> (r: &mut UnixListener)
        ensures *r == *old(self), *final(r) == *final(self),
    { unimplemented!() }
}

/// `Poll<T>::map` (std): the closure is applied to a Ready value (through the closure's own contract)
pub assume_specification<T, U, F: FnOnce(T) -> U> [std::task::Poll::<T>::map] (p: std::task::Poll<T>, f: F) -> (r: std::task::Poll<U>)
    requires p matches std::task::Poll::Ready(v) ==> f.requires((v,)),
    ensures
        p is Pending ==> r is Pending,
        p matches std::task::Poll::Ready(v) ==> (r matches std::task::Poll::Ready(u) && f.ensures((v,), u));
