// =============================================================================
// TRUSTED PRELUDE (units `streams`, `streams_server`): what lies BELOW the stream adapters of
// src/stream/*.rs - tokio's in-memory pipe, TCP and Unix sockets - as opaque types that implement the
// (Pin-erased, R5) tokio I/O traits.  Hand-written; every item is an assumption listed in the evidence.
//
// The effect of every I/O operation is an ABSTRACT relation between the object before, the object after,
// the arguments and the result (`read_rel`, `write_rel`, ...).  Nothing is known about such a relation except
// that one call of the operation establishes it for exactly the arguments it was given.  A wrapper whose
// postcondition is "the inner relation holds between my inner object before and after, for MY arguments and
// MY result, and my other fields are unchanged" therefore has exactly one implementation up to ghost code:
// one call of the inner operation with the same arguments whose result is returned unchanged
// (`Pending`, `Err`, a short count and end-of-stream included).  This is the forwarding contract of C18.
// =============================================================================

// ---- std ----
#[verifier::external_type_specification]
#[verifier::external_body]
pub struct ExContext<'a>(std::task::Context<'a>);
#[verifier::reject_recursive_types(T)]
#[verifier::external_type_specification]
pub struct ExPoll<T>(std::task::Poll<T>);
#[verifier::external_type_specification]
#[verifier::external_body]
pub struct ExIoError(std::io::Error);
#[verifier::external_type_specification]
#[verifier::external_body]
pub struct ExIoSlice<'a>(std::io::IoSlice<'a>);
#[verifier::external_type_specification]
#[verifier::external_body]
pub struct ExSocketAddr(std::net::SocketAddr);

pub mod tokio {
pub mod io {
    use vstd::prelude::*;
    use std::task::{Context, Poll};

    /// tokio::io::ReadBuf - opaque here: a forwarder hands the very buffer it was given to the inner reader
    /// (the ReadBuf *model* lives in prelude/bridge_tokio.rs, where the bridge builds buffers of its own).
    #[verifier::external_body]
    pub struct ReadBuf<'a> { p: std::marker::PhantomData<&'a mut u8> }

    // ---- tokio::io::AsyncRead (stand-in, Pin-erased) ----
    pub trait AsyncRead: Sized {
        /// one `poll_read`: reader before / after, the caller's buffer before / after, the result
        spec fn read_rel(pre: Self, post: Self, b0: ReadBuf<'_>, b1: ReadBuf<'_>, r: Poll<Result<(), std::io::Error>>) -> bool;

        fn poll_read(&mut self, cx: &mut Context<'_>, buf: &mut ReadBuf<'_>) -> (r: Poll<Result<(), std::io::Error>>)
            ensures Self::read_rel(*old(self), *final(self), *old(buf), *final(buf), r);
    }

    // ---- tokio::io::AsyncWrite (stand-in, Pin-erased) ----
    pub trait AsyncWrite: Sized {
        spec fn write_rel(pre: Self, post: Self, buf: Seq<u8>, r: Poll<Result<usize, std::io::Error>>) -> bool;
        spec fn write_vectored_rel(pre: Self, post: Self, bufs: &[std::io::IoSlice<'_>], r: Poll<Result<usize, std::io::Error>>) -> bool;
        spec fn flush_rel(pre: Self, post: Self, r: Poll<Result<(), std::io::Error>>) -> bool;
        spec fn shutdown_rel(pre: Self, post: Self, r: Poll<Result<(), std::io::Error>>) -> bool;
        spec fn vectored(&self) -> bool;

        fn poll_write(&mut self, cx: &mut Context<'_>, buf: &[u8]) -> (r: Poll<Result<usize, std::io::Error>>)
            ensures Self::write_rel(*old(self), *final(self), buf@, r);
        fn poll_write_vectored(&mut self, cx: &mut Context<'_>, bufs: &[std::io::IoSlice<'_>]) -> (r: Poll<Result<usize, std::io::Error>>)
            ensures Self::write_vectored_rel(*old(self), *final(self), bufs, r);
        fn poll_flush(&mut self, cx: &mut Context<'_>) -> (r: Poll<Result<(), std::io::Error>>)
            ensures Self::flush_rel(*old(self), *final(self), r);
        fn poll_shutdown(&mut self, cx: &mut Context<'_>) -> (r: Poll<Result<(), std::io::Error>>)
            ensures Self::shutdown_rel(*old(self), *final(self), r);
        fn is_write_vectored(&self) -> (r: bool)
            ensures r == self.vectored();
    }

    /// the operations of an opaque transport: uninterpreted relations + bodiless trait methods
    macro_rules! opaque_io {
        ([$($g:ident),*] $ty:ty, $rd:ident, $wr:ident, $wv:ident, $fl:ident, $sh:ident, $ve:ident) => {
            verus! {
            pub uninterp spec fn $rd<$($g),*>(pre: $ty, post: $ty, b0: ReadBuf<'_>, b1: ReadBuf<'_>, r: Poll<Result<(), std::io::Error>>) -> bool;
            pub uninterp spec fn $wr<$($g),*>(pre: $ty, post: $ty, buf: Seq<u8>, r: Poll<Result<usize, std::io::Error>>) -> bool;
            pub uninterp spec fn $wv<$($g),*>(pre: $ty, post: $ty, bufs: &[std::io::IoSlice<'_>], r: Poll<Result<usize, std::io::Error>>) -> bool;
            pub uninterp spec fn $fl<$($g),*>(pre: $ty, post: $ty, r: Poll<Result<(), std::io::Error>>) -> bool;
            pub uninterp spec fn $sh<$($g),*>(pre: $ty, post: $ty, r: Poll<Result<(), std::io::Error>>) -> bool;
            pub uninterp spec fn $ve<$($g),*>(s: &$ty) -> bool;
            impl<$($g),*> AsyncRead for $ty {
                open spec fn read_rel(pre: Self, post: Self, b0: ReadBuf<'_>, b1: ReadBuf<'_>, r: Poll<Result<(), std::io::Error>>) -> bool { $rd(pre, post, b0, b1, r) }
                #[verifier::external_body]
                fn poll_read(&mut self, cx: &mut Context<'_>, buf: &mut ReadBuf<'_>) -> (r: Poll<Result<(), std::io::Error>>) { unimplemented!() }
            }
            impl<$($g),*> AsyncWrite for $ty {
                open spec fn write_rel(pre: Self, post: Self, buf: Seq<u8>, r: Poll<Result<usize, std::io::Error>>) -> bool { $wr(pre, post, buf, r) }
                open spec fn write_vectored_rel(pre: Self, post: Self, bufs: &[std::io::IoSlice<'_>], r: Poll<Result<usize, std::io::Error>>) -> bool { $wv(pre, post, bufs, r) }
                open spec fn flush_rel(pre: Self, post: Self, r: Poll<Result<(), std::io::Error>>) -> bool { $fl(pre, post, r) }
                open spec fn shutdown_rel(pre: Self, post: Self, r: Poll<Result<(), std::io::Error>>) -> bool { $sh(pre, post, r) }
                open spec fn vectored(&self) -> bool { $ve(self) }
                #[verifier::external_body]
                fn poll_write(&mut self, cx: &mut Context<'_>, buf: &[u8]) -> (r: Poll<Result<usize, std::io::Error>>) { unimplemented!() }
                #[verifier::external_body]
                fn poll_write_vectored(&mut self, cx: &mut Context<'_>, bufs: &[std::io::IoSlice<'_>]) -> (r: Poll<Result<usize, std::io::Error>>) { unimplemented!() }
                #[verifier::external_body]
                fn poll_flush(&mut self, cx: &mut Context<'_>) -> (r: Poll<Result<(), std::io::Error>>) { unimplemented!() }
                #[verifier::external_body]
                fn poll_shutdown(&mut self, cx: &mut Context<'_>) -> (r: Poll<Result<(), std::io::Error>>) { unimplemented!() }
                #[verifier::external_body]
                fn is_write_vectored(&self) -> (r: bool) { unimplemented!() }
            }
            }
        };
    }
    pub(crate) use opaque_io;

    /// tokio::io::DuplexStream - one end of the in-memory pipe
    #[verifier::external_body]
    pub struct DuplexStream { _p: () }
    opaque_io!([] DuplexStream, pipe_read, pipe_write, pipe_write_vectored, pipe_flush, pipe_shutdown, pipe_vectored);
}
pub mod net {
    use vstd::prelude::*;
    use std::task::{Context, Poll};
    use super::io::{AsyncRead, AsyncWrite, ReadBuf, opaque_io};

    #[verifier::external_body]
    pub struct TcpStream { _p: () }
    opaque_io!([] TcpStream, tcp_read, tcp_write, tcp_write_vectored, tcp_flush, tcp_shutdown, tcp_vectored);

    #[verifier::external_body]
    pub struct UnixStream { _p: () }
    opaque_io!([] UnixStream, unix_read, unix_write, unix_write_vectored, unix_flush, unix_shutdown, unix_vectored);
}
}

// ---- crate::info (only what the adapter structs mention) ----
pub mod info {
    pub struct ConnectionInfo<A> { pub local_addr: A, pub remote_addr: A }
    /// stand-in for `crate::info::HasConnectionInfo` (bound on the `Stream` wrappers; only the constructors call `info()`)
    pub trait HasConnectionInfo {
        type Addr;
        /// `info()`: the connection info of the transport (a query, no I/O on the byte stream); what it answers is
        /// an uninterpreted attribute of the value
        spec fn info_of(&self) -> ConnectionInfo<Self::Addr>;
        fn info(&self) -> (r: ConnectionInfo<Self::Addr>)
            ensures r == self.info_of();
    }
}
// ---- the TLS streams of the client (src/client/conn/stream/tls.rs) and of the server (src/server/conn/tls/mod.rs):
// handshake state machines over tokio-rustls, outside this unit (C12 / C20 look at how they are *built*).  Here
// they are opaque transports: the `Tls` arm of `TlsBraid` forwards to whatever they do.
pub mod client_tls {
    use vstd::prelude::*;
    use std::task::{Context, Poll};
    use super::tokio::io::{AsyncRead, AsyncWrite, ReadBuf, opaque_io};
    #[verifier::external_body]
    #[verifier::reject_recursive_types(IO)]
    pub struct TlsStream<IO> { _p: std::marker::PhantomData<IO> }
    opaque_io!([IO] TlsStream<IO>, ctls_read, ctls_write, ctls_write_vectored, ctls_flush, ctls_shutdown, ctls_vectored);
}
pub mod server_tls {
    use vstd::prelude::*;
    use std::task::{Context, Poll};
    use super::tokio::io::{AsyncRead, AsyncWrite, ReadBuf, opaque_io};
    #[verifier::external_body]
    #[verifier::reject_recursive_types(IO)]
    pub struct TlsStream<IO> { _p: std::marker::PhantomData<IO> }
    opaque_io!([IO] TlsStream<IO>, stls_read, stls_write, stls_write_vectored, stls_flush, stls_shutdown, stls_vectored);
    /// crate::info::tls::TlsConnectionInfoReciever (a field the server `Stream` carries along)
    #[verifier::external_body]
    pub struct TlsConnectionInfoReciever { _p: () }
    impl TlsConnectionInfoReciever {
        /// a receiver that will never see TLS info (plain connections)
        pub uninterp spec fn is_empty(&self) -> bool;
        #[verifier::external_body]
        pub fn empty() -> (r: Self) ensures r.is_empty() { unimplemented!() }
    }
}

/// src/stream/unix.rs `UnixAddr` (a camino path inside): opaque, the adapters only carry it
#[verifier::external_body]
pub struct UnixAddr { _p: () }
