// =============================================================================
// SHARED SPEC TEXT (units `addrsort` and `tcpglue`): the vocabulary the contracts of `SocketAddrs::{sort_preferred, set_port}`,
// `IpVersion::from_binding` and `TcpTransport::connecting` are written in.  `open spec fn` definitions only - NO assumption.
// Moved here verbatim from units/addrsort.vxu so that unit `tcpglue` can `//@ import` the contracts unit `addrsort` proves
// (vx/README.md, "Imported contracts": the spec functions a contract mentions must be in scope in both units).
// Needs in scope: the extracted `enum IpVersion` (src/client/conn/dns.rs) and std's two-variant `SocketAddr` (prelude/addrsort.rs).
// =============================================================================
/// the family of an address (std's own enum, see prelude)
pub open spec fn fam(a: SocketAddr) -> IpVersion { if a is V4 { IpVersion::V4 } else { IpVersion::V6 } }

// ---- the specification of the sort, from the property statement ------------------------------------------------------
/// `i` is the position of the first address of family `f` in the resolver's answer `s`
pub open spec fn is_first(s: Seq<SocketAddr>, i: int, f: IpVersion) -> bool {
    0 <= i < s.len() && fam(s[i]) == f && forall|j: int| 0 <= j < i ==> fam(#[trigger] s[j]) != f
}
/// `s` has no address of family `f`
pub open spec fn none_of(s: Seq<SocketAddr>, f: IpVersion) -> bool {
    forall|j: int| 0 <= j < s.len() ==> fam(#[trigger] s[j]) != f
}
pub open spec fn other(f: IpVersion) -> IpVersion { if f == IpVersion::V4 { IpVersion::V6 } else { IpVersion::V4 } }
/// the preferred family of a preference setting: IPv6 unless IPv4 is asked for
pub open spec fn preferred(prefer: Option<IpVersion>) -> IpVersion {
    if prefer == Some(IpVersion::V4) { IpVersion::V4 } else { IpVersion::V6 }
}
/// the k-th position (k = 0, 1, ..) of a list that is neither `a` nor `b` (a != b): what remains, in the old order
pub open spec fn kth_rest(k: int, a: int, b: int) -> int {
    let lo = if a < b { a } else { b };
    let hi = if a < b { b } else { a };
    if k < lo { k } else if k + 1 < hi { k + 1 } else { k + 2 }
}
/// both families occur in `s`; `ip` / `io` are the first positions of the preferred family `f` / of the other family
pub open spec fn both(s: Seq<SocketAddr>, ip: int, io: int, f: IpVersion) -> bool {
    is_first(s, ip, f) && is_first(s, io, other(f))
}
/// no address lost, none duplicated
pub open spec fn permutation(s: Seq<SocketAddr>, t: Seq<SocketAddr>) -> bool {
    t.to_multiset() == s.to_multiset() && t.len() == s.len()
}
/// the first address of the preferred family comes first
pub open spec fn preferred_first(s: Seq<SocketAddr>, t: Seq<SocketAddr>, f: IpVersion) -> bool {
    forall|ip: int, io: int| #[trigger] both(s, ip, io, f) ==> t[0] == s[ip]
}
/// the first address of the other family second
pub open spec fn other_second(s: Seq<SocketAddr>, t: Seq<SocketAddr>, f: IpVersion) -> bool {
    forall|ip: int, io: int| #[trigger] both(s, ip, io, f) ==> t[1] == s[io]
}
/// the remaining addresses keep the resolver's order
pub open spec fn rest_in_order(s: Seq<SocketAddr>, t: Seq<SocketAddr>, f: IpVersion) -> bool {
    forall|ip: int, io: int, k: int| #[trigger] both(s, ip, io, f) && 0 <= k < s.len() - 2 ==> #[trigger] t[k + 2] == s[kth_rest(k, ip, io)]
}
/// with one family only (or no address at all) "first of that family first, the rest in order" is the list itself
pub open spec fn single_family_unchanged(s: Seq<SocketAddr>, t: Seq<SocketAddr>) -> bool {
    none_of(s, IpVersion::V4) || none_of(s, IpVersion::V6) ==> t == s
}
/// all five together: `t` is `s` sorted for the preferred family `f`
pub open spec fn sorted_for(s: Seq<SocketAddr>, t: Seq<SocketAddr>, f: IpVersion) -> bool {
    permutation(s, t) && preferred_first(s, t, f) && other_second(s, t, f) && rest_in_order(s, t, f) && single_family_unchanged(s, t)
}

// ---- IpVersion::from_binding: "IPv6 unless only an IPv4 local address is bound" ---------------------------------------
/// the preferred family for a transport bound to these local addresses
pub open spec fn binding_family(v4: Option<Ipv4Addr>, v6: Option<Ipv6Addr>) -> IpVersion {
    if v4 is Some && v6 is None { IpVersion::V4 } else { IpVersion::V6 }
}
