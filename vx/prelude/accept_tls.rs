// =============================================================================
// TRUSTED PRELUDE (accept unit, TLS acceptor): stand-ins for the crate's `Accept` /
// `HasConnectionInfo` traits (Pin erased, R5), tokio_rustls and rustls::ServerConfig.
// =============================================================================
pub trait HasConnectionInfo { type Addr; }

/// `server::conn::Accept` after Pin erasure.  Ghost: how often the acceptor was polled and what the most
/// recent poll returned (assumed for user acceptors; verified above for `DuplexIncoming`).
pub trait Accept {
    type Conn;
    type Error;
    spec fn accept_polls(&self) -> nat;
    spec fn accept_outcome(&self) -> Poll<Result<Self::Conn, Self::Error>>;
    fn poll_accept(&mut self, cx: &mut Context<'_>) -> (r: Poll<Result<Self::Conn, Self::Error>>)
        ensures
            final(self).accept_polls() == old(self).accept_polls() + 1,
            final(self).accept_outcome() == r;
}

#[verifier::external_body]
pub struct ServerConfig { _p: PhantomData<u8> }

#[verifier::external_body]
pub struct TlsConnectionInfoSender { _p: PhantomData<u8> }
#[verifier::external_body]
pub struct TlsConnectionInfoReciever { _p: PhantomData<u8> }
/// `info::tls::channel()`: the pair over which the handshake result is published later
#[verifier::external_body]
pub fn channel() -> (r: (TlsConnectionInfoSender, TlsConnectionInfoReciever))
{ unimplemented!() }

pub mod tokio_rustls {
    use super::*;
    /// `tokio_rustls::Accept<IO>`: the *future* of a server-side handshake over `io`.  Creating it performs no
    /// I/O; the handshake advances only when this future is polled.
    #[verifier::external_body]
    #[verifier::reject_recursive_types(IO)]
    pub struct Accept<IO> { _p: PhantomData<IO> }
    impl<IO> Accept<IO> {
        pub uninterp spec fn io(&self) -> IO;
        /// ghost: number of times the handshake future has been polled
        pub uninterp spec fn hs_polls(&self) -> nat;
    }
    pub mod server {
        use super::super::*;
        #[verifier::external_body]
        #[verifier::reject_recursive_types(IO)]
        pub struct TlsStream<IO> { _p: PhantomData<IO> }
    }
    #[verifier::external_body]
    pub struct TlsAcceptor { _p: PhantomData<u8> }
    impl From<std::sync::Arc<ServerConfig>> for TlsAcceptor {
        #[verifier::external_body]
        fn from(c: std::sync::Arc<ServerConfig>) -> (r: TlsAcceptor) { unimplemented!() }
    }
    impl TlsAcceptor {
        #[verifier::external_body]
        pub fn accept<IO>(&self, stream: IO) -> (r: Accept<IO>)
            ensures r.io() == stream, r.hs_polls() == 0
        { unimplemented!() }
    }
}
