// =============================================================================
// TRUSTED PRELUDE (unit `tcpconnect`, part 3): the two opaque futures of src/client/conn/transport/tcp.rs.
//
// (1) `async_block_0` - what rewrite R23 (`asyncblk=attempt,span`) puts in place of the async block
//         async { attempt.connect().instrument(span).await }
//     in `TcpConnecting::connect`: the constructor of an opaque future that OWNS exactly the two captured values.
//     The block's body does not run in `TcpConnecting::connect` (an async block only builds a future); it is dropped
//     by R23 and is NOT verified.  ASSUMED about it (`axiom_attempt_future_outcome`): when the future is polled to
//     completion it yields what `attempt.connect()` yields (`Instrumented` only enters/leaves the span around each
//     poll), i.e. a value that satisfies the postcondition PROVED on the real `TcpConnectionAttempt::connect`
//     (`dial_outcome` for the attempt's own address and configuration).
// (2) `connect(addr, connect_timeout, config)` - the free fn of tcp.rs that opens and configures the socket
//     (socket2 / tokio, unsafe `from_raw_fd`: class A) and returns the dialling future.  ASSUMED: an `Err` is a
//     set-up error for exactly these arguments; an `Ok(f)` is a future that dials exactly these arguments.  Its
//     `impl Future` return type is given a name (`DialFuture`) so that contracts can quantify over it.
// =============================================================================

// ---- (2) the free fn `connect` --------------------------------------------------------------------------------
#[verifier::external_body]
pub struct DialFuture<'a> { _p: PhantomData<&'a ()> }

impl<'a> Future for DialFuture<'a> {
    type Output = Result<TcpStream, TcpConnectionError>;
    #[verifier::external_body]
    fn poll(self: Pin<&mut Self>, cx: &mut Context<'_>) -> Poll<Self::Output> { unimplemented!() }
}

impl<'a> DialFuture<'a> {
    /// the remote address this future dials, the per-attempt time-out and the socket configuration it was built with
    pub uninterp spec fn addr(&self) -> SocketAddr;
    pub uninterp spec fn connect_timeout(&self) -> Option<Duration>;
    pub uninterp spec fn config(&self) -> TcpTransportConfig;
}

/// `e` is an error that setting up the socket for (addr, connect_timeout, config) produced ("tcp open error", "tcp bind
/// local address", ...) - a relation, the operating system decides
pub uninterp spec fn setup_failed(addr: SocketAddr, connect_timeout: Option<Duration>, config: TcpTransportConfig, e: TcpConnectionError) -> bool;

#[verifier::external_body]
pub fn connect<'a>(addr: &'a SocketAddr, connect_timeout: Option<Duration>, config: &'a TcpTransportConfig)
    -> (r: Result<DialFuture<'a>, TcpConnectionError>)
    ensures
        r is Ok ==> (r->Ok_0).addr() == *addr && (r->Ok_0).connect_timeout() == connect_timeout && (r->Ok_0).config() == *config,
        r is Err ==> setup_failed(*addr, connect_timeout, *config, r->Err_0),
{ unimplemented!() }

/// "r is the result of one call of `connect(&addr, connect_timeout, &config)`": its set-up error, or what the dialling
/// future it returned yielded when awaited
#[verifier::prophetic]
pub open spec fn dial_outcome(addr: SocketAddr, connect_timeout: Option<Duration>, config: TcpTransportConfig,
                              r: Result<TcpStream, TcpConnectionError>) -> bool {
    ||| r is Err && setup_failed(addr, connect_timeout, config, r->Err_0)
    ||| exists|f: DialFuture| #[trigger] f.awaited() && f.addr() == addr && f.connect_timeout() == connect_timeout
            && f.config() == config && f@ == r
}

// ---- (1) the async block of `TcpConnecting::connect` ---------------------------------------------------------------
#[verifier::external_body]
pub struct AttemptFuture<'c> { _p: PhantomData<&'c ()> }

impl<'c> Future for AttemptFuture<'c> {
    type Output = Result<TcpStream, TcpConnectionError>;
    #[verifier::external_body]
    fn poll(self: Pin<&mut Self>, cx: &mut Context<'_>) -> Poll<Self::Output> { unimplemented!() }
}

impl<'c> AttemptFuture<'c> {
    /// the connection attempt (address + configuration) this future owns
    pub uninterp spec fn attempt(&self) -> TcpConnectionAttempt<'c>;
}

/// R23: `async { attempt.connect().instrument(span).await }`  ->  `async_block_0(attempt, span)`
#[verifier::external_body]
pub fn async_block_0<'c>(attempt: TcpConnectionAttempt<'c>, span: tracing::Span) -> (f: AttemptFuture<'c>)
    ensures f.attempt() == attempt,
{ unimplemented!() }

/// ASSUMED (the dropped body of the async block): polled to completion, the future yields the result of
/// `attempt.connect()` for the attempt it owns
pub broadcast axiom fn axiom_attempt_future_outcome(f: AttemptFuture)
    ensures dial_outcome(f.attempt().address, f.attempt().config.connect_timeout, *f.attempt().config, #[trigger] outcome(f));
