// =============================================================================
// TRUSTED PRELUDE (units hostport, hosthdr): http::Uri / http::uri::Port as abstract types with accessor specs.
// Use together with prelude/hostport_vocab.rs (the ghost attributes the accessor specs mention).
// =============================================================================
#[verifier::external_body]
pub struct Uri { _p: () }

#[verifier::external_body]
#[verifier::reject_recursive_types(T)]
pub struct Port<T> { _p: std::marker::PhantomData<T> }

impl<T> Port<T> {
    pub uninterp spec fn num(&self) -> u16;
    #[verifier::external_body]
    pub fn as_u16(&self) -> (r: u16) ensures r == self.num() { unimplemented!() }
}

// ghost attributes `Uri::scheme_text()` / `Uri::port_num()`: prelude/hostport_vocab.rs (shared with unit `http`)
impl Uri {
    #[verifier::external_body]
    pub fn scheme_str(&self) -> (r: Option<&str>)
        ensures (r is Some) == (self.scheme_text() is Some), r is Some ==> r->0 == self.scheme_text()->0
    { unimplemented!() }

    #[verifier::external_body]
    pub fn port(&self) -> (r: Option<Port<&str>>)
        ensures (r is Some) == (self.port_num() is Some), r is Some ==> r->0.num() == self.port_num()->0
    { unimplemented!() }
}
