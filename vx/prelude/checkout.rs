// =============================================================================
// TRUSTED PRELUDE (unit `checkout`): stand-ins for what `pool/checkout.rs` uses from
// client::conn (Transport / Protocol / Connector / ConnectorMeta) and for the receiving
// end of tokio's oneshot channel.  Hand-written; every item is an assumption.
// =============================================================================

/// stand-in for `client::conn::Transport` (only the associated types occur in checkout.rs)
pub trait Transport { type IO; type Error; }
/// stand-in for `client::conn::Protocol`
pub trait Protocol<IO, B> { type Connection; type Error; }

/// `ConnectorError` is the name under which checkout.rs imports `connector::Error` (extracted above)
pub type ConnectorError<A, B> = Error<A, B>;

/// A: `ConnectorMeta` (tracing spans of a connection attempt; no effect on program state, T1)
#[verifier::external_body]
pub struct ConnectorMeta { _p: PhantomData<()> }
impl ConnectorMeta {
    #[verifier::external_body]
    pub fn new() -> (r: Self) { unimplemented!() }
}

/// A: `Connector<T, P, B>` (client/conn/connector.rs, enum pin-projection state machine).
/// Ghost state: `polls()` counts calls of `poll_connector`; `next()` is a prophecy of what the next
/// call returns; `done()` = a call has returned Ready (polling again panics in the real code:
/// "future polled in invalid state").
#[verifier::external_body]
#[verifier::reject_recursive_types(T)]
#[verifier::reject_recursive_types(P)]
#[verifier::reject_recursive_types(B)]
pub struct Connector<T, P, B> { _p: PhantomData<(T, P, B)> }

impl<T, P, B> Connector<T, P, B> where T: Transport, P: Protocol<T::IO, B> {
    /// ghost identity of the connection attempt
    pub uninterp spec fn id(&self) -> int;
    pub uninterp spec fn polls(&self) -> nat;
    pub uninterp spec fn done(&self) -> bool;
    pub uninterp spec fn next(&self) -> std::task::Poll<Result<P::Connection, ConnectorError<T::Error, P::Error>>>;

    /// `notify` is called at most once, when the transport is connected and the connection will be
    /// multiplexable (before the handshake): its precondition must hold at the call.
    #[verifier::external_body]
    pub fn poll_connector<F: FnOnce()>(&mut self, notify: F, meta: &mut ConnectorMeta, cx: &mut std::task::Context<'_>)
        -> (r: std::task::Poll<Result<P::Connection, ConnectorError<T::Error, P::Error>>>)
        requires
            notify.requires(()),
            !old(self).done(),
        ensures
            r == old(self).next(),
            final(self).id() == old(self).id(),
            final(self).polls() == old(self).polls() + 1,
            final(self).done() == (r is Ready),
    { unimplemented!() }
}

pub assume_specification<T> [std::task::Poll::<T>::is_ready] (p: &std::task::Poll<T>) -> (r: bool)
    ensures r == (*p is Ready);

/// `Pin<Box<T>>::as_mut()` is `Box<T>::as_mut()` after R5b: a reborrow of the boxed value
pub assume_specification<T, A> [<std::boxed::Box<T, A> as std::convert::AsMut<T>>::as_mut] (b: &mut std::boxed::Box<T, A>) -> (r: &mut T)
    where A: std::alloc::Allocator, T: std::marker::MetaSized + ?Sized,
    ensures &*r == &**old(b), &*final(r) == &**final(b);

// ---- tokio::sync::oneshot::Receiver (struct + `id()` are in prelude/pool_guard.rs) ----
/// stand-in for `tokio::sync::oneshot::error::RecvError`
pub struct RecvError(pub ());

impl<T> Receiver<T> {
    /// prophecy: what the next `poll` of this receiver returns
    pub uninterp spec fn next(&self) -> std::task::Poll<Result<T, RecvError>>;
    // `done()` - a `poll` has returned Ready - is declared in prelude/pool_guard.rs, next to `id()` and `channel()`
    /// `close()` was called: no value can be sent any more
    pub uninterp spec fn closed(&self) -> bool;

    /// A: `<Receiver<T> as Future>::poll`.  A value is only ever received if it was `delivered` on this
    /// channel (sender side: prelude/pool.rs).
    #[verifier::external_body]
    pub fn poll(&mut self, cx: &mut std::task::Context<'_>) -> (r: std::task::Poll<Result<T, RecvError>>)
        requires
            !old(self).done(),
        ensures
            r == old(self).next(),
            final(self).id() == old(self).id(),
            final(self).done() == (r is Ready),
            r matches std::task::Poll::Ready(Ok(v)) ==> delivered::<T>(old(self).id()) == Some(v),
    { unimplemented!() }

    /// A: `Receiver::close`
    #[verifier::external_body]
    pub fn close(&mut self)
        ensures
            final(self).id() == old(self).id(),
            final(self).done() == old(self).done(),
            final(self).closed(),
    { unimplemented!() }
}
