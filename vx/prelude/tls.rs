// =============================================================================
// TRUSTED PRELUDE (tls unit): stand-ins for http / rustls / tokio-rustls / tracing
// and the crate's own traits.  Hand-written, never generated from the repository;
// every `external_body`, `assume_specification`, `axiom` and `uninterp` item is an
// assumption listed in the evidence file (trusted_base).
// =============================================================================

// ---- host text (the view of a `str` is its sequence of chars) ----------------
/// `h` is a bracketed literal as `http::Uri::host()` returns it for IPv6 (`[::1]`)
pub open spec fn is_bracketed(h: Seq<char>) -> bool {
    h.len() >= 2 && h[0] == '[' && h.last() == ']'
}
/// the host without the brackets of an IP literal; everything else unchanged.
/// (Written as "drop the first char, then the last" so that it is literally what
/// `strip_prefix('[')` followed by `strip_suffix(']')` compute; `lemma_strip_brackets` below
/// proves that this is the text strictly between the brackets.)
pub open spec fn strip_brackets(h: Seq<char>) -> Seq<char> {
    if is_bracketed(h) { h.subrange(1, h.len() as int).subrange(0, h.len() - 2) } else { h }
}
pub proof fn lemma_strip_brackets(h: Seq<char>)
    ensures
        is_bracketed(h) ==> strip_brackets(h) == h.subrange(1, h.len() - 1),
        is_bracketed(h) ==> strip_brackets(h).len() == h.len() - 2,
        !is_bracketed(h) ==> strip_brackets(h) == h,
{
    if is_bracketed(h) {
        assert(h.subrange(1, h.len() as int).subrange(0, h.len() - 2) =~= h.subrange(1, h.len() - 1));
    }
}
/// `rustls::pki_types::ServerName::try_from(h)` is `Ok`: `h` is a DNS name (labels of letters,
/// digits, `-`, `_`, at most 63 bytes each, 253 in total) or the text of an IPv4 / IPv6 address
/// WITHOUT brackets.  Deliberately uninterpreted: no axiom says that any particular text is
/// accepted, so a producer has to test.
pub uninterp spec fn is_server_name(h: Seq<char>) -> bool;

// ---- core::str pattern functions used with a single `char` pattern -----------
#[verifier::external_trait_specification]
pub trait ExPattern: Sized {
    type ExternalTraitSpecificationFor: core::str::pattern::Pattern;
}
/// the pattern is one char (None for every other kind of pattern: nothing is assumed then)
pub uninterp spec fn pat_char<P>(p: P) -> Option<char>;
pub broadcast axiom fn axiom_pat_char(c: char)
    ensures #[trigger] pat_char::<char>(c) == Some(c);

pub assume_specification<'a, P: core::str::pattern::Pattern>[str::strip_prefix::<P>](s: &'a str, p: P) -> (r: Option<&'a str>)
    ensures
        pat_char(p) is Some ==> (r is Some <==> s@.len() > 0 && s@[0] == pat_char(p)->0),
        pat_char(p) is Some && r is Some ==> r->0@ == s@.subrange(1, s@.len() as int);
pub assume_specification<'a, P: core::str::pattern::Pattern>[str::strip_suffix::<P>](s: &'a str, p: P) -> (r: Option<&'a str>)
    where for<'b> <P as core::str::pattern::Pattern>::Searcher<'b>: core::str::pattern::ReverseSearcher<'b>
    ensures
        pat_char(p) is Some ==> (r is Some <==> s@.len() > 0 && s@.last() == pat_char(p)->0),
        pat_char(p) is Some && r is Some ==> r->0@ == s@.subrange(0, s@.len() - 1);
pub assume_specification<'a, 'b>[<String as From<&'a str>>::from](s: &'b str) -> (r: String)
    ensures r@ == s@;

#[verifier::external_type_specification]
#[verifier::external_body]
pub struct ExIoError(std::io::Error);

// ---- http ----------------------------------------------------------------------
pub mod http {
    use super::*;
    #[verifier::external_body]
    pub struct Uri { _p: () }
    impl Uri {
        /// ghost: the host component as `Uri::host()` reports it (IPv6 literals keep their brackets)
        pub uninterp spec fn host_text(&self) -> Option<Seq<char>>;
        /// ghost: the scheme component
        pub uninterp spec fn scheme_text(&self) -> Option<Seq<char>>;

        #[verifier::external_body]
        pub fn host(&self) -> (r: Option<&str>)
            ensures
                r is Some <==> self.host_text() is Some,
                r is Some ==> r->0@ == self.host_text()->0,
        { unimplemented!() }

        #[verifier::external_body]
        pub fn scheme_str(&self) -> (r: Option<&str>)
            ensures
                r is Some <==> self.scheme_text() is Some,
                r is Some ==> r->0@ == self.scheme_text()->0,
        { unimplemented!() }
    }
    pub mod request {
        use super::*;
        /// method, version, headers, extensions of `http::request::Parts`
        #[verifier::external_body]
        pub struct OtherParts { _p: () }
        pub struct Parts {
            pub uri: Uri,
            pub others: OtherParts,
        }
    }
}

// ---- rustls / tokio-rustls / tracing -------------------------------------------
pub mod rustls {
    use super::*;
    #[verifier::external_body]
    pub struct ClientConfig { _p: () }
    pub mod client {
        pub use super::ClientConfig;
    }
    pub mod pki_types {
        use super::*;
        #[verifier::external_body]
        pub struct ServerName<'a> { _p: std::marker::PhantomData<&'a ()> }
        #[derive(Debug)]
        pub struct InvalidDnsNameError;
        impl<'a> ServerName<'a> {
            /// ghost: the text this name was made from
            pub uninterp spec fn text(&self) -> Seq<char>;

            /// `<ServerName as TryFrom<&str>>::try_from`
            #[verifier::external_body]
            pub fn try_from(s: &'a str) -> (r: Result<ServerName<'a>, InvalidDnsNameError>)
                ensures
                    r is Ok <==> is_server_name(s@),
                    r is Ok ==> r->Ok_0.text() == s@,
            { unimplemented!() }

            #[verifier::external_body]
            pub fn to_owned(&self) -> (r: ServerName<'static>)
                ensures r.text() == self.text(),
            { unimplemented!() }
        }
    }
}

pub mod tracing {
    #[verifier::external_body]
    pub struct Span { _p: () }
}

pub mod tokio {
    pub mod io {
        /// marker stand-ins: the extracted items only name these traits in bounds
        pub trait AsyncRead {}
        pub trait AsyncWrite {}
    }
}

pub mod tokio_rustls {
    use super::*;
    #[verifier::external_body]
    pub struct TlsConnector { _p: () }
    impl TlsConnector {
        pub uninterp spec fn config(&self) -> Arc<rustls::ClientConfig>;
        /// `<TlsConnector as From<Arc<ClientConfig>>>::from`
        #[verifier::external_body]
        pub fn from(config: Arc<rustls::ClientConfig>) -> (r: TlsConnector)
            ensures r.config() == config,
        { unimplemented!() }
        /// starts (lazily) a client handshake on `stream`; sends nothing before it is polled
        #[verifier::external_body]
        pub fn connect<IO>(&self, domain: rustls::pki_types::ServerName<'static>, stream: IO) -> (r: Connect<IO>)
            ensures
                r.sni() == domain.text(),
                r.config() == self.config(),
                r.io() == Some(stream),
        { unimplemented!() }
    }
    /// the handshake future
    #[verifier::external_body]
    #[verifier::reject_recursive_types(IO)]
    pub struct Connect<IO> { _p: std::marker::PhantomData<IO> }
    impl<IO> Connect<IO> {
        /// ghost: server name offered in the ClientHello and checked against the certificate
        pub uninterp spec fn sni(&self) -> Seq<char>;
        pub uninterp spec fn config(&self) -> Arc<rustls::ClientConfig>;
        /// ghost: the transport stream, until the handshake has completed
        pub uninterp spec fn io(&self) -> Option<IO>;
        #[verifier::external_body]
        pub fn get_ref(&self) -> (r: Option<&IO>)
            ensures
                r is Some <==> self.io() is Some,
                r is Some ==> *r->0 == self.io()->0,
        { unimplemented!() }
    }
    pub mod client {
        /// a stream whose handshake has completed
        #[verifier::external_body]
        #[verifier::reject_recursive_types(IO)]
        pub struct TlsStream<IO> { _p: std::marker::PhantomData<IO> }
    }
}

// ---- the crate's own items that cannot be extracted ----------------------------
/// `crate::info::ConnectionInfo` (two `cfg` variants of the same struct in info/mod.rs)
pub struct ConnectionInfo<Addr> {
    pub local_addr: Addr,
    pub remote_addr: Addr,
}
#[verifier::external_body]
pub struct TlsConnectionInfo { _p: () }

pub trait HasConnectionInfo {
    type Addr;
    fn info(&self) -> ConnectionInfo<Self::Addr>;
}

/// `crate::client::conn::transport::Transport` with a ghost attribute on the connect future
pub trait Transport: Send {
    type IO: HasConnectionInfo + Send + 'static;
    type Error;
    type Future;

    /// ghost: the request a connect future was created for
    spec fn dialed(f: &Self::Future) -> http::request::Parts;

    fn connect(&mut self, req: http::request::Parts) -> (r: Self::Future)
        ensures Self::dialed(&r) == req;
}
