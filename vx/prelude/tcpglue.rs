// =============================================================================
// TRUSTED PRELUDE (unit `tcpglue`): what `TcpTransport::{resolve, connect, connect_to_addrs}` (src/client/conn/transport/tcp.rs)
// use from std, tower and the rest of the crate.  Hand-written, never generated from the repository.  Every `external_body`,
// `assume_specification`, `axiom`, `uninterp` item is an assumption listed in the evidence file (trusted_base).
// (std's two-variant SocketAddr, `with_port` / `port_of`, opaque Ipv4Addr / Ipv6Addr come from prelude/addrsort.rs.)
// =============================================================================

// ---- std ----
/// `std::mem::replace`
pub assume_specification<T> [std::mem::replace] (dest: &mut T, src: T) -> (r: T)
    ensures r == *old(dest), *final(dest) == src;

pub mod io {
    use vstd::prelude::*;
    /// `std::io::Error` (opaque)
    #[verifier::external_body]
    pub struct Error { _p: () }
}

// ---- crate::BoxError, crate::stream::tcp::TcpStream (opaque, as in prelude/tcpconnect.rs) ----
#[verifier::external_body]
pub struct BoxError { _p: () }
#[verifier::external_body]
pub struct TcpStream { _p: () }

// ---- tower::Service: a marker bound here (the glue never calls the service itself, only `ResolverExt::resolve`) ----
pub mod tower {
    use vstd::prelude::*;
    use std::future::Future;
    pub trait Service<Request> {
        type Response;
        type Error;
        type Future: Future<Output = Result<Self::Response, Self::Error>>;
    }
}

// ---- the resolver service as `TcpTransport` sees it: `ResolverExt::resolve` (src/client/conn/dns.rs) ----
/// The future `resolver.resolve(host, timeout)` returns (really `BoxFuture<'static, Result<Address, io::Error>>`; given a name
/// so that contracts can quantify over it).  ONE call of the resolver service for `host()` under the time-out `timeout()`.
/// Its output `f@` - the resolver's answer - is ARBITRARY: any address list (any length below 2^32, any ports, any
/// order, duplicates) or any error.
#[verifier::external_body]
#[verifier::reject_recursive_types(A)]
pub struct ResolveFuture<A> { _p: PhantomData<A> }

impl<A> Future for ResolveFuture<A> {
    type Output = Result<A, io::Error>;
    #[verifier::external_body]
    fn poll(self: std::pin::Pin<&mut Self>, cx: &mut std::task::Context<'_>) -> std::task::Poll<Self::Output> { unimplemented!() }
}

#[verifier::external_type_specification]
#[verifier::external_body]
pub struct ExContext<'a>(std::task::Context<'a>);
#[verifier::reject_recursive_types(Ptr)]
#[verifier::external_type_specification]
#[verifier::external_body]
pub struct ExPin<Ptr>(std::pin::Pin<Ptr>);
#[verifier::reject_recursive_types(T)]
#[verifier::external_type_specification]
pub struct ExPoll<T>(std::task::Poll<T>);

impl<A> ResolveFuture<A> {
    /// the host name the resolver was called with, and the time-out handed to `resolve`
    pub uninterp spec fn host(&self) -> Box<str>;
    pub uninterp spec fn timeout(&self) -> Option<Duration>;
}

/// `f` is a call of the resolver for `host` under the time-out `timeout`
pub open spec fn asks<A>(f: ResolveFuture<A>, host: Box<str>, timeout: Option<Duration>) -> bool {
    f.host() == host && f.timeout() == timeout
}

/// `ResolverExt` (dns.rs): blanket-implemented for every `tower::Service<Box<str>, Error = io::Error>`; `resolve` calls the
/// service ONCE with the host (with or without `tokio::time::timeout` around it) and boxes the future.  ASSUMED (class A:
/// async block + boxed future): the returned future is for exactly this host and time-out.
pub trait ResolverExt {
    type Address;
    fn resolve(&mut self, host: Box<str>, timeout: Option<Duration>) -> (f: ResolveFuture<Self::Address>)
        ensures
            asks(f, host, timeout);
}
impl<R> ResolverExt for R where R: tower::Service<Box<str>, Error = io::Error> {
    type Address = R::Response;
    #[verifier::external_body]
    fn resolve(&mut self, host: Box<str>, timeout: Option<Duration>) -> (f: ResolveFuture<Self::Address>) { unimplemented!() }
}

/// ASSUMED: an address list has fewer than 2^32 entries (16 GiB of `SocketAddr`s; precondition of
/// `TcpConnecting::connect`, unit tcpconnect: `len as u32` must not truncate)
pub broadcast axiom fn axiom_answer_fits(f: ResolveFuture<SocketAddrs>)
    ensures (#[trigger] f@) is Ok ==> (f@)->Ok_0.0@.len() <= u32::MAX;

// ---- TcpConnectionError::msg (tcp.rs): returns the closure `move |error| Self { message: message.into(), source: Some(error.into()) }` ----
/// the text `s.into()` yields for `S: Into<String>` (as in prelude/tcpconnect.rs)
pub uninterp spec fn text_of<S>(s: S) -> Seq<char>;
/// `<&str as Into<String>>::into` keeps the characters
pub broadcast axiom fn axiom_text_of_str(s: &'static str)
    ensures #[trigger] text_of::<&'static str>(s) == s@;

impl TcpConnectionError {
    /// ASSUMED (closure-returning fn, `E: std::error::Error` boxed into `BoxError`: outside the subset): the returned function
    /// is total and builds an error with exactly this message and SOME source
    #[verifier::external_body]
    pub fn msg<S: Into<String>, E>(message: S) -> (f: impl FnOnce(E) -> TcpConnectionError)
        ensures
            forall|e: E| f.requires((e,)),
            forall|e: E, o: TcpConnectionError| #[trigger] f.ensures((e,), o) ==> o.message@ == text_of(message) && o.source is Some,
    { move |e: E| unimplemented!() }
}

// ---- SocketAddrs::from_iter (dns.rs: `Self(iter.into_iter().collect())`) ----
/// the items of an `IntoIterator`, in iteration order
pub uninterp spec fn iter_order<A>(a: A) -> Seq<SocketAddr>;
impl SocketAddrs {
    /// ASSUMED (iterator adapters: outside the subset): the list holds the items of the argument in iteration order
    #[verifier::external_body]
    pub fn from_iter<A: IntoIterator<Item = SocketAddr>>(addrs: A) -> (r: SocketAddrs)
        ensures r.0@ == iter_order(addrs),
    { unimplemented!() }
}

// ---- TcpConnecting::connect: HAND-LINKED stand-in for the contract unit `tcpconnect` proves (`//@ samecontract` in
// units/tcpglue.vxu).  Another vocabulary: the whole postcondition of the proved contract (tc.connect.result,
// tc.connect.ok_is_a_dialled_address: "r is the result of ONE happy-eyeballs run over one attempt per address of the list, in
// list order, paced by the configuration; a stream is the connection of one of these addresses") is folded into ONE
// uninterpreted relation over the address list and the configuration; the precondition is carried over as it is. ----
/// `r` is a result of one run of `TcpConnecting::connect` on (address list, configuration)
pub uninterp spec fn tc_connect_outcome(addrs: Seq<SocketAddr>, config: TcpTransportConfig, r: Result<TcpStream, TcpConnectionError>) -> bool;
impl<'c> TcpConnecting<'c> {
    #[verifier::external_body]
    pub async fn connect(self) -> (r: Result<TcpStream, TcpConnectionError>)
        requires
            self.config.happy_eyeballs_timeout is Some ==> self.addresses.0@.len() <= u32::MAX,
        ensures
            tc_connect_outcome(self.addresses.0@, *self.config, r),
    { unimplemented!() }
}
