"""Rewrite rule R28 (opt-in per item, `:: fnptr=1` on `struct` and `fn` directives), for the construct Verus
0.2026.09.13 has no type for at all: a FUNCTION POINTER `fn() -> T` that is stored in a field and CALLED.

    pub struct TimeoutLayer<E> { error: Box<fn() -> E>, .. }          (this.error)()

(R12 only covers the marker `PhantomData<fn(..) -> ..>`, which is never read.)

What the rule does - type text and call syntax only, no other token is touched:

  R28t  the TYPE text `Box<fn() -> T>` and the bare TYPE text `fn() -> T` are both replaced by `FnPtr0<T>`
        (every position: field, parameter, return type).  `FnPtr0<T>` is a stand-in declared in the trusted
        prelude (vx/prelude/fnptr.rs): an `external_body` struct with one uninterpreted ghost attribute
        `result() -> T` and
             fn call0(&self) -> (r: T)   ensures r == self.result()
             fn clone(&self) -> (r: Self) ensures r.result() == self.result()
  R28c  a call `(X)()` - empty argument list - whose callee X is a FIELD PATH `a.b.name` / `name` (after R6 also
        `(&mut self.name)`, `self.name`) ending in a name that is declared with a function-pointer type in the
        same source file is replaced by `X.call0()`.
  R28b  `Box::new(p)` where `p` is a parameter of THIS fn declared with the bare type `fn() -> T` is replaced by
        `p` (Box erasure: the only thing `Box<fn() -> T>` adds to the function pointer is a heap cell that owns
        it; `Box::new` moves the pointer there and does nothing else.  Same argument as R5b for `Pin<Box<T>>`).

What this MODELS: a function pointer is an opaque, total, stateless function: calling it returns a value, does
not diverge or panic, reads and writes no program state, and returns the same (specification-level) value on
every call; a copy / clone of the pointer denotes the same function.  What this ASSUMES - about code the crate
does not contain: the user-supplied `fn() -> T`.  A plain `fn` item or a non-capturing closure coerced to `fn`
cannot capture state (Rust's type system: trusted), but it MAY read globals, panic or loop; "deterministic,
total, no side effects" is an assumption on the caller's function and is listed as such in the claims of every
property that uses this rule.  Nothing extracted depends on WHICH value is returned, only on "it is the value of
the configured function" (`== x.result()`).

Refused (`Unsupported`: the fn is stubbed / the item is not emitted; undecided, never an alarm):
  * a function-pointer type with parameters (`fn(A) -> T`) or without a return type (`fn()`) anywhere in the item;
  * a call `(X)(args)` with arguments through such a field;
  * ANY OTHER USE of a name that is declared with a function-pointer type in the file.  Allowed uses are exactly:
      - the call (R28c);
      - `PATH.name.clone()`;
      - a declaration or field initialiser `name: ..` / struct-literal shorthand `name,`;
      - the bare identifier moved as a whole argument or field value (`f(a, name)`, `S { name }`, `S { g: name }`),
        R28b included;
      - `let name = ..;` introducing a local of the same name (its uses are checked by the same rule).
    E.g. `*self.error`, `&self.error`, `let f = self.error;`, comparing or transmuting the pointer: refused, so a
    new way of using the pointer cannot pass unnoticed through a model that only knows `call0` and `clone`.
"""
import re

from rustscan import mask, match_close

_ID = r"[A-Za-z_][A-Za-z0-9_]*"
_FN0 = re.compile(r"(?<![A-Za-z0-9_])fn\s*\(\s*\)\s*->\s*")
_FN_ANY = re.compile(r"(?<![A-Za-z0-9_])fn\s*\(")


def _type_end(m, i):
    """end (exclusive) of the type expression that starts at m[i]: stops at a `,` `)` `;` `{` `=` `>` at nesting depth 0"""
    depth, j, n = 0, i, len(m)
    while j < n:
        c = m[j]
        if c in "<([":
            depth += 1
        elif c == ">" and m[j - 1] == "-":
            pass
        elif c in ">)]":
            if depth == 0:
                return j
            depth -= 1
        elif c in ",;{=" and depth == 0:
            return j
        j += 1
    return n


def _fn0_types(m):
    """[(start, end, ret_start, ret_end, boxed)] of every `fn() -> T` / `Box<fn() -> T>` type text in masked text m"""
    out = []
    for mm in _FN0.finditer(m):
        a, rs = mm.start(), mm.end()
        re_ = _type_end(m, rs)
        # trailing white space does not belong to the type
        while re_ > rs and m[re_ - 1] in " \n\t":
            re_ -= 1
        b = re.search(r"(?:std::boxed::)?Box\s*<\s*$", m[:a])
        k = re_
        while k < len(m) and m[k] in " \n\t":
            k += 1
        if b and k < len(m) and m[k] == ">":
            out.append((b.start(), k + 1, rs, re_, True))
        else:
            out.append((a, re_, rs, re_, False))
    return out


def declared_names(m):
    """names declared with the type `Box<fn() -> T>` or `fn() -> T` (field or parameter) in masked text m
    -> {name: {"boxed", "bare"}}"""
    names = {}
    for (a, b, rs, re_, boxed) in _fn0_types(m):
        d = re.search(r"(%s)\s*:\s*$" % _ID, m[:a])
        if d:
            names.setdefault(d.group(1), set()).add("boxed" if boxed else "bare")
    return names


def apply_types(rw, unsupported):
    """R28t only (also used for the signature of a stubbed fn)"""
    t = rw.t
    m = mask(t)
    spans = _fn0_types(m)
    covered = [(a, b) for (a, b, _, _, _) in spans]
    for mm in _FN_ANY.finditer(m):
        if not any(a <= mm.start() < b for (a, b) in covered):
            raise unsupported("unsupported construct: function-pointer type other than `fn() -> T` (R28) in %s" % rw.what)
    for (a, b, rs, re_, boxed) in sorted(spans, reverse=True):
        t = t[:a] + "FnPtr0<" + t[rs:re_].strip() + ">" + t[b:]
    rw.t = t
    return len(spans)


def apply_fnptr(rw, unsupported):
    src = getattr(rw, "fnptr_src", None)
    m0 = mask(rw.t)
    own = declared_names(m0)
    bare_params = {k for k, kinds in own.items() if "bare" in kinds}
    names = set(own)
    if src is not None:
        names |= set(declared_names(src.m))
    nt = apply_types(rw, unsupported)
    # R28b: Box::new(p), p a parameter of this fn with the bare function-pointer type
    nb = 0
    if bare_params:
        pat = re.compile(r"(?<![A-Za-z0-9_:])(?:std::boxed::)?Box::new\s*\(\s*(%s)\s*\)" % "|".join(re.escape(x) for x in sorted(bare_params)))
        while True:
            m = mask(rw.t)
            mm = pat.search(m)
            if not mm:
                break
            rw.t = rw.t[:mm.start()] + mm.group(1) + rw.t[mm.end():]
            nb += 1
    # R28c: (X)() -> X.call0()
    nc = 0
    if names:
        last = r"(?:%s)" % "|".join(re.escape(x) for x in sorted(names))
        path = re.compile(r"^(?P<pre>&\s*mut\s+|&\s*|\*\s*)?(?P<path>(?:%s\s*\.\s*)*%s)$" % (_ID, last))
        pos = 0
        while True:
            m = mask(rw.t)
            mm = re.compile(r"\)\s*\(").search(m, pos)
            if not mm:
                break
            pos = mm.start() + 1
            close = mm.start()
            # matching open paren of the callee group
            depth, o = 0, close
            while o >= 0:
                if m[o] == ")":
                    depth += 1
                elif m[o] == "(":
                    depth -= 1
                    if depth == 0:
                        break
                o -= 1
            if o < 0:
                continue
            k = o - 1
            while k >= 0 and m[k] in " \n\t":
                k -= 1
            if k >= 0 and (m[k].isalnum() or m[k] in "_)]>?!"):
                continue  # `f(x)(..)`: the callee is a call result, not a parenthesised expression
            inner = rw.t[o + 1:close].strip()
            while inner.startswith("(") and match_close(inner, 0) == len(inner) - 1:
                inner = inner[1:-1].strip()
            pm = path.match(re.sub(r"\s+", " ", inner))
            if not pm:
                continue
            argo = mm.end() - 1
            argc = match_close(m, argo)
            if m[argo + 1:argc].strip():
                raise unsupported("unsupported construct: call through a function-pointer field with arguments (R28) in %s" % rw.what)
            callee = ("(%s)" % inner) if pm.group("pre") else inner
            rw.t = rw.t[:o] + callee + ".call0()" + rw.t[argc + 1:]
            nc += 1
            pos = o
    # every remaining use of a function-pointer name must be one of the allowed shapes
    m = mask(rw.t)
    for n in sorted(names):
        for mm in re.finditer(r"(?<![A-Za-z0-9_])%s(?![A-Za-z0-9_])" % re.escape(n), m):
            a, b = mm.start(), mm.end()
            after = m[b:]
            before = m[:a].rstrip()
            prev = before[-1:] if before else ""
            if re.match(r"\s*\)?\s*\.\s*call0\s*\(\s*\)", after):
                continue
            if re.match(r"\s*\.\s*clone\s*\(\s*\)", after):
                continue
            if prev != "." and re.match(r"\s*:(?!:)", after):
                continue  # declaration / field initialiser
            if re.search(r"(?<![A-Za-z0-9_])let\s+(?:mut\s+)?$", m[:a]) and re.match(r"\s*(?::[^=;]+)?=(?!=)", after):
                continue  # `let name = ..;`: a local of the same name - every use of it falls under the same rule
            am = re.match(r"\s*([,})])", after)
            if (prev in ("{", ",", "(") or (prev == ":" and not before.endswith("::"))) and am:
                if am.group(1) == ")" and re.match(r"\s*\)\s*\(", after):
                    pass  # `(name)(..)` left over: a call that R28c did not take
                else:
                    continue  # moved as a whole (argument / struct-literal shorthand)
            snippet = re.sub(r"\s+", " ", rw.t[max(0, a - 30):b + 30])
            raise unsupported("unsupported construct: use of function-pointer `%s` outside call / clone / move (R28) near `%s` in %s" % (n, snippet, rw.what))
    rw.note("R28t", nt)
    rw.note("R28b", nb)
    rw.note("R28c", nc)


# ---------------------------------------------------------------------------------------------------------------------
# R28p (additive, opt-in `:: fnptr=types` on `fn` and `struct` directives; `fnptr=1` is untouched by it)
#
# A function-pointer type WITH ONE PARAMETER that occurs in TYPE position only - typically inside an associated
# type of a trait impl, `type Future = MapErr<S::Future, fn(S::Error) -> Self::Error>;` (futures-util needs a nameable
# type for the error-mapping function) - and is never called, stored in a field or compared in the extracted text:
#
#     fn(A) -> B      ->   FnPtr1<A, B>            fn() -> T / Box<fn() -> T>   ->   FnPtr0<T>   (as R28t)
#
# `FnPtr1<A, B>` is a prelude stand-in (vx/prelude/fnptr1.rs): an `external_body` struct with one uninterpreted ghost
# relation `maps(a, b)` ("applied to a, the function returns b") and NO exec method at all - the extracted text cannot
# call it.  A value of that type is only ever made by a prelude constructor that takes the fn item / closure itself
# (e.g. the stand-in of `TryFutureExt::map_err`) and records `maps` from the callable's own contract; this is where the
# Rust compiler coerces the fn item to the pointer in the real code.
# The rule touches type text only (it is applied after R10b has substituted `Self::X` by its definition, so that a
# function-pointer type inside an associated type is seen); no call syntax, no identifier is rewritten.
# Refused (`Unsupported`: the fn is stubbed): two or more parameters, a named parameter (`fn(x: A) -> B`), no return
# type, `unsafe` / `extern` function pointers, a `for<'a>` binder.
# ---------------------------------------------------------------------------------------------------------------------
def _split_top_commas(m, t):
    parts, depth, st = [], 0, 0
    for k, c in enumerate(m):
        if c in "<([":
            depth += 1
        elif c == ">" and k > 0 and m[k - 1] == "-":
            pass
        elif c in ">)]":
            depth -= 1
        elif c == "," and depth == 0:
            parts.append(t[st:k])
            st = k + 1
    parts.append(t[st:])
    return [x.strip() for x in parts if x.strip()]


def apply_types1(t, what, unsupported):
    """R28p on the text t; returns (new text, number of function-pointer types replaced)"""
    n = 0
    while True:
        m = mask(t)
        hits = list(_FN_ANY.finditer(m))
        if not hits:
            return t, n
        mm = hits[-1]  # innermost / last first: a function-pointer type may occur inside another one's return type
        a = mm.start()
        before = m[:a].rstrip()
        if re.search(r"(?:\bunsafe|\bextern(?:\s*\"[^\"]*\")?|for\s*<[^<>]*>)$", before) or re.search(r"\bextern\s*$", mask(t[:a]).rstrip().rstrip('"').rstrip()):
            raise unsupported("unsupported construct: unsafe / extern / higher-ranked function-pointer type (R28p) in %s" % what)
        po = mm.end() - 1
        pc = match_close(m, po)
        params = _split_top_commas(m[po + 1:pc], t[po + 1:pc])
        arrow = re.match(r"\s*->\s*", m[pc + 1:])
        if not arrow:
            raise unsupported("unsupported construct: function-pointer type without return type (R28p) in %s" % what)
        rs = pc + 1 + arrow.end()
        re_ = _type_end(m, rs)
        cb = m.find("}", rs, re_)  # last field of a struct body without trailing comma
        if cb >= 0:
            re_ = cb
        while re_ > rs and m[re_ - 1] in " \n\t":
            re_ -= 1
        ret = t[rs:re_].strip()
        if len(params) > 1:
            raise unsupported("unsupported construct: function-pointer type with %d parameters (R28p) in %s" % (len(params), what))
        if params and re.match(r"(?:mut\s+)?[a-z_][A-Za-z0-9_]*\s*:(?!:)", params[0]):
            raise unsupported("unsupported construct: function-pointer type with a named parameter (R28p) in %s" % what)
        start, end = a, re_
        if not params:
            b = re.search(r"(?:std::boxed::)?Box\s*<\s*$", m[:a])
            k = re_
            while k < len(m) and m[k] in " \n\t":
                k += 1
            if b and k < len(m) and m[k] == ">":
                start, end = b.start(), k + 1
            new = "FnPtr0<%s>" % ret
        else:
            new = "FnPtr1<%s, %s>" % (params[0], ret)
        t = t[:start] + new + t[end:]
        n += 1
