// Replay templates for the pool unit: concrete scenarios against the REAL crate, one per obligation.
// Compiled inside `crate::client::pool::verif_replays` (feature verif-hooks + mocks).
use super::*;
use crate::client::conn::protocol::mock::MockSender;
use crate::client::conn::protocol::HttpProtocol;
use crate::client::conn::stream::mock::MockStream;
use crate::client::conn::transport::mock::MockTransport;
use crate::helpers::IntoRequestParts;

/// A connection that honours the `PoolableConnection` contract (the crate's `MockSender::reuse`
/// returns a clone even for non-shareable streams, so it cannot stand for an HTTP/1 connection).
#[derive(Debug)]
pub(crate) struct TestConn {
    id: usize,
    share: bool,
    open: std::sync::Arc<std::sync::atomic::AtomicBool>,
    ready: std::sync::Arc<std::sync::atomic::AtomicBool>,
    /// (uri, version) of every request this connection (any handle of it) was given, in order
    sent: std::sync::Arc<std::sync::Mutex<Vec<(String, http::Version)>>>,
}
static NEXT: std::sync::atomic::AtomicUsize = std::sync::atomic::AtomicUsize::new(1);
impl TestConn {
    fn h1() -> Self { Self::mk(false) }
    fn h2() -> Self { Self::mk(true) }
    fn mk(share: bool) -> Self {
        Self { id: NEXT.fetch_add(1, std::sync::atomic::Ordering::SeqCst), share,
               open: std::sync::Arc::new(true.into()), ready: std::sync::Arc::new(true.into()), sent: Default::default() }
    }
    fn id(&self) -> usize { self.id }
}
impl crate::client::conn::Connection<crate::Body> for TestConn {
    type ResBody = crate::Body;
    type Error = std::io::Error;
    type Future = std::future::Ready<Result<http::Response<crate::Body>, Self::Error>>;
    fn send_request(&mut self, request: http::Request<crate::Body>) -> Self::Future {
        self.sent.lock().unwrap().push((request.uri().to_string(), request.version()));
        std::future::ready(Ok(http::Response::new(request.into_body())))
    }
    fn poll_ready(&mut self, _cx: &mut std::task::Context<'_>) -> std::task::Poll<Result<(), Self::Error>> {
        if self.ready.load(std::sync::atomic::Ordering::SeqCst) {
            std::task::Poll::Ready(Ok(()))
        } else {
            _cx.waker().wake_by_ref(); // ask to be polled again soon: a busy connection may be polled many times
            std::task::Poll::Pending
        }
    }
    fn version(&self) -> http::Version { if self.share { http::Version::HTTP_2 } else { http::Version::HTTP_11 } }
}
impl PoolableConnection<crate::Body> for TestConn {
    fn is_open(&self) -> bool { self.open.load(std::sync::atomic::Ordering::SeqCst) }
    fn can_share(&self) -> bool { self.share }
    fn reuse(&mut self) -> Option<Self> {
        if self.share { Some(Self { id: self.id, share: true, open: self.open.clone(), ready: self.ready.clone(), sent: self.sent.clone() }) } else { None }
    }
}
/// protocol that turns a mock stream into a contract-honouring `TestConn` (exclusive unless the stream multiplexes)
#[derive(Debug, Clone, Default)]
pub(crate) struct TestProtocol;
impl tower::Service<crate::client::conn::protocol::ProtocolRequest<MockStream, crate::Body>> for TestProtocol {
    type Response = TestConn;
    type Error = crate::client::conn::connection::ConnectionError;
    type Future = std::future::Ready<Result<TestConn, Self::Error>>;
    fn poll_ready(&mut self, _cx: &mut std::task::Context<'_>) -> std::task::Poll<Result<(), Self::Error>> { std::task::Poll::Ready(Ok(())) }
    fn call(&mut self, req: crate::client::conn::protocol::ProtocolRequest<MockStream, crate::Body>) -> Self::Future {
        use crate::client::pool::PoolableStream as _;
        std::future::ready(Ok(TestConn::mk(req.transport.can_share())))
    }
}
fn test_connector(t: MockTransport, proto: HttpProtocol) -> crate::client::conn::connector::Connector<MockTransport, TestProtocol, crate::Body> {
    crate::client::conn::connector::Connector::new(t, TestProtocol, "mock://address".into_request_parts(), proto)
}
type TPool = Pool<TestConn, crate::Body, key::UriKey>;
/// number of entries really retained (the list's own `len()` is code under test; the field is private to idle.rs)
fn raw_len(l: &idle::IdleConnections<TestConn, crate::Body>) -> usize { format!("{:?}", l).matches("Idle {").count() }

fn example_key() -> key::UriKey {
    (http::uri::Scheme::HTTPS, http::uri::Authority::from_static("localhost:8080")).into()
}
fn other_key() -> key::UriKey {
    (http::uri::Scheme::HTTP, http::uri::Authority::from_static("localhost:8080")).into()
}
fn cfg(max: usize) -> Config {
    Config { idle_timeout: None, max_idle_per_host: max, continue_after_preemption: false }
}

/// push.idle_bound [C15]: push max+2 non-shareable connections for one origin
#[tokio::test]
async fn push_idle_bound() {
    for max in [0usize, 1, 3] {
        let pool: TPool = Pool::new(cfg(max));
        let token = pool.keys.lock().insert(example_key());
        for _ in 0..(max + 2) {
            pool.inner.lock().push(token, TestConn::h1(), pool.as_ref());
            let n = pool.inner.lock().idle.get(&token).map(|l| l.len()).unwrap_or(0);
            assert!(n <= max, "idle list for one origin holds {n} connections, max_idle_per_host = {max}");
        }
    }
}

/// push.keep [C04]: an open connection nobody took is kept and handed to the next checkout
#[tokio::test]
async fn push_keep() {
    let pool: TPool = Pool::new(cfg(4));
    let token = pool.keys.lock().insert(example_key());
    let c = TestConn::h1();
    let id = c.id();
    pool.inner.lock().push(token, c, pool.as_ref());
    let got = pool.inner.lock().pop(token);
    assert_eq!(got.map(|c| c.id()), Some(id), "released open connection was not kept for reuse");
}

/// push.frame_idle / push.frame_wait / pop.from_tok [C06]: other origins are untouched
#[tokio::test]
async fn push_frame() {
    let pool: TPool = Pool::new(cfg(4));
    let a = pool.keys.lock().insert(example_key());
    let b = pool.keys.lock().insert(other_key());
    assert_ne!(a, b, "keys differing only in scheme share a token");
    let cb = TestConn::h1();
    let idb = cb.id();
    pool.inner.lock().push(b, cb, pool.as_ref());
    let (txb, mut rxb) = tokio::sync::oneshot::channel();
    pool.inner.lock().waiting.entry(b).or_default().push_back(txb);
    let ca = TestConn::h1();
    let ida = ca.id();
    pool.inner.lock().push(a, ca, pool.as_ref());
    assert!(rxb.try_recv().is_err(), "a connection pushed for origin A was delivered to a waiter of origin B");
    assert_eq!(pool.inner.lock().waiting.get(&b).map(|q| q.len()), Some(1));
    assert_eq!(pool.inner.lock().pop(b).map(|c| c.id()), Some(idb));
    assert!(pool.inner.lock().pop(b).is_none(), "origin B's idle list gained a connection pushed for A");
    assert_eq!(pool.inner.lock().pop(a).map(|c| c.id()), Some(ida));
}

/// push.no_skip / push.waiters_first [C14, C03]: a live waiter gets the freed connection; closed ones are skipped
#[tokio::test]
async fn push_waiters_first() {
    let pool: TPool = Pool::new(cfg(4));
    let t = pool.keys.lock().insert(example_key());
    let (tx1, rx1) = tokio::sync::oneshot::channel();
    let (tx2, mut rx2) = tokio::sync::oneshot::channel();
    let (tx3, mut rx3) = tokio::sync::oneshot::channel();
    drop(rx1); // first waiter went away
    {
        let mut g = pool.inner.lock();
        let q = g.waiting.entry(t).or_default();
        q.push_back(tx1);
        q.push_back(tx2);
        q.push_back(tx3);
    }
    let c = TestConn::h1();
    let id = c.id();
    pool.inner.lock().push(t, c, pool.as_ref());
    let got = rx2.try_recv().expect("the first live waiter did not receive the freed connection");
    assert_eq!(got.id(), id);
    assert_eq!(got.token, t, "delivered handle does not carry the origin's token");
    assert!(rx3.try_recv().is_err());
    assert_eq!(pool.inner.lock().waiting.get(&t).map(|q| q.len()), Some(1), "a live waiter was dropped from the queue");
    assert!(pool.inner.lock().pop(t).is_none(), "connection delivered to a waiter AND kept idle");
    std::mem::forget(got);
}

/// push.share_all [C04]: a multiplexable connection serves every queued request and stays in the pool
#[tokio::test]
async fn push_share_all() {
    let pool: TPool = Pool::new(cfg(4));
    let t = pool.keys.lock().insert(example_key());
    let (tx1, mut rx1) = tokio::sync::oneshot::channel();
    let (tx2, mut rx2) = tokio::sync::oneshot::channel();
    {
        let mut g = pool.inner.lock();
        let q = g.waiting.entry(t).or_default();
        q.push_back(tx1);
        q.push_back(tx2);
    }
    let c = TestConn::h2();
    let id = c.id();
    pool.inner.lock().push(t, c, pool.as_ref());
    assert_eq!(rx1.try_recv().expect("first waiter not served").id(), id);
    assert_eq!(rx2.try_recv().expect("second waiter not served").id(), id);
    assert_eq!(pool.inner.lock().pop(t).map(|c| c.id()), Some(id), "shared connection not kept in the pool");
}

/// cancel.release [C03] (F3): a pure waiter must resolve after the dial it waits on fails
#[tokio::test]
async fn cancel_release() {
    let pool = Pool::new(cfg(5));
    let key = example_key();
    let (tx, rx) = tokio::sync::oneshot::channel::<MockStream>();
    let mut dialer = Box::pin(pool.checkout(key.clone(), true,
        MockTransport::channel(rx).connector("mock://address".into_request_parts(), HttpProtocol::Http2)));
    assert!(futures_util::poll!(&mut dialer).is_pending());
    let mut waiter = Box::pin(pool.checkout(key.clone(), true,
        MockTransport::reusable().connector("mock://address".into_request_parts(), HttpProtocol::Http2)));
    assert!(futures_util::poll!(&mut waiter).is_pending());
    drop(tx); // the dial fails
    let r = futures_util::poll!(&mut dialer);
    assert!(matches!(r, std::task::Poll::Ready(Err(_))));
    drop(dialer);
    let w = tokio::time::timeout(Duration::from_millis(200), &mut waiter).await;
    assert!(w.is_ok(), "pure waiter still pending after the attempt it waits on failed");
}

/// checkout.covered [C04] (F4): between checkout() and its first poll the only HTTP/2 handle is absent
/// from the pool, so a second HTTP/2 request issued in between dials a new connection
#[tokio::test]
async fn checkout_covered() {
    let pool = Pool::new(cfg(5));
    let key = example_key();
    let c1 = pool.checkout(key.clone(), true,
        MockTransport::reusable().connector("mock://address".into_request_parts(), HttpProtocol::Http2)).await.unwrap();
    let id1 = c1.id();
    drop(c1);
    let a = pool.checkout(key.clone(), true,
        MockTransport::reusable().connector("mock://address".into_request_parts(), HttpProtocol::Http2));
    let b = pool.checkout(key.clone(), true,
        MockTransport::reusable().connector("mock://address".into_request_parts(), HttpProtocol::Http2)).await.unwrap();
    let a = a.await.unwrap();
    assert_eq!(a.id(), id1);
    assert_eq!(b.id(), id1, "second HTTP/2 request was served on a freshly dialed connection although an HTTP/2 connection existed");
}

/// checkout.dial_only / checkout.reuse [C04]: an idle open connection is reused, no dial
#[tokio::test]
async fn checkout_reuses_idle() {
    let pool = Pool::new(cfg(5));
    let key = example_key();
    let c1 = pool.checkout(key.clone(), false,
        MockTransport::single().connector("mock://address".into_request_parts(), HttpProtocol::Http1)).await.unwrap();
    let id1 = c1.id();
    drop(c1);
    tokio::task::yield_now().await; // WhenReady hands the connection back
    tokio::task::yield_now().await;
    let c2 = pool.checkout(key.clone(), false,
        MockTransport::single().connector("mock://address".into_request_parts(), HttpProtocol::Http1)).await.unwrap();
    assert_eq!(c2.id(), id1, "an idle open connection for the origin was not reused");
}

/// checkout.wait / checkout.dial_marks [C04]: while an HTTP/2 attempt is in flight a second request waits
#[tokio::test]
async fn checkout_waits_for_inflight() {
    let pool = Pool::new(cfg(5));
    let key = example_key();
    let (tx, rx) = tokio::sync::oneshot::channel::<MockStream>();
    let mut dialer = Box::pin(pool.checkout(key.clone(), true,
        MockTransport::channel(rx).connector("mock://address".into_request_parts(), HttpProtocol::Http2)));
    assert!(futures_util::poll!(&mut dialer).is_pending());
    let mut second = Box::pin(pool.checkout(key.clone(), true,
        MockTransport::reusable().connector("mock://address".into_request_parts(), HttpProtocol::Http2)));
    assert!(futures_util::poll!(&mut second).is_pending(), "second HTTP/2 request did not wait for the in-flight attempt");
    tx.send(MockStream::reusable()).ok();
    let first = dialer.await.unwrap();
    let second = second.await.unwrap();
    assert_eq!(first.id(), second.id(), "second HTTP/2 request dialed its own connection");
}

/// wrdrop.open [C05]: a connection that is closed when its WhenReady task ends is not put back
#[tokio::test]
async fn whenready_drop_open() {
    let pool: TPool = Pool::new(cfg(5));
    let t = pool.keys.lock().insert(example_key());
    let c = TestConn::h1();
    c.open.store(false, std::sync::atomic::Ordering::SeqCst);
    drop(Pooled { connection: Some(c), token: t, pool: pool.as_ref() }); // hand-back task: ready at once, then dropped
    for _ in 0..5 { tokio::task::yield_now().await; }
    assert!(pool.inner.lock().idle.get(&t).map(|l| l.len()).unwrap_or(0) == 0, "closed connection returned to the pool");
    let c = TestConn::h1();
    drop(Pooled { connection: Some(c), token: Token::zero(), pool: pool.as_ref() });
    for _ in 0..5 { tokio::task::yield_now().await; }
    assert!(pool.inner.lock().idle.get(&Token::zero()).map(|l| l.len()).unwrap_or(0) == 0, "connection filed under the zero token");
}

/// wr.ready_only / pdrop.excl [C02]: an exclusive connection goes back only after it reported ready
#[tokio::test]
async fn exclusive_returns_after_ready() {
    let pool: TPool = Pool::new(cfg(5));
    let t = pool.keys.lock().insert(example_key());
    let c = TestConn::h1();
    let ready = c.ready.clone();
    ready.store(false, std::sync::atomic::Ordering::SeqCst);
    let id = c.id();
    drop(Pooled { connection: Some(c), token: t, pool: pool.as_ref() });
    for _ in 0..5 { tokio::task::yield_now().await; }
    assert!(pool.inner.lock().idle.get(&t).map(|l| l.len()).unwrap_or(0) == 0,
        "exclusive connection handed back before it reported ready (previous exchange not finished)");
    let _ = id;
}

/// idle.pop.open / pop.open [C05]: closed idle connections are discarded, not handed out
#[tokio::test]
async fn pop_skips_closed() {
    let pool: TPool = Pool::new(cfg(5));
    let t = pool.keys.lock().insert(example_key());
    let open = TestConn::h1();
    let open_id = open.id();
    let closed = TestConn::h1();
    closed.open.store(false, std::sync::atomic::Ordering::SeqCst);
    pool.inner.lock().push(t, open, pool.as_ref());
    pool.inner.lock().push(t, closed, pool.as_ref());
    let got = pool.inner.lock().pop(t);
    assert_eq!(got.map(|c| c.id()), Some(open_id), "pop handed out a closed connection or missed the open one");
}

/// idle.pop.fresh [C05]: an entry older than the idle timeout is not handed out
#[tokio::test]
async fn pop_skips_expired() {
    let mut pool_cfg = cfg(5);
    pool_cfg.idle_timeout = Some(Duration::from_millis(30));
    let pool: TPool = Pool::new(pool_cfg);
    let t = pool.keys.lock().insert(example_key());
    pool.inner.lock().push(t, TestConn::h1(), pool.as_ref());
    std::thread::sleep(Duration::from_millis(80));
    assert!(pool.inner.lock().pop(t).is_none(), "pop handed out a connection idle for longer than the timeout");
    // a fresh entry that the peer closed while idle must not make the pool hand out an older, expired one
    let mut pool_cfg = cfg(5);
    pool_cfg.idle_timeout = Some(Duration::from_millis(40));
    let pool: TPool = Pool::new(pool_cfg);
    let t = pool.keys.lock().insert(example_key());
    pool.inner.lock().push(t, TestConn::h1(), pool.as_ref()); // old, stays open
    std::thread::sleep(Duration::from_millis(120));
    let fresh = TestConn::h1();
    let fresh_open = fresh.open.clone();
    pool.inner.lock().push(t, fresh, pool.as_ref());
    fresh_open.store(false, std::sync::atomic::Ordering::SeqCst); // closed by the peer while idle
    assert!(pool.inner.lock().pop(t).is_none(), "pop handed out an expired connection that sat behind a closed fresh one");
    // zero timeout = no expiry
    let mut pool_cfg = cfg(5);
    pool_cfg.idle_timeout = Some(Duration::ZERO);
    let pool: TPool = Pool::new(pool_cfg);
    let t = pool.keys.lock().insert(example_key());
    pool.inner.lock().push(t, TestConn::h1(), pool.as_ref());
    assert!(pool.inner.lock().pop(t).is_some(), "zero idle timeout treated as 'expire everything'");
}

/// push.no_skip with a pool that keeps no idle connections [C14]: a freed connection still reaches a waiting request
#[tokio::test]
async fn push_waiter_zero_idle() {
    for share in [false, true] {
        let pool: TPool = Pool::new(cfg(0));
        let t = pool.keys.lock().insert(example_key());
        let (tx, mut rx) = tokio::sync::oneshot::channel();
        pool.inner.lock().waiting.entry(t).or_default().push_back(tx);
        let c = if share { TestConn::h2() } else { TestConn::h1() };
        let id = c.id();
        pool.inner.lock().push(t, c, pool.as_ref());
        let got = rx.try_recv().expect("waiting request did not receive the freed connection (max_idle_per_host = 0)");
        assert_eq!(got.id(), id);
        std::mem::forget(got);
    }
}

/// idle bound with peer-closed entries in the list [C15]
#[tokio::test]
async fn idle_bound_with_closed_entries() {
    let pool: TPool = Pool::new(cfg(2));
    let t = pool.keys.lock().insert(example_key());
    let mut flags = vec![];
    for _ in 0..2 {
        let c = TestConn::h1();
        flags.push(c.open.clone());
        pool.inner.lock().push(t, c, pool.as_ref());
    }
    for f in &flags { f.store(false, std::sync::atomic::Ordering::SeqCst); } // the peer closes the idle connections
    for _ in 0..3 {
        pool.inner.lock().push(t, TestConn::h1(), pool.as_ref());
        let n = pool.inner.lock().idle.get(&t).map(|l| raw_len(l)).unwrap_or(0);
        assert!(n <= 2, "idle list retains {n} connections for one origin, limit is 2");
    }
}

/// burst release [C15]: more exclusive connections released at once than free idle slots
#[tokio::test]
async fn idle_bound_burst_release() {
    let pool: TPool = Pool::new(cfg(1));
    let t = pool.keys.lock().insert(example_key());
    let held: Vec<_> = (0..3).map(|_| Pooled { connection: Some(TestConn::h1()), token: t, pool: pool.as_ref() }).collect();
    drop(held);
    for _ in 0..10 { tokio::task::yield_now().await; }
    let n = pool.inner.lock().idle.get(&t).map(|l| raw_len(l)).unwrap_or(0);
    assert!(n <= 1, "idle list retains {n} connections for one origin, limit is 1");
}

/// pdrop.excl / wr.ready_only with a queued waiter [C02]: a busy exclusive connection is not handed to the next request
#[tokio::test]
async fn exclusive_not_handed_over_while_busy() {
    let pool: TPool = Pool::new(cfg(5));
    let t = pool.keys.lock().insert(example_key());
    let (tx, mut rx) = tokio::sync::oneshot::channel();
    pool.inner.lock().waiting.entry(t).or_default().push_back(tx);
    let c = TestConn::h1();
    c.ready.store(false, std::sync::atomic::Ordering::SeqCst); // previous exchange not finished
    let ready = c.ready.clone();
    drop(Pooled { connection: Some(c), token: t, pool: pool.as_ref() });
    for _ in 0..5 { tokio::task::yield_now().await; }
    assert!(rx.try_recv().is_err(), "connection handed to a second request before it reported ready again");
    ready.store(true, std::sync::atomic::Ordering::SeqCst);
}

/// wrdrop.open with a queued waiter [C02, C05]: a closed/upgraded connection is not handed to a waiting request
#[tokio::test]
async fn closed_not_handed_to_waiter() {
    let pool: TPool = Pool::new(cfg(5));
    let t = pool.keys.lock().insert(example_key());
    let (tx, mut rx) = tokio::sync::oneshot::channel();
    pool.inner.lock().waiting.entry(t).or_default().push_back(tx);
    let c = TestConn::h1();
    c.open.store(false, std::sync::atomic::Ordering::SeqCst);
    drop(Pooled { connection: Some(c), token: t, pool: pool.as_ref() });
    for _ in 0..5 { tokio::task::yield_now().await; }
    assert!(rx.try_recv().is_err(), "closed (or upgraded) connection handed out again");
}

// ======================= bounded stand-ins for A-class functions =======================
// (functions outside Verus' subset: enum pin-projections, async blocks, closures capturing &mut;
//  these scenario tests are BOUNDED checks, labelled as such in the evidence, never counted as proved)

fn cfg_bg(continue_after_preemption: bool) -> Config {
    Config { idle_timeout: None, max_idle_per_host: 5, continue_after_preemption }
}
fn h2_connector(t: MockTransport) -> crate::client::conn::connector::Connector<MockTransport, crate::client::conn::protocol::mock::MockProtocol, crate::Body> {
    t.connector("mock://address".into_request_parts(), HttpProtocol::Http2)
}

/// A.tokenmap.insert [C06] bound: 2000 distinct keys, each inserted twice
#[test]
fn standin_tokenmap_injective_stable() {
    let mut map: key::TokenMap<key::UriKey> = Default::default();
    let mut seen = std::collections::HashMap::new();
    for round in 0..2 {
        for i in 0..2000u32 {
            for scheme in [http::uri::Scheme::HTTP, http::uri::Scheme::HTTPS] {
                let k: key::UriKey = (scheme.clone(), format!("h{}.example:{}", i % 500, 1000 + i / 500).parse::<http::uri::Authority>().unwrap()).into();
                let t = map.insert(k.clone());
                assert!(!t.is_zero(), "zero token issued");
                if round == 0 {
                    assert!(seen.insert(t, k).is_none(), "one token issued for two different origins");
                } else {
                    assert_eq!(seen.get(&t), Some(&k), "token of an origin changed or now names another origin");
                }
            }
        }
    }
}

/// A.cdrop.delayed_keeps_marker [C04]: cancelling an in-flight HTTP/2 request whose dial continues in the
/// background must not make the next request dial
#[tokio::test]
async fn standin_cdrop_delayed_keeps_marker() {
    let pool = Pool::new(cfg_bg(true));
    let key = example_key();
    let (tx, rx) = tokio::sync::oneshot::channel::<MockStream>();
    let mut a = Box::pin(pool.checkout(key.clone(), true, h2_connector(MockTransport::channel(rx))));
    assert!(futures_util::poll!(&mut a).is_pending());
    let token = a.token();
    drop(a);
    assert!(pool.inner.lock().connecting.contains(&token),
        "in-flight marker cleared although the cancelled request's dial continues in the background");
    let mut b = Box::pin(pool.checkout(key.clone(), true, h2_connector(MockTransport::reusable())));
    assert!(futures_util::poll!(&mut b).is_pending(), "second HTTP/2 request dialed instead of waiting for the attempt in flight");
    let s = MockStream::reusable();
    tx.send(s).ok();
    let b = tokio::time::timeout(Duration::from_secs(2), b).await.expect("waiting request never resolved").unwrap();
    drop(b);
}

/// A.cdrop.failed_clears_marker [C03]: after a failed (foreground or background) HTTP/2 attempt the origin is
/// usable again: the marker is gone and a fresh request completes
#[tokio::test]
async fn standin_cdrop_failed_attempt_clears_marker() {
    for bg in [false, true] {
        let pool = Pool::new(cfg_bg(bg));
        let key = example_key();
        let (tx, rx) = tokio::sync::oneshot::channel::<MockStream>();
        let mut a = Box::pin(pool.checkout(key.clone(), true, h2_connector(MockTransport::channel(rx))));
        assert!(futures_util::poll!(&mut a).is_pending());
        let token = a.token();
        if bg {
            drop(a); // continues in the background
            drop(tx); // ... and fails there
            for _ in 0..10 { tokio::task::yield_now().await; }
        } else {
            drop(tx);
            assert!(matches!(futures_util::poll!(&mut a), std::task::Poll::Ready(Err(_))));
            drop(a);
        }
        assert!(!pool.inner.lock().connecting.contains(&token), "stale in-flight marker after a failed attempt (background={bg})");
        let c = tokio::time::timeout(Duration::from_secs(2), pool.checkout(key.clone(), true, h2_connector(MockTransport::reusable()))).await;
        assert!(matches!(c, Ok(Ok(_))), "request after a failed attempt did not complete (background={bg})");
    }
}

/// A.cdrop.cancel_clears_marker [C03]: cancelling a dialing request (no background continuation) never blocks later ones
#[tokio::test]
async fn standin_cdrop_cancel_clears_marker() {
    let pool = Pool::new(cfg_bg(false));
    let key = example_key();
    let (_tx, rx) = tokio::sync::oneshot::channel::<MockStream>();
    let mut a = Box::pin(pool.checkout(key.clone(), true, h2_connector(MockTransport::channel(rx))));
    assert!(futures_util::poll!(&mut a).is_pending());
    let token = a.token();
    drop(a);
    assert!(!pool.inner.lock().connecting.contains(&token), "marker left behind by a cancelled request");
    let c = tokio::time::timeout(Duration::from_secs(2), pool.checkout(key.clone(), true, h2_connector(MockTransport::reusable()))).await;
    assert!(matches!(c, Ok(Ok(_))), "request after a cancelled one did not complete");
}

/// A.cdrop.owner_only [C04] (F5): cancelling a request that merely WAITS for another request's attempt must not
/// clear that attempt's marker
#[tokio::test]
async fn standin_cdrop_owner_only() {
    let pool = Pool::new(cfg_bg(false));
    let key = example_key();
    let (_tx, rx) = tokio::sync::oneshot::channel::<MockStream>();
    let mut dialer = Box::pin(pool.checkout(key.clone(), true, h2_connector(MockTransport::channel(rx))));
    assert!(futures_util::poll!(&mut dialer).is_pending());
    let token = dialer.token();
    let waiter = pool.checkout(key.clone(), true, h2_connector(MockTransport::reusable()));
    drop(waiter);
    assert!(pool.inner.lock().connecting.contains(&token),
        "in-flight marker of a live attempt cleared by cancelling a request that only waited for it");
}

/// A.checkout.poll.preempt [C14]: a waiting request takes a connection released before its first poll; its own dial
/// completes in the background and ends up in the pool (continue_after_preemption) or leaves nothing behind
#[tokio::test]
async fn standin_preempted_dial() {
    for bg in [true, false] {
        let pool = Pool::new(cfg_bg(bg));
        let key = example_key();
        let (tx, rx) = tokio::sync::oneshot::channel::<MockStream>();
        let a = pool.checkout(key.clone(), false,
            MockTransport::channel(rx).connector("mock://address".into_request_parts(), HttpProtocol::Http1));
        let token = a.token();
        let released = MockSender::single();
        let rid = released.id();
        pool.inner.lock().push(token, released, pool.as_ref());
        let got = tokio::time::timeout(Duration::from_secs(2), a).await.expect("waiting request not served by the released connection").unwrap();
        assert_eq!(got.id(), rid, "request was not served by the connection released in the meantime");
        let before = pool.inner.lock().idle.get(&token).map(|l| l.len()).unwrap_or(0);
        let sent = tx.send(MockStream::single()).is_ok();
        for _ in 0..20 { tokio::task::yield_now().await; }
        let after = pool.inner.lock().idle.get(&token).map(|l| l.len()).unwrap_or(0);
        if bg {
            assert!(sent, "abandoned dial was dropped although continue_after_preemption is on");
            assert_eq!(after, before + 1, "pre-empted dial did not end up in the pool");
        } else {
            assert_eq!(after, before, "dropped dial left something behind");
            assert!(!pool.inner.lock().connecting.contains(&token));
        }
        drop(got);
    }
}


/// A.pool.origin_sweep [C06] (bounded stand-in for the key->token map and everything around it that is class A):
/// every operation sequence of length <= 6 over two origins that differ only in scheme - {request A, request B,
/// release the oldest held connection, release the newest held connection} - with exclusive (HTTP/1-like) mock
/// connections: a request is never given a connection that was first dialled for the other origin.
#[tokio::test]
async fn standin_origin_sweep() {
    const OPS: usize = 4;
    const LEN: u32 = 6;
    let keys = [example_key(), other_key()];
    for code in 0..OPS.pow(LEN) {
        let pool: TPool = Pool::new(cfg_bg(false));
        let mut origin_of: std::collections::HashMap<usize, usize> = Default::default();
        let mut held: std::collections::VecDeque<_> = Default::default();
        let mut c = code;
        let mut trace = vec![];
        for _ in 0..LEN {
            let op = c % OPS;
            c /= OPS;
            trace.push(op);
            match op {
                0 | 1 => {
                    let got = tokio::time::timeout(Duration::from_secs(2), pool.checkout(keys[op].clone(), false,
                        test_connector(MockTransport::single(), HttpProtocol::Http1))).await
                        .expect("checkout hangs").expect("checkout fails");
                    let o = *origin_of.entry(got.id()).or_insert(op);
                    assert_eq!(o, op, "ops {trace:?}: a request for origin {op} was given connection {:?}, first dialled for origin {o}", got.id());
                    held.push_back(got);
                }
                2 => { if let Some(p) = held.pop_front() { drop(p); for _ in 0..3 { tokio::task::yield_now().await; } } }
                _ => { if let Some(p) = held.pop_back() { drop(p); for _ in 0..3 { tokio::task::yield_now().await; } } }
            }
        }
    }
}

/// cancel.keeps_dialers [C14]: a request that is still dialling keeps listening for released connections after a
/// sibling request for the same origin has left (finished or been cancelled)
#[tokio::test]
async fn dialer_survives_sibling_leaving() {
    for cancel_sibling in [true, false] {
        let pool: TPool = Pool::new(cfg_bg(false));
        let key = example_key();
        let (_tx1, rx1) = tokio::sync::oneshot::channel::<MockStream>();
        let (tx2, rx2) = tokio::sync::oneshot::channel::<MockStream>();
        let mut a = Box::pin(pool.checkout(key.clone(), false, test_connector(MockTransport::channel(rx1), HttpProtocol::Http1)));
        let mut b = Box::pin(pool.checkout(key.clone(), false, test_connector(MockTransport::channel(rx2), HttpProtocol::Http1)));
        assert!(futures_util::poll!(&mut a).is_pending());
        assert!(futures_util::poll!(&mut b).is_pending());
        let token = a.token();
        if cancel_sibling {
            drop(b);
            drop(tx2);
        } else {
            tx2.send(MockStream::single()).ok();
            let done = tokio::time::timeout(Duration::from_secs(2), &mut b).await.expect("sibling hangs").unwrap();
            std::mem::forget(done);
            drop(b);
        }
        // a connection is released now: the request that is still dialling must take it at its next poll
        let released = TestConn::h1();
        let rid = released.id();
        pool.inner.lock().push(token, released, pool.as_ref());
        let got = tokio::time::timeout(Duration::from_secs(2), &mut a).await
            .expect("waiting request ignored the released connection (keeps waiting for its own dial)").unwrap();
        assert_eq!(got.id(), rid);
        std::mem::forget(got);
    }
}

/// frame.idle_writers / push.idle_bound [C15]: a pre-empted dial that completes in the background while the idle
/// list is already full must not push the list over the limit
#[tokio::test]
async fn idle_bound_preempted_dial() {
    let mut c = cfg_bg(true);
    c.max_idle_per_host = 1;
    let pool: TPool = Pool::new(c);
    let key = example_key();
    let (tx, rx) = tokio::sync::oneshot::channel::<MockStream>();
    let a = pool.checkout(key.clone(), false, test_connector(MockTransport::channel(rx), HttpProtocol::Http1));
    let token = a.token();
    pool.inner.lock().push(token, TestConn::h1(), pool.as_ref()); // released in the meantime -> pre-empts a
    let got = tokio::time::timeout(Duration::from_secs(2), a).await.expect("not pre-empted").unwrap();
    pool.inner.lock().push(token, TestConn::h1(), pool.as_ref()); // fills the idle list (limit 1)
    tx.send(MockStream::single()).ok(); // the abandoned dial completes in the background
    for _ in 0..20 { tokio::task::yield_now().await; }
    let n = pool.inner.lock().idle.get(&token).map(raw_len).unwrap_or(0);
    assert!(n <= 1, "pool holds {n} idle connections for one origin, limit is 1");
    std::mem::forget(got);
}

/// A.pool.many_origins [C06] (bounded stand-in, see A.tokenmap.insert): a long-lived pool that has seen many distinct
/// origins never gives a new origin a connection that belongs to an earlier one (tokens are not reissued while the
/// pool still holds state under them). Bound: 1300 origins, the first few keep an idle connection.
#[tokio::test]
async fn standin_many_origins() {
    let pool: TPool = Pool::new(cfg_bg(false));
    let mut seen: std::collections::HashMap<usize, usize> = Default::default();
    for i in 0..1300usize {
        let key: key::UriKey = (http::uri::Scheme::HTTPS, format!("host-{i}.example:8080").parse::<http::uri::Authority>().unwrap()).into();
        let got = tokio::time::timeout(Duration::from_secs(2), pool.checkout(key, false, test_connector(MockTransport::single(), HttpProtocol::Http1))).await
            .expect("checkout hangs").expect("checkout fails");
        if let Some(prev) = seen.insert(got.id(), i) {
            panic!("the first request for origin {i} was sent on connection {} which was opened for origin {prev}", got.id());
        }
        if i < 8 {
            drop(got); // stays idle in the pool under its origin's token
            for _ in 0..3 { tokio::task::yield_now().await; }
        } else {
            std::mem::forget(got);
        }
    }
}

/// push.idle_bound with expired entries in the list [C15]: entries that outlived the idle timeout still occupy a slot
/// until they are removed
#[tokio::test]
async fn idle_bound_with_expired_entries() {
    let mut c = cfg(1);
    c.idle_timeout = Some(Duration::from_millis(40));
    let pool: TPool = Pool::new(c);
    let t = pool.keys.lock().insert(example_key());
    pool.inner.lock().push(t, TestConn::h1(), pool.as_ref());
    std::thread::sleep(Duration::from_millis(120)); // the idle entry expires; nobody pops it
    for _ in 0..3 {
        pool.inner.lock().push(t, TestConn::h1(), pool.as_ref());
        let n = pool.inner.lock().idle.get(&t).map(raw_len).unwrap_or(0);
        assert!(n <= 1, "pool retains {n} idle connections for one origin, max_idle_per_host = 1");
    }
}

/// A.cdrop.contention [C03] (bounded stand-in for `PinnedDrop for Checkout`): a cancelled HTTP/2 request whose drop
/// runs while another thread holds the pool lock still clears its in-flight marker - later requests complete
#[tokio::test(flavor = "multi_thread", worker_threads = 2)]
async fn standin_cdrop_under_contention() {
    let pool = Pool::new(cfg_bg(false));
    let key = example_key();
    let (_tx, rx) = tokio::sync::oneshot::channel::<MockStream>();
    let mut a = Box::pin(pool.checkout(key.clone(), true, h2_connector(MockTransport::channel(rx))));
    assert!(futures_util::poll!(&mut a).is_pending());
    let token = a.token();
    let guard = pool.inner.lock(); // somebody else is using the pool right now
    let dropper = std::thread::spawn(move || drop(a));
    std::thread::sleep(Duration::from_millis(100));
    drop(guard);
    dropper.join().unwrap();
    assert!(!pool.inner.lock().connecting.contains(&token), "in-flight marker left behind: the checkout was dropped while the pool lock was held elsewhere");
    let c = tokio::time::timeout(Duration::from_secs(2), pool.checkout(key.clone(), true, h2_connector(MockTransport::reusable()))).await;
    assert!(matches!(c, Ok(Ok(_))), "request after a cancelled one did not complete");
}

// ======================= unit `tokenmap` / unit `pooltake` (small class-A functions now under contract) =======================

/// tm.default.* / tm.insert.fresh / tm.insert.counter / tm.insert.stable / tm.insert.maps [C06]: a fresh map numbers new
/// origins 1, 2, 3, ... (the number is visible through `Debug for Token`); a known origin keeps its token and does not
/// advance the counter
#[test]
fn tokenmap_sequence() {
    let mut map: key::TokenMap<key::UriKey> = Default::default();
    let k = |i: usize| -> key::UriKey { (http::uri::Scheme::HTTPS, format!("seq-{i}.example:8443").parse::<http::uri::Authority>().unwrap()).into() };
    for i in 1..=50usize {
        let t = map.insert(k(i));
        assert_eq!(format!("{t:?}"), format!("Token({i})"), "the {i}-th new origin did not get token number {i}");
        // every origin seen so far still has its own token, and asking again changes nothing
        for j in 1..=i {
            assert_eq!(format!("{:?}", map.insert(k(j))), format!("Token({j})"), "origin {j} lost its token after origin {i} was added");
        }
    }
    assert_eq!(format!("{:?}", map.insert(k(51))), "Token(51)", "re-inserting known origins advanced the counter");
}

/// take.returns_stored / take.leaves_nothing [C02]: `Pooled::take` hands out the stored connection and the emptied handle
/// that is dropped inside `take` does not ALSO send it back to the idle list (nor to a waiting request)
#[tokio::test]
async fn pooled_take_leaves_nothing() {
    for share in [false, true] {
        let pool: TPool = Pool::new(cfg(5));
        let t = pool.keys.lock().insert(example_key());
        let (tx, mut rx) = tokio::sync::oneshot::channel();
        pool.inner.lock().waiting.entry(t).or_default().push_back(tx);
        let c = TestConn::mk(share);
        let id = c.id();
        let handle = Pooled { connection: Some(c), token: t, pool: pool.as_ref() };
        let got = handle.take().expect("take() did not return the stored connection");
        assert_eq!(got.id(), id, "take() returned another connection");
        for _ in 0..5 { tokio::task::yield_now().await; }
        assert!(rx.try_recv().is_err(), "a taken connection (share={share}) was also handed to a waiting request");
        assert_eq!(pool.inner.lock().idle.get(&t).map(raw_len).unwrap_or(0), 0, "a taken connection (share={share}) was also returned to the idle list");
        drop(got);
    }
}

/// pdrop.excl_handed_on / pdrop.spawn_only_live / pdrop.spawn_only_excl / pdrop.empties [C02]: dropping a handle returns an
/// exclusive connection (once ready) exactly once; a multiplexed handle and an emptied handle return nothing
#[tokio::test]
async fn pooled_drop_hands_back_once() {
    let pool: TPool = Pool::new(cfg(5));
    let t = pool.keys.lock().insert(example_key());
    let c = TestConn::h1();
    let id = c.id();
    drop(Pooled { connection: Some(c), token: t, pool: pool.as_ref() });
    for _ in 0..5 { tokio::task::yield_now().await; }
    assert_eq!(pool.inner.lock().idle.get(&t).map(raw_len).unwrap_or(0), 1, "a ready exclusive connection was not handed back exactly once");
    assert_eq!(pool.inner.lock().pop(t).map(|c| c.id()), Some(id));
    drop(Pooled { connection: Some(TestConn::h2()), token: t, pool: pool.as_ref() });
    drop(Pooled::<TestConn, crate::Body> { connection: None, token: t, pool: pool.as_ref() });
    for _ in 0..5 { tokio::task::yield_now().await; }
    assert_eq!(pool.inner.lock().idle.get(&t).map(raw_len).unwrap_or(0), 0, "a multiplexed or emptied handle put something into the idle list");
}

/// pooled.deref / pooled.is_open / pooled.can_share / pooled.poll_ready [C02]: the handle's accessors are those of the
/// connection it holds
#[tokio::test]
async fn pooled_accessors_forward() {
    use crate::client::conn::Connection as _;
    let pool: TPool = Pool::new(cfg(5));
    for (share, open, ready) in [(false, true, true), (false, false, true), (true, true, false), (true, false, false)] {
        let c = TestConn::mk(share);
        c.open.store(open, std::sync::atomic::Ordering::SeqCst);
        c.ready.store(ready, std::sync::atomic::Ordering::SeqCst);
        let id = c.id();
        let mut p = Pooled { connection: Some(c), token: Token::zero(), pool: pool.as_ref() };
        assert_eq!((&*p).id(), id, "deref does not yield the held connection");
        assert_eq!(p.is_open(), open, "is_open is not the connection's");
        assert_eq!(p.can_share(), share, "can_share is not the connection's");
        let polled = std::future::poll_fn(|cx| std::task::Poll::Ready(p.poll_ready(cx))).await;
        assert_eq!(polled.is_ready(), ready, "poll_ready is not the connection's");
        assert_eq!((&*p).id(), id, "poll_ready replaced the held connection");
        std::mem::forget(p);
    }
}

// ======================= round 4: scenarios for changes that leave the verifier's subset =======================

/// wr.ready_only / pdrop.excl [C02]: a released exclusive connection whose previous exchange never finishes (its
/// `poll_ready` stays Pending while `is_open()` is true) is never handed out again - however long it stays busy, in
/// particular not once it has been busy for longer than the pool's idle timeout.  Neither a waiting request nor the
/// idle list may get it.  One-sided: correct code never returns it, so a slow machine cannot make this fail.
#[tokio::test]
async fn busy_connection_not_returned_after_idle_timeout() {
    let timeout = Duration::from_millis(25);
    for with_waiter in [true, false] {
        let mut c = cfg(5);
        c.idle_timeout = Some(timeout);
        let pool: TPool = Pool::new(c);
        let t = pool.keys.lock().insert(example_key());
        let (tx, mut rx) = tokio::sync::oneshot::channel();
        if with_waiter {
            pool.inner.lock().waiting.entry(t).or_default().push_back(tx);
        } else {
            drop(tx);
        }
        let conn = TestConn::h1();
        let ready = conn.ready.clone();
        ready.store(false, std::sync::atomic::Ordering::SeqCst); // the previous exchange is still going on
        drop(Pooled { connection: Some(conn), token: t, pool: pool.as_ref() });
        let t0 = std::time::Instant::now();
        while t0.elapsed() < 4 * timeout {
            tokio::time::sleep(timeout / 2).await;
            if with_waiter {
                assert!(rx.try_recv().is_err(),
                    "a connection that never reported ready again was handed to a waiting request (after {:?}, idle_timeout {timeout:?})", t0.elapsed());
            }
            let n = pool.inner.lock().idle.get(&t).map(raw_len).unwrap_or(0);
            assert_eq!(n, 0, "a connection that never reported ready again was put into the idle list (after {:?}, idle_timeout {timeout:?})", t0.elapsed());
        }
        // ... and a request issued now dials instead of being given the busy connection
        let got = tokio::time::timeout(Duration::from_secs(2), pool.checkout(example_key(), false,
            test_connector(MockTransport::single(), HttpProtocol::Http1))).await.expect("checkout hangs").expect("checkout fails");
        assert!(got.ready.load(std::sync::atomic::Ordering::SeqCst), "a request was given the connection that is still serving the previous one");
        std::mem::forget(got);
        ready.store(true, std::sync::atomic::Ordering::SeqCst);
    }
}

/// pop.fresh / idle.pop.fresh / frame.idle_api [C05]: the idle timeout applies to multiplexed (shareable) connections as
/// well: an HTTP/2-like connection that sat in the pool for longer than a non-zero idle timeout is not handed out -
/// neither by `pop` nor to a request through `checkout`.  One-sided (sleeping longer only makes the entry older).
#[tokio::test]
async fn pop_skips_expired_shared() {
    let timeout = Duration::from_millis(20);
    for through_checkout in [false, true] {
        let mut c = cfg(5);
        c.idle_timeout = Some(timeout);
        let pool: TPool = Pool::new(c);
        let t = pool.keys.lock().insert(example_key());
        let old = TestConn::h2();
        let old_id = old.id();
        pool.inner.lock().push(t, old, pool.as_ref());
        std::thread::sleep(5 * timeout);
        if through_checkout {
            let got = tokio::time::timeout(Duration::from_secs(2), pool.checkout(example_key(), true,
                test_connector(MockTransport::reusable(), HttpProtocol::Http2))).await.expect("checkout hangs").expect("checkout fails");
            assert_ne!(got.id(), old_id, "a request was served on a multiplexed connection that sat idle for longer than the idle timeout");
        } else {
            let got = pool.inner.lock().pop(t);
            assert!(got.is_none(), "pop handed out a multiplexed connection that sat idle for longer than the idle timeout");
        }
    }
    // a fresh multiplexed connection IS handed out (the scenario above does not pass by refusing everything)
    let mut c = cfg(5);
    c.idle_timeout = Some(Duration::from_secs(3600));
    let pool: TPool = Pool::new(c);
    let t = pool.keys.lock().insert(example_key());
    let fresh = TestConn::h2();
    let id = fresh.id();
    pool.inner.lock().push(t, fresh, pool.as_ref());
    assert_eq!(pool.inner.lock().pop(t).map(|c| c.id()), Some(id), "a fresh multiplexed idle connection was not handed out");
}

/// frame.idle_writers / frame.idle_list_writers / push.idle_bound / cdrop.frame [C15]: a request that was given an idle
/// connection by `checkout()` and is cancelled before its first poll must not push the origin's idle list over the limit,
/// whatever happened to the list in between (here: another connection was released and filled it up again)
#[tokio::test]
async fn idle_bound_unpolled_checkout_dropped() {
    for max in [1usize, 2] {
        let pool: TPool = Pool::new(cfg(max));
        let key = example_key();
        let t = pool.keys.lock().insert(key.clone());
        for _ in 0..max {
            pool.inner.lock().push(t, TestConn::h1(), pool.as_ref());
        }
        let bound = |when: &str| {
            let n = pool.inner.lock().idle.get(&t).map(raw_len).unwrap_or(0);
            assert!(n <= max, "{when}: pool holds {n} idle connections for one origin, max_idle_per_host = {max}");
        };
        // takes an idle connection out of the list; the future is never polled
        let unpolled = pool.checkout(key.clone(), false, test_connector(MockTransport::single(), HttpProtocol::Http1));
        bound("after checkout()");
        // meanwhile another connection for the origin is released: the list is full again
        pool.inner.lock().push(t, TestConn::h1(), pool.as_ref());
        bound("after a release");
        drop(unpolled); // the request is cancelled before its first poll
        for _ in 0..10 { tokio::task::yield_now().await; }
        let n = pool.inner.lock().idle.get(&t).map(raw_len).unwrap_or(0);
        assert!(n <= max, "pool holds {n} idle connections for one origin, max_idle_per_host = {max}");
    }
}

/// pooled.version / pooled.send_request.* / pooled.reuse.* [C13,C02,C04,C06]: the handle is transparent on the request path:
/// `version()` is the held connection's (whatever the token - a handle of a client WITHOUT a pool carries the zero token
/// around an HTTP/1.1 connection), `send_request` gives the held connection exactly that request, once, and `reuse()` is
/// the held connection's `reuse()` under the same token and pool reference
#[tokio::test]
async fn pooled_request_path_is_transparent() {
    use crate::client::conn::Connection as _;
    let pool: TPool = Pool::new(cfg(5));
    let t = pool.keys.lock().insert(example_key());
    for share in [false, true] {
        for (token, poolref) in [(t, pool.as_ref()), (Token::zero(), pool.as_ref()), (Token::zero(), PoolRef::none()), (t, PoolRef::none())] {
            let c = TestConn::mk(share);
            let (id, want, sent) = (c.id(), c.version(), c.sent.clone());
            let has_pool = !poolref.is_none();
            let mut p = Pooled { connection: Some(c), token, pool: poolref };
            assert_eq!(p.version(), want, "version() of a handle (token {token:?}, pool {has_pool}) is not the version of the connection it holds");
            // send_request: exactly this request, once
            for (k, (uri, version)) in [("http://a.test/first?x=1", http::Version::HTTP_10), ("/second", http::Version::HTTP_11), ("https://b.test/", http::Version::HTTP_2)].into_iter().enumerate() {
                let mut req = http::Request::post(uri).body(crate::Body::empty()).unwrap();
                *req.version_mut() = version;
                let resp = p.send_request(req).await;
                assert!(resp.is_ok(), "send_request through the handle failed");
                let log = sent.lock().unwrap().clone();
                assert_eq!(log.len(), k + 1, "the held connection was given {} requests after {} send_request calls on the handle", log.len(), k + 1);
                assert_eq!(log[k], (uri.to_string(), version), "the held connection was given another request than the handle");
            }
            assert_eq!((&*p).id(), id, "send_request replaced the held connection");
            assert_eq!(p.version(), want);
            // pooled.deref_mut: the mutable borrow is of the held connection, and leaves token / pool reference alone
            { let c: &mut TestConn = &mut *p; assert_eq!(c.id(), id, "deref_mut does not yield the held connection"); }
            assert_eq!(p.token, token, "deref_mut changed the handle's token");
            // reuse
            match p.reuse() {
                Some(second) => {
                    assert!(share, "reuse() of a handle around an exclusive connection produced a second handle");
                    assert_eq!((&*second).id(), id, "the second handle holds another connection");
                    assert_eq!(second.token, token, "the second handle carries another token");
                    assert_eq!(second.pool.is_none(), !has_pool, "the second handle carries another pool reference");
                    assert_eq!(second.version(), want);
                    std::mem::forget(second);
                }
                None => assert!(!share, "reuse() of a handle around a multiplexed connection produced nothing"),
            }
            assert_eq!((&*p).id(), id, "reuse() replaced the held connection");
            assert_eq!(p.token, token);
            std::mem::forget(p);
        }
    }
}
