// replay templates for unit shutdown
