// Replay templates for the shutdown unit (C07): concrete scenarios against the REAL crate.
// Compiled inside `crate::server::verif_replays` (feature verif-hooks, test builds).
use super::*;
use std::cell::RefCell;
use std::rc::Rc;
use tracing::Span;

#[derive(Debug, Clone, Copy, PartialEq, Eq)]
enum Ev { Polled(bool), Told }

/// A connection that records what is done to it; it finishes when `done` is set.
struct TestConn { log: Rc<RefCell<Vec<Ev>>>, done: Rc<RefCell<bool>> }
impl Future for TestConn {
    type Output = Result<(), std::io::Error>;
    fn poll(self: Pin<&mut Self>, _cx: &mut Context<'_>) -> Poll<Self::Output> {
        let ready = *self.done.borrow();
        self.log.borrow_mut().push(Ev::Polled(ready));
        if ready { Poll::Ready(Ok(())) } else { Poll::Pending }
    }
}
impl Connection for TestConn {
    fn graceful_shutdown(self: Pin<&mut Self>) { self.log.borrow_mut().push(Ev::Told); }
}

fn poll_now<F: Future + ?Sized>(f: Pin<&mut F>) -> Poll<F::Output> {
    let waker = futures_util::task::noop_waker();
    let mut cx = Context::from_waker(&waker);
    f.poll(&mut cx)
}
fn told(log: &Rc<RefCell<Vec<Ev>>>) -> usize { log.borrow().iter().filter(|e| **e == Ev::Told).count() }

/// gd.once / gd.keep / gd.finish / gd.finish_not_early / gd.told_when_closed [C07]: one driver over many polls, the
/// shutdown channel closing while the connection is still busy.
#[test]
fn gd_once_keep_finish() {
    let log = Rc::new(RefCell::new(Vec::new()));
    let done = Rc::new(RefCell::new(false));
    let (mut shutdown_tx, shutdown_rx) = close();
    let (mut finished_tx, finished_rx) = close();
    let conn = TestConn { log: log.clone(), done: done.clone() }.instrument(Span::none());
    let mut driver = Box::pin(GracefulConnectionDriver::<_, std::io::Error>::new(
        conn, shutdown_rx, finished_tx.clone(), Span::none()));
    finished_tx.send(); // only the driver's handle keeps the `finished` channel open now

    // before the signal: polled, not told
    assert!(poll_now(driver.as_mut()).is_pending());
    assert!(poll_now(driver.as_mut()).is_pending());
    assert_eq!(*log.borrow(), vec![Ev::Polled(false), Ev::Polled(false)]);
    assert!(!finished_rx.0.is_closed(), "finished released before the connection is done");

    // the shutdown channel closes while the connection is still busy
    shutdown_tx.send();
    assert!(poll_now(driver.as_mut()).is_pending());
    assert_eq!(told(&log), 1, "the connection must be told to shut down when the channel closes");
    // gd.keep: told, then polled again in the same call
    assert_eq!(log.borrow()[2..], [Ev::Polled(false), Ev::Told, Ev::Polled(false)]);

    // further polls: still driven, never told again
    for _ in 0..3 {
        assert!(poll_now(driver.as_mut()).is_pending());
    }
    assert_eq!(told(&log), 1, "graceful_shutdown must be called at most once");
    assert_eq!(*log.borrow().last().unwrap(), Ev::Polled(false));
    assert!(!finished_rx.0.is_closed(), "finished released before the connection is done");

    // the connection completes: the driver completes and releases its `finished` handle
    *done.borrow_mut() = true;
    assert!(poll_now(driver.as_mut()).is_ready());
    assert_eq!(*log.borrow().last().unwrap(), Ev::Polled(true));
    assert_eq!(told(&log), 1);
    assert!(finished_rx.0.is_closed(), "finished.send() was not called when the connection completed");
}

/// cs.send [C07]: `send` releases the handle: with the last handle sent the channel is closed.
#[test]
fn cs_send_closes() {
    let (mut tx, rx) = close();
    let mut tx2 = tx.clone();
    tx.send();
    assert!(!rx.0.is_closed());
    tx2.send();
    assert!(rx.0.is_closed());
}

// ---- a whole `GracefulShutdown` future over the real `Serving`, with a recording protocol / executor ----
thread_local! { static ORDER: RefCell<Vec<&'static str>> = RefCell::new(Vec::new()); }
fn note(s: &'static str) { ORDER.with(|o| o.borrow_mut().push(s)); }

/// acceptor wrapper that records every poll of the real duplex acceptor
struct NotingAccept(crate::stream::duplex::DuplexIncoming);
impl Accept for NotingAccept {
    type Conn = crate::stream::duplex::DuplexStream;
    type Error = std::io::Error;
    fn poll_accept(mut self: Pin<&mut Self>, cx: &mut Context<'_>) -> Poll<Result<Self::Conn, Self::Error>> {
        note("accept");
        Pin::new(&mut self.0).poll_accept(cx)
    }
}
/// protocol whose connections are `TestConn`s sharing one log
struct TestProto { log: Rc<RefCell<Vec<Ev>>>, done: Rc<RefCell<bool>> }
impl<S, IO> Protocol<S, IO, crate::Body> for TestProto {
    type ResponseBody = crate::Body;
    type Error = std::io::Error;
    type Connection = TestConn;
    fn serve_connection_with_upgrades(&self, _stream: IO, _service: S) -> TestConn {
        TestConn { log: self.log.clone(), done: self.done.clone() }
    }
}
type Spawned = Rc<RefCell<Vec<Pin<Box<dyn Future<Output = ()>>>>>>;
#[derive(Clone)]
struct Rec(Spawned);
impl<F: Future<Output = ()> + 'static> hyper::rt::Executor<F> for Rec {
    fn execute(&self, fut: F) { self.0.borrow_mut().push(Box::pin(fut)); }
}

/// gs.first / gs.stop / gs.stop_only_on_signal / gs.spawn [C07]
#[tokio::test]
async fn gs_first_stop_spawn() {
    use std::sync::atomic::{AtomicBool, Ordering};
    ORDER.with(|o| o.borrow_mut().clear());
    let log = Rc::new(RefCell::new(Vec::new()));
    let done = Rc::new(RefCell::new(false));
    let spawned: Spawned = Rc::new(RefCell::new(Vec::new()));
    let (client, incoming) = crate::stream::duplex::pair();
    let svc = crate::service::make_service_fn(|_: &crate::stream::duplex::DuplexStream| {
        std::future::ready(Ok::<_, std::convert::Infallible>(tower::service_fn(|_: http::Request<crate::Body>| {
            std::future::ready(Ok::<_, std::convert::Infallible>(http::Response::new(crate::Body::empty())))
        })))
    });
    let flag = std::sync::Arc::new(AtomicBool::new(false));
    let f2 = flag.clone();
    let signal = std::future::poll_fn(move |_| {
        if f2.load(Ordering::SeqCst) { note("signal:ready"); Poll::Ready(()) } else { note("signal:pending"); Poll::Pending }
    });
    let server = Server::new(NotingAccept(incoming), TestProto { log: log.clone(), done: done.clone() }, svc, Rec(spawned.clone()));
    let mut serving = Box::pin(server.with_graceful_shutdown(signal));

    // one client connects while no signal is there: it is accepted and handed to the executor
    let mut c1 = Box::pin(client.connect(1024));
    assert!(futures_util::poll!(&mut c1).is_pending());
    assert!(poll_now(serving.as_mut()).is_pending());
    assert_eq!(spawned.borrow().len(), 1, "the accepted connection was not handed to the executor");
    assert!(matches!(futures_util::poll!(&mut c1), Poll::Ready(Ok(_))));
    // gs.first: every accept poll directly follows a pending signal poll
    let order = ORDER.with(|o| o.borrow().clone());
    assert!(order.iter().filter(|e| **e == "accept").count() >= 2);
    for (i, e) in order.iter().enumerate() {
        if *e == "accept" { assert_eq!(order[i - 1], "signal:pending", "accept polled without checking the signal first: {order:?}"); }
    }
    // gs.stop_only_on_signal: the spawned driver is driven, its connection is not told to shut down
    let mut driver = spawned.borrow_mut().pop().unwrap();
    assert!(poll_now(driver.as_mut()).is_pending());
    assert_eq!(told(&log), 0, "connection told to shut down although the signal has not fired");

    // the signal fires while another client is already waiting to be accepted
    let mut c2 = Box::pin(client.connect(1024));
    assert!(futures_util::poll!(&mut c2).is_pending());
    flag.store(true, Ordering::SeqCst);
    let before = ORDER.with(|o| o.borrow().len());
    match poll_now(serving.as_mut()) {
        Poll::Ready(Ok(())) => {}
        other => panic!("gs.stop: expected Ready(Ok(())) once the signal resolved, got {other:?}"),
    }
    let after = ORDER.with(|o| o.borrow()[before..].to_vec());
    assert_eq!(after, vec!["signal:ready"], "gs.first: nothing may be polled after the signal resolved");
    assert!(!matches!(futures_util::poll!(&mut c2), Poll::Ready(Ok(_))), "a connection was accepted after the signal");
    assert_eq!(spawned.borrow().len(), 0);
    // gs.stop + gs.spawn: the driver spawned earlier watches this server's channel: it now tells its connection
    assert!(poll_now(driver.as_mut()).is_pending());
    assert_eq!(told(&log), 1, "shutdown.send() did not reach the spawned driver's connection");
    assert_eq!(*log.borrow().last().unwrap(), Ev::Polled(false), "gd.keep");
    *done.borrow_mut() = true;
    assert!(poll_now(driver.as_mut()).is_ready());
}

/// gs.close.paired / gs.close.unsent [C07]: `close()` returns the two sides of ONE channel, the closing side still holding
/// its handle: a future made from the receiving side is pending until exactly that closing side is released.
#[test]
fn gs_close_paired() {
    let (mut tx, rx) = close();
    let (mut other_tx, _other_rx) = close();
    assert!(tx.0.is_some(), "gs.close.unsent: the closing side comes without its handle");
    let mut fut = Box::pin(rx.clone().into_future());
    assert!(poll_now(fut.as_mut()).is_pending(), "gs.close.unsent: a fresh channel is already closed");
    other_tx.send();
    assert!(poll_now(fut.as_mut()).is_pending(), "releasing the closing side of ANOTHER channel closed this one");
    tx.send();
    assert!(poll_now(fut.as_mut()).is_ready(), "gs.close.paired: the two values returned by close() are not sides of one channel");
    assert!(rx.0.is_closed());
}

/// gs.new.shutdown_channel / gs.new.finished_channel / gs.new.server / gs.new.signal [C07]: in what
/// `Server::with_graceful_shutdown` (= `GracefulShutdown::new`) builds, `shutdown` closes the channel whose receiving side
/// (`channel`) is cloned into every driver, `connection` closes the channel `finished` waits on, and neither closes the other;
/// the server has not started and the signal has not been polled.
#[tokio::test]
async fn gs_new_channels() {
    ORDER.with(|o| o.borrow_mut().clear());
    let log = Rc::new(RefCell::new(Vec::new()));
    let done = Rc::new(RefCell::new(false));
    let spawned: Spawned = Rc::new(RefCell::new(Vec::new()));
    let (_client, incoming) = crate::stream::duplex::pair();
    let svc = crate::service::make_service_fn(|_: &crate::stream::duplex::DuplexStream| {
        std::future::ready(Ok::<_, std::convert::Infallible>(tower::service_fn(|_: http::Request<crate::Body>| {
            std::future::ready(Ok::<_, std::convert::Infallible>(http::Response::new(crate::Body::empty())))
        })))
    });
    let signal = std::future::poll_fn(move |_| { note("signal:pending"); Poll::<()>::Pending });
    let server = Server::new(NotingAccept(incoming), TestProto { log: log.clone(), done: done.clone() }, svc, Rec(spawned.clone()));
    let mut gs = server.with_graceful_shutdown(signal);
    assert!(ORDER.with(|o| o.borrow().is_empty()), "gs.new.server / gs.new.signal: building the future polled something: {:?}", ORDER.with(|o| o.borrow().clone()));
    assert!(matches!(gs.server.state, State::Preparing), "gs.new.server: the serving future does not start in `Preparing`");
    assert!(gs.shutdown.0.is_some() && gs.connection.0.is_some(), "a closing side comes without its handle");

    // what a driver gets (`channel.clone()`) is closed by `shutdown` and by nothing else
    let mut driver_side = Box::pin(gs.channel.clone().into_future());
    assert!(poll_now(driver_side.as_mut()).is_pending());
    assert!(poll_now(Pin::new(&mut gs.finished)).is_pending(), "`finished` fired although the server holds `connection`");
    gs.connection.send();
    assert!(poll_now(driver_side.as_mut()).is_pending(), "gs.new.shutdown_channel: releasing `connection` closed the drivers' shutdown channel");
    assert!(poll_now(Pin::new(&mut gs.finished)).is_ready(), "gs.new.finished_channel: `finished` does not wait on the channel of `connection`");
    gs.shutdown.send();
    assert!(poll_now(driver_side.as_mut()).is_ready(), "gs.new.shutdown_channel: `shutdown` does not close the channel handed to the drivers");
    assert!(gs.channel.0.is_closed());
}
