// Replay templates for the sniff unit (C08, C18): concrete scenarios against the REAL crate.
// Compiled inside `crate::server::conn::auto::verif_replays` (feature verif-hooks, test builds).
use super::*;
use std::collections::VecDeque;
use std::mem::MaybeUninit;
use std::pin::Pin;
use std::task::{Context, Poll, Waker};

use hyper::rt::{Read, ReadBuf, ReadBufCursor, Write};

use crate::rewind::Rewind;

/// RFC 9113 section 3.4, written out independently of the constant in the code
const RFC_PREFACE: [u8; 24] = [
    0x50, 0x52, 0x49, 0x20, 0x2a, 0x20, 0x48, 0x54, 0x54, 0x50, 0x2f, 0x32, 0x2e, 0x30, 0x0d, 0x0a, 0x0d, 0x0a, 0x53,
    0x4d, 0x0d, 0x0a, 0x0d, 0x0a,
];

#[derive(Debug, Clone)]
enum Step {
    Chunk(Vec<u8>),
    Pending,
}

/// A reader that honours the `Read` contract and delivers a scripted sequence of chunks; after the
/// script it reports end-of-stream.  Records how often it was polled.
#[derive(Debug)]
struct Script {
    steps: VecDeque<Step>,
    polls: usize,
    written: Vec<(String, Vec<u8>)>,
}

impl Script {
    fn new(steps: Vec<Step>) -> Self {
        Script { steps: steps.into(), polls: 0, written: Vec::new() }
    }
    /// `data` cut at the given positions, optionally with a Pending before every chunk
    fn cut(data: &[u8], cuts: &[usize], pend: bool) -> Self {
        let mut steps = Vec::new();
        let mut last = 0;
        for &c in cuts.iter().chain(std::iter::once(&data.len())) {
            if c > last {
                if pend {
                    steps.push(Step::Pending);
                }
                steps.push(Step::Chunk(data[last..c].to_vec()));
                last = c;
            }
        }
        Self::new(steps)
    }
}

impl Read for Script {
    fn poll_read(mut self: Pin<&mut Self>, cx: &mut Context<'_>, mut buf: ReadBufCursor<'_>) -> Poll<std::io::Result<()>> {
        self.polls += 1;
        match self.steps.pop_front() {
            None => Poll::Ready(Ok(())),
            Some(Step::Pending) => {
                cx.waker().wake_by_ref();
                Poll::Pending
            }
            Some(Step::Chunk(mut c)) => {
                let n = c.len().min(buf.remaining());
                buf.put_slice(&c[..n]);
                if n < c.len() {
                    let rest = c.split_off(n);
                    self.steps.push_front(Step::Chunk(rest));
                }
                Poll::Ready(Ok(()))
            }
        }
    }
}

impl Write for Script {
    fn poll_write(mut self: Pin<&mut Self>, _cx: &mut Context<'_>, buf: &[u8]) -> Poll<std::io::Result<usize>> {
        self.written.push(("write".into(), buf.to_vec()));
        Poll::Ready(Ok(buf.len().min(3)))
    }
    fn poll_flush(mut self: Pin<&mut Self>, _cx: &mut Context<'_>) -> Poll<std::io::Result<()>> {
        self.written.push(("flush".into(), vec![]));
        Poll::Pending
    }
    fn poll_shutdown(mut self: Pin<&mut Self>, _cx: &mut Context<'_>) -> Poll<std::io::Result<()>> {
        self.written.push(("shutdown".into(), vec![]));
        Poll::Ready(Err(std::io::ErrorKind::BrokenPipe.into()))
    }
    fn is_write_vectored(&self) -> bool {
        true
    }
    fn poll_write_vectored(mut self: Pin<&mut Self>, _cx: &mut Context<'_>, bufs: &[std::io::IoSlice<'_>]) -> Poll<std::io::Result<usize>> {
        let all: Vec<u8> = bufs.iter().flat_map(|b| b.iter().copied()).collect();
        self.written.push((format!("vectored{}", bufs.len()), all));
        Poll::Ready(Ok(5))
    }
}

fn cx() -> Context<'static> {
    Context::from_waker(Waker::noop())
}

/// drive the sniffer to completion; returns the verdict, the rewind and the number of Pending results
fn sniff(script: Script) -> (HttpProtocol, Rewind<Script>, usize) {
    let mut rv = ReadVersion::new(script);
    let mut cx = cx();
    let mut pendings = 0;
    for _ in 0..200 {
        match Pin::new(&mut rv).poll(&mut cx) {
            Poll::Pending => pendings += 1,
            Poll::Ready(r) => {
                let (v, rw) = r.expect("sniffing must not fail on a reader that does not fail");
                return (v, rw, pendings);
            }
        }
    }
    panic!("sniffer did not finish");
}

/// read a reader to end-of-stream through buffers of capacity `cap`
fn drain<R: Read + Unpin>(r: &mut R, cap: usize) -> Vec<u8> {
    let mut out = Vec::new();
    let mut cx = cx();
    for _ in 0..10_000 {
        let mut storage = vec![MaybeUninit::<u8>::uninit(); cap];
        let mut rb = ReadBuf::uninit(&mut storage);
        match Pin::new(&mut *r).poll_read(&mut cx, rb.unfilled()) {
            Poll::Pending => continue,
            Poll::Ready(res) => {
                res.unwrap();
                if rb.filled().is_empty() {
                    return out;
                }
                out.extend_from_slice(rb.filled());
            }
        }
    }
    panic!("reader did not reach end-of-stream");
}

fn chunkings(len: usize) -> Vec<Vec<usize>> {
    let mut res: Vec<Vec<usize>> = vec![vec![]];
    for i in 1..len {
        res.push(vec![i]); // two chunks
    }
    res.push((1..len).collect()); // one byte at a time
    res.push(vec![3, 4, 17]);
    res.push(vec![1, 23]);
    res.push(vec![24]);
    res.push(vec![12, 24, 30]);
    res
}

/// preface.const: the constant in the code is the RFC's preface
#[test]
fn preface_constant() {
    assert_eq!(HTTP2_PREFIX, &RFC_PREFACE[..]);
    assert_eq!(HTTP2_PREFIX.len(), 24);
}

/// rv.h2 / rv.h1 [C08]: a stream that begins with the preface is HTTP/2 however it is cut into reads
#[test]
fn rv_h2_any_fragmentation() {
    let mut data = RFC_PREFACE.to_vec();
    data.extend_from_slice(b"\x00\x00\x00\x04\x00\x00\x00\x00\x00rest-of-the-frames");
    for pend in [false, true] {
        for cuts in chunkings(32) {
            let (v, _rw, _) = sniff(Script::cut(&data, &cuts, pend));
            assert_eq!(v, HttpProtocol::Http2, "preface cut at {cuts:?} (pending between chunks: {pend}) was not detected as HTTP/2");
        }
    }
}

/// rv.h1 [C08]: everything else is HTTP/1: other requests, a preface that diverges, a stream that ends inside it
#[test]
fn rv_h1_everything_else() {
    let mut diverging = RFC_PREFACE.to_vec();
    diverging[23] = b'X';
    let cases: Vec<Vec<u8>> = vec![
        b"GET / HTTP/1.1\r\nhost: a\r\n\r\n".to_vec(),
        b"PRI * HTTP/1.1\r\nhost: a\r\n\r\n".to_vec(),
        b"PRI * HTTP/2.0\r\n\r\nSM\r\n".to_vec(),
        RFC_PREFACE[..23].to_vec(),
        RFC_PREFACE[..1].to_vec(),
        vec![],
        diverging,
        b"P".to_vec(),
        b"G".to_vec(),
    ];
    for data in cases {
        for pend in [false, true] {
            for cuts in chunkings(data.len().max(2)) {
                let cuts: Vec<usize> = cuts.into_iter().filter(|c| *c < data.len()).collect();
                let (v, _rw, _) = sniff(Script::cut(&data, &cuts, pend));
                assert_eq!(v, HttpProtocol::Http1, "{:?} cut at {cuts:?} must be HTTP/1", String::from_utf8_lossy(&data));
            }
        }
    }
}

/// rv.h1 [C08] as an equivalence: both directions
#[test]
fn rv_verdict_both_directions() {
    rv_h2_any_fragmentation();
    rv_h1_everything_else();
}

/// rv.rewind [C08,C18]: the protocol handler sees exactly the client's bytes, none lost or duplicated
#[test]
fn rv_rewind_exact_bytes() {
    let mut h2 = RFC_PREFACE.to_vec();
    h2.extend_from_slice(b"\x00\x00\x00\x04\x00\x00\x00\x00\x00 and more");
    let h1 = b"POST /a HTTP/1.1\r\ncontent-length: 5\r\n\r\nhello".to_vec();
    let short = b"PRI * HT".to_vec();
    for data in [h2, h1, short] {
        for pend in [false, true] {
            for cuts in chunkings(data.len()) {
                let cuts: Vec<usize> = cuts.into_iter().filter(|c| *c < data.len()).collect();
                for cap in [1usize, 7, 64] {
                    let (_v, mut rw, _) = sniff(Script::cut(&data, &cuts, pend));
                    let seen = drain(&mut rw, cap);
                    assert_eq!(seen, data, "bytes after sniffing differ (cuts {cuts:?}, read capacity {cap})");
                }
            }
        }
    }
}

/// rv.pending [C08]: Pending from the reader is passed on, nothing is lost across it, the verdict stands
#[test]
fn rv_pending_keeps_state() {
    let data = RFC_PREFACE.to_vec();
    let script = Script::new(vec![
        Step::Chunk(data[..5].to_vec()),
        Step::Pending,
        Step::Pending,
        Step::Chunk(data[5..6].to_vec()),
        Step::Pending,
        Step::Chunk(data[6..].to_vec()),
    ]);
    let (v, mut rw, pendings) = sniff(script);
    assert_eq!(pendings, 3, "every Pending of the reader must surface as Pending of the sniffer");
    assert_eq!(v, HttpProtocol::Http2);
    assert_eq!(drain(&mut rw, 16), data);
}

/// rv.cancel [C07,C08]: a cancelled sniffer reports Interrupted without touching the stream
#[test]
fn rv_cancel_interrupts() {
    let mut rv = ReadVersion::new(Script::cut(&RFC_PREFACE, &[4], false));
    let mut cx = cx();
    Pin::new(&mut rv).cancel();
    match Pin::new(&mut rv).poll(&mut cx) {
        Poll::Ready(Err(e)) => assert_eq!(e.kind(), std::io::ErrorKind::Interrupted),
        other => panic!("cancelled sniffer returned {:?}", other.map(|r| r.map(|(v, _)| v))),
    }
    assert_eq!(rv.io.as_ref().unwrap().polls, 0, "a cancelled sniffer must not read");
    assert_eq!(rv.filled, 0);
}

/// rw.replay [C08,C18]: prefix first, then the inner stream, for every read capacity
#[test]
fn rw_replay_order() {
    let inner_data = b"the live stream".to_vec();
    for prefix in [&b""[..], &b"P"[..], &b"PRI * HTTP/2.0\r\n\r\nSM\r\n\r\n"[..]] {
        for cap in [0usize, 1, 2, 5, 24, 100] {
            let mut rw = Rewind::new(Script::cut(&inner_data, &[4], true), prefix.to_vec());
            if cap == 0 {
                // a cursor without room: Ready(Ok) with nothing moved, nothing lost
                let mut storage: [MaybeUninit<u8>; 0] = [];
                let mut rb = ReadBuf::uninit(&mut storage);
                let mut cx = cx();
                if !prefix.is_empty() {
                    assert!(matches!(Pin::new(&mut rw).poll_read(&mut cx, rb.unfilled()), Poll::Ready(Ok(()))));
                    assert_eq!(rb.filled().len(), 0);
                }
                let mut all = prefix.to_vec();
                all.extend_from_slice(&inner_data);
                assert_eq!(drain(&mut rw, 8), all);
                continue;
            }
            // while prefix bytes remain every call delivers a non-empty chunk of the prefix and leaves the inner reader alone
            let mut got = Vec::new();
            let mut cx = cx();
            while got.len() < prefix.len() {
                let mut storage = vec![MaybeUninit::<u8>::uninit(); cap];
                let mut rb = ReadBuf::uninit(&mut storage);
                let r = Pin::new(&mut rw).poll_read(&mut cx, rb.unfilled());
                assert!(matches!(r, Poll::Ready(Ok(()))), "replaying the prefix must not pend or fail");
                assert!(!rb.filled().is_empty(), "a call with room must deliver prefix bytes");
                got.extend_from_slice(rb.filled());
                assert!(got.len() <= prefix.len(), "prefix and live bytes must not be mixed in one chunk before the prefix is exhausted");
            }
            assert_eq!(got, prefix);
            let (inner, _) = rw.into_parts();
            assert_eq!(inner.polls, 0, "inner reader touched before the prefix was exhausted");
            let mut rw = Rewind::new(inner, Vec::new());
            assert_eq!(drain(&mut rw, cap), inner_data);
        }
    }
}

/// fwd.rw.* [C18]: the write half forwards every operation with the same arguments and result
#[test]
fn rw_write_forwarding() {
    let mut rw = Rewind::new(Script::new(vec![]), b"prefix".to_vec());
    let mut cx = cx();
    assert!(matches!(Pin::new(&mut rw).poll_write(&mut cx, b"hello world"), Poll::Ready(Ok(3))));
    assert!(matches!(Pin::new(&mut rw).poll_flush(&mut cx), Poll::Pending));
    match Pin::new(&mut rw).poll_shutdown(&mut cx) {
        Poll::Ready(Err(e)) => assert_eq!(e.kind(), std::io::ErrorKind::BrokenPipe),
        _ => panic!("shutdown result not forwarded"),
    }
    let bufs = [std::io::IoSlice::new(b"ab"), std::io::IoSlice::new(b"cde")];
    assert!(matches!(Pin::new(&mut rw).poll_write_vectored(&mut cx, &bufs), Poll::Ready(Ok(5))));
    assert!(rw.is_write_vectored());
    let (inner, prefix) = rw.into_parts();
    assert_eq!(prefix.as_deref(), Some(&b"prefix"[..]), "writing must not disturb the replay prefix");
    let want: Vec<(String, Vec<u8>)> = vec![
        ("write".into(), b"hello world".to_vec()),
        ("flush".into(), vec![]),
        ("shutdown".into(), vec![]),
        ("vectored2".into(), b"abcde".to_vec()),
    ];
    assert_eq!(inner.written, want);
}
