// Replay templates of the eyeballs unit that name PRIVATE items of `crate::happy_eyeballs` (the `Eyeball` enum,
// `join_next`, `join_next_with_timeout`, the fields of `EyeballSet`) or crate-private items of other modules
// (`SocketAddrs::pop`).  Pulled into `replays/eyeballs.rs` as
//
//     mod internal { include!(concat!(env!("VERIF_DIR"), "/replays/eyeballs_internal.rs")); }
//
// so that a change that re-types or renames one of those private items produces compile errors located in THIS file
// only: vx/replay.py (`_isolate_broken_replay_files`) then leaves exactly this file out of the build and every test of
// `replays/eyeballs.rs` - all of which use the public surface only (`EyeballSet::{new, push, finish, len, is_empty}`,
// `TcpTransport::connect_to_addrs`) - still runs.  Arrival of C10-r4m1 (`Eyeball<T>` -> `Eyeball<T, E>`) and C11-r4m1
// (`join_next_with_timeout` gained a parameter): with everything in one file no test of any property ran.
//
// RULE: nothing in eyeballs.rs may depend on this file; helpers shared by both live in eyeballs.rs (public surface only).
use super::*;

/// he.join.effects, he.join.first_error, he.wait.step, he.wait.first_error, he.no_panic [C10]:
/// `join_next` hands a success out untouched, records only the FIRST failure, reports `Exhausted` iff nothing is
/// running and never `Timeout`; an abandoned wait (`join_next_with_timeout`) consumes and records nothing
#[tokio::test]
async fn he_join_next() {
    let Rig { mut set, mut tx, .. } = rig(3, Some(Duration::ZERO), None, None);
    // nothing running: Exhausted, also through the stagger wrapper
    assert!(matches!(set.join_next().await, Eyeball::Exhausted));
    assert!(matches!(set.join_next_with_timeout().await, Eyeball::Exhausted));
    for _ in 0..3 {
        let f = set.queue.pop_front().unwrap();
        set.tasks.push(f);
    }
    // all pending: the wait is abandoned, nothing consumed, nothing recorded
    assert!(matches!(set.join_next_with_timeout().await, Eyeball::Timeout(_)));
    assert_eq!(set.tasks.len(), 3);
    assert!(set.error.is_none());
    fire(&mut tx, 2, Err(s("e2")));
    assert!(matches!(set.join_next_with_timeout().await, Eyeball::Error));
    assert_eq!(set.error, Some(HappyEyeballsError::Error(s("e2"))));
    assert_eq!(set.tasks.len(), 2);
    fire(&mut tx, 0, Err(s("e0")));
    assert!(matches!(set.join_next().await, Eyeball::Error));
    assert_eq!(set.error, Some(HappyEyeballsError::Error(s("e2"))), "a later failure replaced the first one");
    assert!(matches!(set.join_next_with_timeout().await, Eyeball::Timeout(_)));
    assert_eq!(set.error, Some(HappyEyeballsError::Error(s("e2"))));
    assert_eq!(set.tasks.len(), 1);
    fire(&mut tx, 1, Ok(5));
    assert!(matches!(set.join_next().await, Eyeball::Ok(5)));
    assert_eq!(set.error, Some(HappyEyeballsError::Error(s("e2"))));
    assert!(matches!(set.join_next().await, Eyeball::Exhausted));
    assert_eq!(set.len(), 0);
    assert!(set.is_empty());
}

/// he.ok [C10], he.once [C11], field level: after the success nothing is left in (or was added to) the running set
/// and the queue (the public-surface version `he_ok_once` in eyeballs.rs sees the same through `len()` and the
/// candidates' drop log)
#[tokio::test]
async fn he_ok_once_fields() {
    let Rig { mut set, mut tx, log } = rig(3, None, None, Some(1));
    {
        let mut fut: Pin<Box<dyn Future<Output = _> + '_>> = Box::pin(set.finish());
        assert!(step(&mut fut).await.is_pending());
        fire(&mut tx, 0, Err(s("e0")));
        assert!(step(&mut fut).await.is_pending());
        fire(&mut tx, 1, Ok(7));
        assert!(matches!(step(&mut fut).await, Poll::Ready(Ok(7))));
    }
    // nothing was put into the running set after the success (0 and 1 have completed, 2 was never started)
    assert_eq!(set.tasks.len(), 0, "an attempt was added to the running set after the success");
    assert_eq!(set.queue.len(), 0);
    assert_eq!(starts(&log), vec![0, 1]);
}

/// he.addrs.front [C11]: `SocketAddrs::pop` hands the addresses out front to back (the order in which
/// `TcpConnecting::connect` creates and pushes the attempts)
#[test]
fn he_addrs_front() {
    use crate::client::conn::dns::SocketAddrs;
    let list: Vec<std::net::SocketAddr> =
        vec!["10.0.0.1:80".parse().unwrap(), "[::1]:80".parse().unwrap(), "10.0.0.2:80".parse().unwrap()];
    let mut addrs = SocketAddrs::from_iter(list.clone());
    assert_eq!(addrs.len(), 3);
    let mut got = Vec::new();
    while let Some(a) = addrs.pop() {
        got.push(a);
    }
    assert_eq!(got, list);
    assert!(addrs.is_empty());
}

/// he.new.config [C10,C11]: `new` stores the pacing configuration as given - a different value in every slot, so a
/// swapped or dropped field shows
#[test]
fn he_new_config() {
    let set: Set = EyeballSet::new(Some(Duration::from_millis(7)), Some(Duration::from_secs(11)), Some(3));
    assert_eq!(set.delay, Some(Duration::from_millis(7)), "stagger delay");
    assert_eq!(set.timeout, Some(Duration::from_secs(11)), "overall deadline");
    assert_eq!(set.initial_concurrency, Some(3), "initial concurrency");
    let set: Set = EyeballSet::new(None, Some(LONG), None);
    assert_eq!((set.delay, set.timeout, set.initial_concurrency), (None, Some(LONG), None));
}

/// he.len [C11]: every candidate is counted once, queued or running
#[tokio::test]
async fn he_len() {
    let Rig { mut set, log, tx: _tx } = rig(3, Some(LONG), None, Some(2));
    assert_eq!(set.len(), 3, "three queued candidates");
    assert!(!set.is_empty());
    // start the initial batch only (the set's own step; `process_all` would already take the next candidate out of
    // the queue while it waits): two running + one queued
    for _ in 0..2 {
        let f = set.queue.pop_front().unwrap();
        set.tasks.push(f);
    }
    assert_eq!(set.len(), 3, "two running + one queued");
    {
        let mut fut: Pin<Box<dyn Future<Output = _> + '_>> = Box::pin(set.join_next());
        assert!(step(&mut fut).await.is_pending());
    }
    assert_eq!(starts(&log), vec![0, 1]);
    assert_eq!(set.len(), 3, "polling does not change the count");
}
