// Replay templates for the bridge unit (C18): concrete scenarios against the REAL crate.
// Compiled inside `crate::bridge::io::verif_replays` (feature verif-hooks, test builds).
use super::*;
use std::collections::VecDeque;
use std::mem::MaybeUninit;
use std::task::Waker;

#[derive(Debug, Clone)]
enum Step {
    Chunk(Vec<u8>),
    Pending,
    Fail,
}

/// A scripted byte source / recording sink implementing BOTH flavours of the I/O traits, each honouring
/// its contract: a chunk is delivered as far as it fits, the rest is kept for the next call.
#[derive(Debug, Default)]
struct Script {
    steps: VecDeque<Step>,
    log: Vec<(String, Vec<u8>)>,
}

impl Script {
    fn new(steps: Vec<Step>) -> Self {
        Script { steps: steps.into(), log: Vec::new() }
    }
    fn next(&mut self, room: usize, cx: &mut Context<'_>) -> Poll<std::io::Result<Vec<u8>>> {
        match self.steps.pop_front() {
            None => Poll::Ready(Ok(vec![])),
            Some(Step::Pending) => {
                cx.waker().wake_by_ref();
                Poll::Pending
            }
            Some(Step::Fail) => Poll::Ready(Err(std::io::ErrorKind::ConnectionReset.into())),
            Some(Step::Chunk(mut c)) => {
                let n = c.len().min(room);
                if n < c.len() {
                    let rest = c.split_off(n);
                    self.steps.push_front(Step::Chunk(rest));
                }
                Poll::Ready(Ok(c))
            }
        }
    }
}

impl tokio::io::AsyncRead for Script {
    fn poll_read(mut self: Pin<&mut Self>, cx: &mut Context<'_>, buf: &mut tokio::io::ReadBuf<'_>) -> Poll<std::io::Result<()>> {
        match self.next(buf.remaining(), cx) {
            Poll::Ready(Ok(c)) => {
                buf.put_slice(&c);
                Poll::Ready(Ok(()))
            }
            Poll::Ready(Err(e)) => Poll::Ready(Err(e)),
            Poll::Pending => Poll::Pending,
        }
    }
}

impl Read for Script {
    fn poll_read(mut self: Pin<&mut Self>, cx: &mut Context<'_>, mut buf: hyper::rt::ReadBufCursor<'_>) -> Poll<std::io::Result<()>> {
        match self.next(buf.remaining(), cx) {
            Poll::Ready(Ok(c)) => {
                buf.put_slice(&c);
                Poll::Ready(Ok(()))
            }
            Poll::Ready(Err(e)) => Poll::Ready(Err(e)),
            Poll::Pending => Poll::Pending,
        }
    }
}

macro_rules! recording_writer {
    ($tr:path) => {
        impl $tr for Script {
            fn poll_write(mut self: Pin<&mut Self>, _cx: &mut Context<'_>, buf: &[u8]) -> Poll<Result<usize, Error>> {
                self.log.push(("write".into(), buf.to_vec()));
                Poll::Ready(Ok(buf.len().min(3)))
            }
            fn poll_flush(mut self: Pin<&mut Self>, _cx: &mut Context<'_>) -> Poll<Result<(), Error>> {
                self.log.push(("flush".into(), vec![]));
                Poll::Pending
            }
            fn poll_shutdown(mut self: Pin<&mut Self>, _cx: &mut Context<'_>) -> Poll<Result<(), Error>> {
                self.log.push(("shutdown".into(), vec![]));
                Poll::Ready(Err(std::io::ErrorKind::BrokenPipe.into()))
            }
            fn is_write_vectored(&self) -> bool {
                true
            }
            fn poll_write_vectored(mut self: Pin<&mut Self>, _cx: &mut Context<'_>, bufs: &[std::io::IoSlice<'_>]) -> Poll<Result<usize, Error>> {
                let all: Vec<u8> = bufs.iter().flat_map(|b| b.iter().copied()).collect();
                self.log.push((format!("vectored{}", bufs.len()), all));
                Poll::Ready(Ok(5))
            }
        }
    };
}
recording_writer!(Write);
recording_writer!(tokio::io::AsyncWrite);

fn cx() -> Context<'static> {
    Context::from_waker(Waker::noop())
}

fn data() -> Vec<u8> {
    (0u8..=200).collect()
}

fn scripts() -> Vec<(Vec<Step>, Vec<u8>)> {
    let d = data();
    vec![
        (vec![Step::Chunk(d.clone())], d.clone()),
        (vec![Step::Chunk(d[..1].to_vec()), Step::Pending, Step::Chunk(d[1..7].to_vec()), Step::Pending, Step::Pending, Step::Chunk(d[7..].to_vec())], d.clone()),
        (d.iter().map(|b| Step::Chunk(vec![*b])).collect(), d.clone()),
        (vec![], vec![]),
        (vec![Step::Pending], vec![]),
    ]
}

/// tio.read [C18]: hyper-side reads through TokioIo<tokio reader> deliver exactly the inner reader's bytes,
/// for every capacity, also into a ReadBuf that is already partly filled
#[test]
fn tio_read_transparent() {
    for (steps, want) in scripts() {
        for cap in [1usize, 2, 5, 64, 512] {
            let mut io = TokioIo::new(Script::new(steps.clone()));
            let mut cx = cx();
            let mut out = Vec::new();
            'outer: for _ in 0..2000 {
                let mut storage = vec![MaybeUninit::<u8>::uninit(); cap];
                let mut rb = hyper::rt::ReadBuf::uninit(&mut storage);
                // several reads into the same ReadBuf: the cursor starts at a non-zero filled position
                loop {
                    let before = rb.filled().to_vec();
                    match Pin::new(&mut io).poll_read(&mut cx, rb.unfilled()) {
                        Poll::Pending => {
                            assert_eq!(rb.filled(), &before[..], "Pending must not advance the cursor");
                            continue;
                        }
                        Poll::Ready(r) => {
                            r.unwrap();
                            assert_eq!(&rb.filled()[..before.len()], &before[..], "previously filled bytes changed");
                            if rb.filled().len() == before.len() {
                                out.extend_from_slice(rb.filled());
                                if before.len() < cap {
                                    break 'outer; // end of stream
                                }
                                break; // buffer full
                            }
                        }
                    }
                }
            }
            assert_eq!(out, want, "capacity {cap}");
        }
    }
}

/// tio.read [C18]: an error of the inner reader is passed through and nothing is advanced
#[test]
fn tio_read_error_passthrough() {
    let mut io = TokioIo::new(Script::new(vec![Step::Chunk(b"ab".to_vec()), Step::Fail, Step::Chunk(b"cd".to_vec())]));
    let mut cx = cx();
    let mut storage = [MaybeUninit::<u8>::uninit(); 16];
    let mut rb = hyper::rt::ReadBuf::uninit(&mut storage);
    assert!(matches!(Pin::new(&mut io).poll_read(&mut cx, rb.unfilled()), Poll::Ready(Ok(()))));
    match Pin::new(&mut io).poll_read(&mut cx, rb.unfilled()) {
        Poll::Ready(Err(e)) => assert_eq!(e.kind(), std::io::ErrorKind::ConnectionReset),
        _ => panic!("error not passed through"),
    }
    assert_eq!(rb.filled(), b"ab");
    assert!(matches!(Pin::new(&mut io).poll_read(&mut cx, rb.unfilled()), Poll::Ready(Ok(()))));
    assert_eq!(rb.filled(), b"abcd");
}

/// tio.aread [C18]: tokio-side reads through TokioIo<hyper reader>: for every pre-filled length and capacity
/// (including 0) the filled prefix is untouched, the new bytes are the inner reader's, filled <= initialized <= capacity
#[test]
fn tio_aread_transparent() {
    for (steps, want) in scripts() {
        for cap in [0usize, 1, 2, 5, 64, 512] {
            for pre in [0usize, 1, 3, 64] {
                if pre > cap {
                    continue;
                }
                let mut io = TokioIo::new(Script::new(steps.clone()));
                let mut cx = cx();
                let mut out = Vec::new();
                'outer: for _ in 0..2000 {
                    let mut storage = vec![MaybeUninit::<u8>::uninit(); cap];
                    let mut tb = tokio::io::ReadBuf::uninit(&mut storage);
                    let marker: Vec<u8> = (0..pre).map(|i| 0xF0u8 ^ (i as u8)).collect();
                    tb.put_slice(&marker);
                    loop {
                        let before = tb.filled().to_vec();
                        match tokio::io::AsyncRead::poll_read(Pin::new(&mut io), &mut cx, &mut tb) {
                            Poll::Pending => {
                                assert_eq!(tb.filled(), &before[..], "Pending must not change the filled region");
                                if steps.len() == 1 && cap >= 1 {
                                    break 'outer; // the script that only ever pends
                                }
                                continue;
                            }
                            Poll::Ready(r) => {
                                r.unwrap();
                                assert!(tb.filled().len() <= tb.initialized().len() && tb.initialized().len() <= tb.capacity());
                                assert_eq!(&tb.filled()[..before.len()], &before[..], "previously filled bytes changed");
                                if tb.filled().len() == before.len() {
                                    out.extend_from_slice(&tb.filled()[pre..]);
                                    if before.len() < cap || cap == pre {
                                        break 'outer; // end of stream (or no room at all)
                                    }
                                    break; // buffer full
                                }
                            }
                        }
                    }
                }
                if cap > pre {
                    assert_eq!(out, want, "capacity {cap}, pre-filled {pre}");
                } else {
                    assert!(out.is_empty());
                }
            }
        }
    }
}

/// tio.aread [C18]: error passthrough, nothing filled
#[test]
fn tio_aread_error_passthrough() {
    let mut io = TokioIo::new(Script::new(vec![Step::Fail, Step::Chunk(b"cd".to_vec())]));
    let mut cx = cx();
    let mut storage = [MaybeUninit::<u8>::uninit(); 16];
    let mut tb = tokio::io::ReadBuf::uninit(&mut storage);
    tb.put_slice(b"ab");
    match tokio::io::AsyncRead::poll_read(Pin::new(&mut io), &mut cx, &mut tb) {
        Poll::Ready(Err(e)) => assert_eq!(e.kind(), std::io::ErrorKind::ConnectionReset),
        _ => panic!("error not passed through"),
    }
    assert_eq!(tb.filled(), b"ab");
    assert!(matches!(tokio::io::AsyncRead::poll_read(Pin::new(&mut io), &mut cx, &mut tb), Poll::Ready(Ok(()))));
    assert_eq!(tb.filled(), b"abcd");
}

fn want_log() -> Vec<(String, Vec<u8>)> {
    vec![
        ("write".into(), b"hello world".to_vec()),
        ("flush".into(), vec![]),
        ("shutdown".into(), vec![]),
        ("vectored2".into(), b"abcde".to_vec()),
    ]
}

/// fwd.tio.h.* [C18]: hyper-side write half forwards arguments and results unchanged
#[test]
fn tio_write_forwarding_hyper_side() {
    let mut io = TokioIo::new(Script::default());
    let mut cx = cx();
    assert!(matches!(Write::poll_write(Pin::new(&mut io), &mut cx, b"hello world"), Poll::Ready(Ok(3))));
    assert!(matches!(Write::poll_flush(Pin::new(&mut io), &mut cx), Poll::Pending));
    match Write::poll_shutdown(Pin::new(&mut io), &mut cx) {
        Poll::Ready(Err(e)) => assert_eq!(e.kind(), std::io::ErrorKind::BrokenPipe),
        _ => panic!("shutdown result not forwarded"),
    }
    let bufs = [std::io::IoSlice::new(b"ab"), std::io::IoSlice::new(b"cde")];
    assert!(matches!(Write::poll_write_vectored(Pin::new(&mut io), &mut cx, &bufs), Poll::Ready(Ok(5))));
    assert!(Write::is_write_vectored(&io));
    assert_eq!(io.into_inner().log, want_log());
}

/// fwd.tio.t.* [C18]: tokio-side write half forwards arguments and results unchanged
#[test]
fn tio_write_forwarding_tokio_side() {
    use tokio::io::AsyncWrite;
    let mut io = TokioIo::new(Script::default());
    let mut cx = cx();
    assert!(matches!(AsyncWrite::poll_write(Pin::new(&mut io), &mut cx, b"hello world"), Poll::Ready(Ok(3))));
    assert!(matches!(AsyncWrite::poll_flush(Pin::new(&mut io), &mut cx), Poll::Pending));
    match AsyncWrite::poll_shutdown(Pin::new(&mut io), &mut cx) {
        Poll::Ready(Err(e)) => assert_eq!(e.kind(), std::io::ErrorKind::BrokenPipe),
        _ => panic!("shutdown result not forwarded"),
    }
    let bufs = [std::io::IoSlice::new(b"ab"), std::io::IoSlice::new(b"cde")];
    assert!(matches!(AsyncWrite::poll_write_vectored(Pin::new(&mut io), &mut cx, &bufs), Poll::Ready(Ok(5))));
    assert!(AsyncWrite::is_write_vectored(&io));
    assert_eq!(io.into_inner().log, want_log());
}
