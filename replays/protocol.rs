// Replay templates for engine K (HttpProtocol conversions), run against the REAL crate.
use super::HttpProtocol;

const ALL: [(&str, ::http::Version); 5] = [
    ("HTTP_09", ::http::Version::HTTP_09),
    ("HTTP_10", ::http::Version::HTTP_10),
    ("HTTP_11", ::http::Version::HTTP_11),
    ("HTTP_2", ::http::Version::HTTP_2),
    ("HTTP_3", ::http::Version::HTTP_3),
];

/// ver.total [C17] / proto.choice [C13]; set VERIF_KANI_INDEX=<0..4> to replay one Kani counterexample
#[test]
fn ver_total_proto_choice() {
    let only: Option<usize> = std::env::var("VERIF_KANI_INDEX").ok().and_then(|s| s.parse().ok());
    for (i, (name, v)) in ALL.iter().enumerate() {
        if only.is_some() && only != Some(i) { continue; }
        let r = std::panic::catch_unwind(|| HttpProtocol::from(*v));
        let p = r.unwrap_or_else(|_| panic!("HttpProtocol::from({name}) panicked"));
        assert_eq!(p == HttpProtocol::Http2, *v == ::http::Version::HTTP_2, "wrong protocol chosen for {name}");
    }
}

#[test]
fn proto_multiplex_version() {
    for (name, v) in ALL.iter() {
        let Ok(p) = std::panic::catch_unwind(|| HttpProtocol::from(*v)) else { continue };
        assert_eq!(p.multiplex(), p == HttpProtocol::Http2, "multiplex() wrong for {name}");
        assert_eq!(p.version() == ::http::Version::HTTP_2, p == HttpProtocol::Http2, "version() wrong for {name}");
    }
}
