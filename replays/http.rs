// Replay templates of unit `http` (properties C13, C17), compiled into
// hyperdriver::service::http::verif_replays (feature verif-hooks, test builds).
// The request-rewriting layers are driven through their PUBLIC services with a stub connection that
// reports a version and an inner service that hands the rewritten request back.
use std::task::{Context, Poll};

use futures_util::FutureExt;
use tower::Service;

use crate::client::conn::Connection;
use crate::client::Error;
use crate::service::{ExecuteRequest, Http1ChecksService, Http2ChecksService, SetHostHeaderLayer};

#[derive(Debug, Clone)]
struct StubConn(http::Version);

impl Connection<()> for StubConn {
    type ResBody = crate::Body;
    type Error = std::io::Error;
    type Future = std::future::Ready<Result<http::Response<crate::Body>, std::io::Error>>;

    fn send_request(&mut self, _request: http::Request<()>) -> Self::Future {
        std::future::ready(Ok(http::Response::new(crate::Body::empty())))
    }
    fn poll_ready(&mut self, _cx: &mut Context<'_>) -> Poll<Result<(), Self::Error>> {
        Poll::Ready(Ok(()))
    }
    fn version(&self) -> http::Version {
        self.0
    }
}

type Exec = ExecuteRequest<StubConn, ()>;

/// innermost service: returns the request it was given
#[derive(Clone)]
struct Echo;
impl Service<Exec> for Echo {
    type Response = Exec;
    type Error = Error;
    type Future = std::future::Ready<Result<Exec, Error>>;
    fn poll_ready(&mut self, _cx: &mut Context<'_>) -> Poll<Result<(), Error>> {
        Poll::Ready(Ok(()))
    }
    fn call(&mut self, req: Exec) -> Self::Future {
        std::future::ready(Ok(req))
    }
}
#[derive(Clone)]
struct EchoPlain;
impl Service<http::Request<()>> for EchoPlain {
    type Response = http::Request<()>;
    type Error = Error;
    type Future = std::future::Ready<Result<http::Request<()>, Error>>;
    fn poll_ready(&mut self, _cx: &mut Context<'_>) -> Poll<Result<(), Error>> {
        Poll::Ready(Ok(()))
    }
    fn call(&mut self, req: http::Request<()>) -> Self::Future {
        std::future::ready(Ok(req))
    }
}

fn request(method: http::Method, uri: &str, version: http::Version) -> http::Request<()> {
    let mut req = http::Request::new(());
    *req.method_mut() = method;
    *req.uri_mut() = uri.parse().unwrap();
    *req.version_mut() = version;
    req
}

fn h1(conn: http::Version, method: http::Method, uri: &str) -> Result<http::Request<()>, Error> {
    let req = request(method, uri, http::Version::HTTP_11);
    Http1ChecksService::new(Echo)
        .call(ExecuteRequest::new(StubConn(conn), req))
        .now_or_never()
        .expect("ready")
        .map(|r| r.into_parts().1)
}

fn h2(conn: http::Version, req: http::Request<()>) -> Result<http::Request<()>, Error> {
    Http2ChecksService::new(Echo)
        .call(ExecuteRequest::new(StubConn(conn), req))
        .now_or_never()
        .expect("ready")
        .map(|r| r.into_parts().1)
}

const URIS: [&str; 14] = [
    "http://test:/",
    "http://test:99999/",
    "https://test:/x?y",
    "http://[::1]/",
    "http://[::1]:/p",
    "http://example.com",
    "http://example.com/",
    "https://example.com:8443/a/b?c=d",
    "http://example.com?x=1",
    "/only/a/path?q",
    "/",
    "*",
    "example.com:443",
    "localhost",
];

fn methods() -> Vec<http::Method> {
    vec![
        http::Method::GET,
        http::Method::POST,
        http::Method::OPTIONS,
        http::Method::CONNECT,
        http::Method::from_bytes(b"PURGE").unwrap(),
    ]
}

const VERSIONS: [http::Version; 5] = [
    http::Version::HTTP_09,
    http::Version::HTTP_10,
    http::Version::HTTP_11,
    http::Version::HTTP_2,
    http::Version::HTTP_3,
];

/// h1.no_panic (C17): no method x URI form x connection version makes the HTTP/1 checks panic
#[test]
fn h1_no_panic() {
    let mut panics = Vec::new();
    for conn in VERSIONS {
        for m in methods() {
            for uri in URIS {
                let mm = m.clone();
                let r = std::panic::catch_unwind(move || h1(conn, mm, uri).is_ok());
                if r.is_err() {
                    panics.push(format!("{m} {uri} on a {conn:?} connection"));
                }
            }
        }
    }
    assert!(panics.is_empty(), "check_http1_request panicked for: {panics:#?}");
}

/// h1.passthrough: a connection speaking HTTP/2 or later leaves the request alone
#[test]
fn h1_passthrough() {
    for conn in [http::Version::HTTP_2, http::Version::HTTP_3] {
        for m in methods() {
            for uri in URIS {
                let out = h1(conn, m.clone(), uri).unwrap();
                assert_eq!(out.uri(), &uri.parse::<http::Uri>().unwrap());
                assert_eq!(out.method(), &m);
                assert_eq!(out.version(), http::Version::HTTP_11);
            }
        }
    }
}

/// h1.connect: CONNECT on an HTTP/1 connection is sent in authority-form
#[test]
fn h1_connect() {
    for conn in [http::Version::HTTP_10, http::Version::HTTP_11] {
        for (uri, want) in [
            ("http://example.com:8080/x?y", "example.com:8080"),
            ("https://example.com:443/", "example.com:443"),
            ("https://example.com", "example.com"),
            ("example.com:443", "example.com:443"),
        ] {
            let out = h1(conn, http::Method::CONNECT, uri).unwrap();
            assert!(out.uri().scheme().is_none(), "{uri} -> {}", out.uri());
            assert!(out.uri().path_and_query().is_none(), "{uri} -> {}", out.uri());
            assert_eq!(out.uri().authority().map(|a| a.as_str()), Some(want));
            assert_eq!(out.method(), http::Method::CONNECT);
        }
    }
}

/// h1.origin: any other method with an absolute URI is sent in origin-form, path and query preserved
#[test]
fn h1_origin() {
    for conn in [http::Version::HTTP_09, http::Version::HTTP_10, http::Version::HTTP_11] {
        for m in [http::Method::GET, http::Method::POST, http::Method::OPTIONS] {
            for (uri, want) in [
                ("http://example.com", "/"),
                ("http://example.com/", "/"),
                ("https://example.com:8443/a/b?c=d", "/a/b?c=d"),
                ("http://example.com/a%20b?x=%2F#frag", "/a%20b?x=%2F"),
                ("http://[::1]:8080/p", "/p"),
                ("http://example.com?x=1", "/?x=1"),
            ] {
                let out = h1(conn, m.clone(), uri).unwrap();
                assert_eq!(out.uri().to_string(), want, "{m} {uri} on {conn:?}");
                assert!(out.uri().scheme().is_none() && out.uri().authority().is_none());
                assert_eq!(out.method(), &m);
            }
        }
    }
}

/// h1.relative / h1.connect_rel: a URI without scheme or authority is passed on untouched (no panic)
#[test]
fn h1_relative() {
    for (m, uri) in [
        (http::Method::GET, "/only/a/path?q"),
        (http::Method::GET, "/"),
        (http::Method::OPTIONS, "*"),
        (http::Method::GET, "example.com:443"),
        (http::Method::CONNECT, "/only/a/path"),
        (http::Method::CONNECT, "*"),
    ] {
        let mm = m.clone();
        let out = std::panic::catch_unwind(move || h1(http::Version::HTTP_11, mm, uri))
            .unwrap_or_else(|_| panic!("{m} {uri} on an HTTP/1.1 connection panicked"))
            .unwrap();
        assert_eq!(out.uri(), &uri.parse::<http::Uri>().unwrap(), "{m} {uri}");
    }
}

/// h2.connect: CONNECT on an HTTP/2 connection is rejected with an error
#[test]
fn h2_connect() {
    let r = h2(http::Version::HTTP_2, request(http::Method::CONNECT, "example.com:443", http::Version::HTTP_11));
    assert!(matches!(r, Err(Error::InvalidMethod(ref m)) if m == http::Method::CONNECT), "{r:?}");
    // ... but not on an HTTP/1 connection
    assert!(h2(http::Version::HTTP_11, request(http::Method::CONNECT, "example.com:443", http::Version::HTTP_11)).is_ok());
}

/// h2.version: on an HTTP/2 connection the version is HTTP/2 and the connection headers and Host are gone
#[test]
fn h2_version() {
    let build = || {
        let mut req = request(http::Method::GET, "https://example.com/x", http::Version::HTTP_11);
        for (k, v) in [
            ("connection", "keep-alive"),
            ("proxy-connection", "keep-alive"),
            ("keep-alive", "timeout=5"),
            ("transfer-encoding", "chunked"),
            ("upgrade", "websocket"),
            ("host", "example.com"),
            ("accept", "*/*"),
            ("x-custom", "1"),
        ] {
            req.headers_mut().append(k, v.parse().unwrap());
        }
        req.headers_mut().append("connection", "close".parse().unwrap());
        req
    };
    let out = h2(http::Version::HTTP_2, build()).unwrap();
    assert_eq!(out.version(), http::Version::HTTP_2);
    for k in ["connection", "proxy-connection", "keep-alive", "transfer-encoding", "upgrade", "host"] {
        assert!(out.headers().get(k).is_none(), "header {k} survived on HTTP/2");
    }
    assert_eq!(out.headers().get("accept").unwrap(), "*/*");
    assert_eq!(out.headers().get("x-custom").unwrap(), "1");
    assert_eq!(out.headers().len(), 2);
    assert_eq!(out.uri(), "https://example.com/x");

    // other connection versions: untouched
    for conn in [http::Version::HTTP_10, http::Version::HTTP_11, http::Version::HTTP_3] {
        let out = h2(conn, build()).unwrap();
        assert_eq!(out.version(), http::Version::HTTP_11);
        assert_eq!(out.headers().len(), 9);
    }
}

/// host.guard: the Host header is set exactly when the connection (resp. request) version is below HTTP/2
#[test]
fn host_guard() {
    use tower::Layer;
    for conn in VERSIONS {
        for reqv in VERSIONS {
            let req = request(http::Method::GET, "http://example.com:8080/x", reqv);
            let out = SetHostHeaderLayer::new()
                .layer(Echo)
                .call(ExecuteRequest::new(StubConn(conn), req))
                .now_or_never()
                .unwrap()
                .unwrap()
                .into_parts()
                .1;
            assert_eq!(out.headers().contains_key(http::header::HOST), conn < http::Version::HTTP_2, "conn {conn:?} req {reqv:?}");
            if conn < http::Version::HTTP_2 {
                assert_eq!(out.headers().get(http::header::HOST).unwrap(), "example.com:8080");
            }
            assert_eq!(out.version(), reqv);
        }
    }
    for reqv in VERSIONS {
        let req = request(http::Method::GET, "https://example.com/x", reqv);
        let out = SetHostHeaderLayer::new().layer(EchoPlain).call(req).now_or_never().unwrap().unwrap();
        assert_eq!(out.headers().contains_key(http::header::HOST), reqv < http::Version::HTTP_2, "req {reqv:?}");
    }
}

/// key.eq (C06) / key.total (C17): the pool key is exactly (scheme, authority) of the request URI;
/// a URI without scheme yields an error, never a panic
#[test]
fn key_from_parts() {
    use crate::client::pool::UriKey;
    let parts = |uri: &str| request(http::Method::GET, uri, http::Version::HTTP_11).into_parts().0;
    let k = |uri: &str| UriKey::try_from(&parts(uri));
    for (uri, scheme, auth) in [
        ("http://example.com/a", "http", "example.com"),
        ("https://example.com:8443/a?b", "https", "example.com:8443"),
        ("http://EXAMPLE.com", "http", "EXAMPLE.com"),
        ("http://[::1]:80/", "http", "[::1]:80"),
    ] {
        let key = k(uri).unwrap();
        assert_eq!(key, UriKey::from((scheme.parse::<http::uri::Scheme>().unwrap(), auth.parse::<http::uri::Authority>().unwrap())), "{uri}");
    }
    assert_ne!(k("http://example.com").unwrap(), k("https://example.com").unwrap());
    assert_ne!(k("http://example.com").unwrap(), k("http://example.com:81").unwrap());
    assert_ne!(k("http://example.com").unwrap(), k("http://example.org").unwrap());
    assert_eq!(k("http://example.com/a").unwrap(), k("http://example.com/b?c").unwrap());
    // origins that differ in scheme or in *effective* port never share a key (keys of one origin may coincide or not)
    let mut grid = vec![];
    for scheme in ["http", "https"] {
        for port in [None, Some(80u16), Some(443), Some(8080)] {
            let uri = match port { Some(p) => format!("{scheme}://example.com:{p}/"), None => format!("{scheme}://example.com/") };
            let eff = port.unwrap_or(if scheme == "https" { 443 } else { 80 });
            grid.push((uri, scheme, eff));
        }
    }
    for (ua, sa, pa) in &grid {
        for (ub, sb, pb) in &grid {
            if sa != sb || pa != pb {
                assert_ne!(k(ua).unwrap(), k(ub).unwrap(), "{ua} and {ub} are different origins but share a pool key");
            }
        }
    }
    for uri in URIS {
        let r = std::panic::catch_unwind(|| k(uri).is_ok()).unwrap_or_else(|_| panic!("UriKey::try_from panicked for {uri}"));
        assert_eq!(r, parts(uri).uri.scheme().is_some(), "{uri}");
    }
}


// ---- HttpConnection over an in-memory duplex stream (hc.*, send.version, proto.*) ----
async fn duplex() -> (crate::client::conn::Stream, crate::client::conn::Stream) {
    use futures_util::stream::StreamExt as _;
    let (client, mut incoming) = crate::stream::duplex::pair();
    let (tx, rx) = tokio::join!(client.connect(1024), incoming.next());
    (tx.unwrap().into(), rx.unwrap().unwrap().into())
}

async fn first_line(
    proto: crate::client::conn::protocol::HttpProtocol,
    request_version: http::Version,
) -> (String, bool, bool, bool, http::Version) {
    use crate::client::conn::connection::ConnectionExt as _;
    use crate::client::conn::protocol::auto::HttpConnectionBuilder;
    use crate::client::conn::Protocol as _;
    use crate::client::pool::PoolableConnection as _;
    use tokio::io::{AsyncBufReadExt, BufReader};

    let mut builder = HttpConnectionBuilder::default();
    let (stream, rx) = duplex().await;
    let mut conn = builder.connect(stream, proto).await.unwrap();
    conn.when_ready().await.unwrap();
    let open = conn.is_open();
    let share = conn.can_share();
    let reuse = conn.reuse().is_some();
    let version = conn.version();
    let request = http::Request::builder()
        .version(request_version)
        .method(http::Method::GET)
        .uri("/x")
        .header("host", "localhost")
        .body(crate::body::Body::empty())
        .unwrap();
    let fut = conn.send_request(request);
    let server = async move {
        let mut buf = String::new();
        let _ = BufReader::new(rx).read_line(&mut buf).await;
        buf
    };
    let line = tokio::select! {
        line = server => line,
        _ = async { let _ = fut.await; std::future::pending::<()>().await } => unreachable!(),
    };
    (line, open, share, reuse, version)
}

/// send.version / hc.version: whatever version the request carries, an HTTP/1 connection sends HTTP/1.1 and
/// an HTTP/2 connection speaks HTTP/2; hc.share / hc.reuse / hc.open: only the HTTP/2 connection is shareable
#[tokio::test]
async fn hc_send_version() {
    use crate::client::conn::protocol::HttpProtocol;
    for rv in VERSIONS {
        let (line, open, share, reuse, version) = first_line(HttpProtocol::Http1, rv).await;
        assert_eq!(line, "GET /x HTTP/1.1\r\n", "request version {rv:?} on an HTTP/1 connection");
        assert!(open && !share && !reuse);
        assert_eq!(version, http::Version::HTTP_11);
    }
    for rv in VERSIONS {
        let (line, open, share, reuse, version) = first_line(HttpProtocol::Http2, rv).await;
        assert_eq!(line, "PRI * HTTP/2.0\r\n", "request version {rv:?} on an HTTP/2 connection");
        assert!(open && share && reuse);
        assert_eq!(version, http::Version::HTTP_2);
    }
}

/// proto.multiplex / proto.version
#[test]
fn proto_choice() {
    use crate::client::conn::protocol::HttpProtocol;
    assert!(!HttpProtocol::Http1.multiplex() && HttpProtocol::Http2.multiplex());
    assert_eq!(HttpProtocol::Http1.version(), http::Version::HTTP_11);
    assert_eq!(HttpProtocol::Http2.version(), http::Version::HTTP_2);
}

/// host.port_unless_default / host.secure_scheme (unit hostport) + A.host.value [C13]: on an HTTP/1 connection the
/// Host header equals the URI host plus the port unless it is the scheme's default; a Host supplied by the caller wins.
/// Sweep: 5 schemes x 4 hosts x 6 ports x 3 userinfo forms (none, user@, user:secret@).
#[test]
fn host_value_sweep() {
    use tower::Layer;
    for scheme in ["http", "https", "ws", "wss", "ftp"] {
        for host in ["example.com", "127.0.0.1", "[::1]", "a_b.example"] {
            for port in [None, Some(80u16), Some(443), Some(8080), Some(8443), Some(1)] {
              // the authority may carry userinfo, which is no part of the host (RFC 9110 7.2: Host = uri-host [":" port])
              for userinfo in ["", "user@", "user:secret@"] {
                let uri = match port { Some(p) => format!("{scheme}://{userinfo}{host}:{p}/x?y=1"), None => format!("{scheme}://{userinfo}{host}/x?y=1") };
                let secure = scheme == "https" || scheme == "wss";
                let default = matches!((port, secure), (Some(443), true) | (Some(80), false));
                let expected = match port { Some(p) if !default => format!("{host}:{p}"), _ => host.to_string() };
                let req = request(http::Method::GET, &uri, http::Version::HTTP_11);
                let out = SetHostHeaderLayer::new().layer(EchoPlain).call(req).now_or_never().unwrap().unwrap();
                assert_eq!(out.headers().get(http::header::HOST).map(|v| v.to_str().unwrap().to_string()), Some(expected.clone()), "{uri}");
                // caller-supplied Host is not overridden
                let mut req = request(http::Method::GET, &uri, http::Version::HTTP_11);
                req.headers_mut().insert(http::header::HOST, "caller.example".parse().unwrap());
                let out = SetHostHeaderLayer::new().layer(EchoPlain).call(req).now_or_never().unwrap().unwrap();
                assert_eq!(out.headers().get(http::header::HOST).unwrap(), "caller.example", "{uri}: caller's Host overridden");
                assert_eq!(out.headers().get_all(http::header::HOST).iter().count(), 1);
              }
            }
        }
    }
}

// ---- alpn.choice (unit alpn) ----
/// one cell of the table: dial with `HttpConnectionBuilder` over a transport that reports `tls` (None = no TLS at
/// all, Some(alpn) = TLS with that ALPN result), asking for `proto`; returns what the connection says it speaks and
/// the first line the peer actually receives when a request is sent on it
async fn alpn_cell(
    proto: crate::client::conn::protocol::HttpProtocol,
    tls: Option<Option<crate::info::Protocol>>,
) -> (http::Version, bool, String) {
    use crate::client::conn::protocol::auto::HttpConnectionBuilder;
    use crate::client::conn::stream::mock::MockTls;
    use crate::client::conn::Protocol as _;
    use crate::client::pool::PoolableConnection as _;
    use tokio::io::{AsyncBufReadExt, BufReader};

    let (stream, rx) = duplex().await;
    let mut builder = HttpConnectionBuilder::<crate::Body>::default();
    let conn = match tls {
        None => builder.connect(stream, proto).await,
        Some(alpn) => {
            let info = crate::info::TlsConnectionInfo::new_client(alpn);
            builder.connect(MockTls::new(stream, info), proto).await
        }
    };
    let mut conn = conn.expect("the handshake over an in-memory pipe succeeds");
    let version = conn.version();
    let share = conn.can_share();
    let request = http::Request::builder()
        .version(http::Version::HTTP_11)
        .method(http::Method::GET)
        .uri("/x")
        .header("host", "localhost")
        .body(crate::body::Body::empty())
        .unwrap();
    let fut = conn.send_request(request);
    let server = async move {
        let mut buf = String::new();
        let _ = BufReader::new(rx).read_line(&mut buf).await;
        buf
    };
    let line = tokio::time::timeout(std::time::Duration::from_secs(5), async {
        tokio::select! {
            line = server => line,
            _ = async { let _ = fut.await; std::future::pending::<()>().await } => unreachable!(),
        }
    })
    .await
    .expect("the peer receives the start of the conversation");
    (version, share, line)
}

/// alpn.choice [C13]: a connection speaks HTTP/2 exactly when the request asked for HTTP/2 or TLS negotiated h2 via
/// ALPN, and HTTP/1.1 otherwise - the whole table requested protocol x ALPN result
#[tokio::test]
async fn alpn_choice_table() {
    use crate::client::conn::protocol::HttpProtocol;
    use crate::info::Protocol as Alpn;
    let alpns: Vec<(&str, Option<Option<Alpn>>)> = vec![
        ("no TLS", None),
        ("TLS, no ALPN", Some(None)),
        ("ALPN http/1.0", Some(Some(Alpn::http(http::Version::HTTP_10)))),
        ("ALPN http/1.1", Some(Some(Alpn::http(http::Version::HTTP_11)))),
        ("ALPN h2", Some(Some(Alpn::http(http::Version::HTTP_2)))),
        ("ALPN other", Some(Some(Alpn::Other("acme-tls/1".into())))),
    ];
    let mut wrong = Vec::new();
    for proto in [HttpProtocol::Http1, HttpProtocol::Http2] {
        for (name, tls) in &alpns {
            let alpn_h2 = matches!(tls, Some(Some(Alpn::Http(http::Version::HTTP_2))));
            let want_h2 = proto == HttpProtocol::Http2 || alpn_h2;
            let (version, share, line) = alpn_cell(proto, tls.clone()).await;
            println!("requested {proto:?} / {name:14} -> connection {version:?}, shareable {share}, wire {line:?}");
            let (want_version, want_line) = if want_h2 {
                (http::Version::HTTP_2, "PRI * HTTP/2.0\r\n")
            } else {
                (http::Version::HTTP_11, "GET /x HTTP/1.1\r\n")
            };
            if version != want_version || share != want_h2 || line != want_line {
                wrong.push(format!("requested {proto:?}, {name}: connection {version:?} (shareable {share}), peer received {line:?}; expected {want_version:?}"));
            }
        }
    }
    assert!(wrong.is_empty(), "protocol choice differs from `requested HTTP/2 or ALPN h2`:\n{}", wrong.join("\n"));
}

// ---- A.builder.h2_checks: the request rules of an HTTP/2 connection, seen by a real HTTP/2 peer ----
type SeenRequests = std::sync::Arc<std::sync::Mutex<Vec<(http::Method, http::Version, http::HeaderMap)>>>;

/// hyper's HTTP/2 server on every connection of `incoming`; records what it receives, answers 200
fn h2_recording_server(incoming: crate::stream::duplex::DuplexIncoming, seen: SeenRequests) -> tokio::task::JoinHandle<()> {
    use futures_util::stream::StreamExt as _;
    tokio::spawn(async move {
        let mut incoming = incoming;
        while let Some(Ok(stream)) = incoming.next().await {
            let seen = seen.clone();
            tokio::spawn(async move {
                let service = hyper::service::service_fn(move |req: http::Request<hyper::body::Incoming>| {
                    seen.lock().unwrap().push((req.method().clone(), req.version(), req.headers().clone()));
                    async move { Ok::<_, std::convert::Infallible>(http::Response::new(crate::Body::empty())) }
                });
                let _ = hyper::server::conn::http2::Builder::new(crate::bridge::rt::TokioExecutor::new())
                    .serve_connection(crate::bridge::io::TokioIo::new(stream), service)
                    .await;
            });
        }
    })
}

/// A.builder.h2_checks [C13] (bounded stand-in for `Builder::build_service`: the layer stack is assembled from
/// generic tower combinators, outside the verifier's reach): however the client was built - with or without a TLS
/// configuration, with or without a pool - a prior-knowledge HTTP/2 request reaches a real HTTP/2 peer without a Host
/// header and without connection-specific headers, and CONNECT is rejected with an error before anything is sent.
#[tokio::test]
async fn standin_builder_h2_checks() {
    use crate::client::conn::protocol::auto::HttpConnectionBuilder;
    use crate::client::conn::transport::duplex::DuplexTransport;
    use crate::client::{Builder, Client};

    crate::fixtures::tls_install_default();
    const T: std::time::Duration = std::time::Duration::from_secs(10);
    const FORBIDDEN: [&str; 6] = ["host", "connection", "proxy-connection", "keep-alive", "transfer-encoding", "upgrade"];

    let builds: Vec<(&str, Box<dyn Fn(DuplexTransport) -> Client>)> = vec![
        ("Client::builder(), no TLS", Box::new(|t| {
            Client::builder().with_protocol(HttpConnectionBuilder::default()).with_transport(t).with_default_pool().build()
        })),
        ("Client::builder(), no TLS, no pool", Box::new(|t| {
            Client::builder().with_auto_http().with_transport(t).without_pool().build()
        })),
        ("Builder::default().without_tls()", Box::new(|t| Builder::default().without_tls().with_transport(t).build())),
        ("with_tls(config) then without_tls()", Box::new(|t| {
            Client::builder().with_tls(crate::fixtures::tls_client_config()).with_auto_http().with_transport(t).without_tls().with_default_pool().build()
        })),
        ("with_tls(config)", Box::new(|t| {
            Client::builder().with_auto_http().with_transport(t).with_tls(crate::fixtures::tls_client_config()).with_default_pool().build()
        })),
        ("with_tls(config), no pool", Box::new(|t| {
            Client::builder().with_tls(crate::fixtures::tls_client_config()).with_auto_http().with_transport(t).build()
        })),
        ("with_default_tls()", Box::new(|t| {
            Client::builder().with_auto_http().with_transport(t).with_default_tls().with_default_pool().build()
        })),
        ("Builder::default() (TLS on)", Box::new(|t| Builder::default().with_transport(t).build())),
    ];

    let mut wrong = Vec::new();
    for (name, build) in &builds {
        let (tx, incoming) = crate::stream::duplex::pair();
        let seen: SeenRequests = Default::default();
        let server = h2_recording_server(incoming, seen.clone());
        let mut client = build(DuplexTransport::new(16 * 1024, tx));

        for method in [http::Method::GET, http::Method::POST] {
            let mut req = http::Request::builder()
                .method(method.clone())
                .uri("http://test.example/x?y=1")
                .version(http::Version::HTTP_2)
                .body(if method == http::Method::POST { crate::Body::from("hello") } else { crate::Body::empty() })
                .unwrap();
            for (k, v) in [
                ("host", "caller.example"),
                ("connection", "keep-alive, x-hop"),
                ("proxy-connection", "keep-alive"),
                ("keep-alive", "timeout=5"),
                ("upgrade", "websocket"),
                ("accept", "*/*"),
                ("x-custom", "1"),
            ] {
                req.headers_mut().append(k, v.parse().unwrap());
            }
            let before = seen.lock().unwrap().len();
            match tokio::time::timeout(T, client.request(req)).await {
                Err(_) => wrong.push(format!("[{name}] {method}: no response within {T:?}")),
                Ok(Err(e)) => wrong.push(format!("[{name}] {method}: request failed: {e}")),
                Ok(Ok(resp)) => {
                    if resp.status() != http::StatusCode::OK || resp.version() != http::Version::HTTP_2 {
                        wrong.push(format!("[{name}] {method}: response {} {:?}", resp.status(), resp.version()));
                    }
                }
            }
            let log = seen.lock().unwrap();
            if log.len() != before + 1 {
                wrong.push(format!("[{name}] {method}: the HTTP/2 peer received {} requests instead of 1", log.len() - before));
            }
            for (m, v, headers) in log.iter().skip(before) {
                if *v != http::Version::HTTP_2 || m != method {
                    wrong.push(format!("[{name}] {method}: the peer received {m} {v:?}"));
                }
                for k in FORBIDDEN {
                    if let Some(value) = headers.get(k) {
                        wrong.push(format!("[{name}] {method}: header `{k}: {}` reached the HTTP/2 peer", value.to_str().unwrap_or("?")));
                    }
                }
                if headers.get("accept").map(|v| v.as_bytes()) != Some(b"*/*") || headers.get("x-custom").map(|v| v.as_bytes()) != Some(b"1") {
                    wrong.push(format!("[{name}] {method}: an ordinary header was lost on the way: {headers:?}"));
                }
            }
        }

        // CONNECT: rejected by the client, never put on the HTTP/2 connection
        let req = http::Request::builder()
            .method(http::Method::CONNECT)
            .uri("http://test.example:443/")
            .version(http::Version::HTTP_2)
            .body(crate::Body::empty())
            .unwrap();
        let before = seen.lock().unwrap().len();
        match tokio::time::timeout(T, client.request(req)).await {
            Err(_) => wrong.push(format!("[{name}] CONNECT: neither rejected nor answered within {T:?}")),
            Ok(Ok(resp)) => wrong.push(format!("[{name}] CONNECT on an HTTP/2 connection was not rejected: response {}", resp.status())),
            Ok(Err(Error::InvalidMethod(m))) if m == http::Method::CONNECT => {}
            Ok(Err(e)) => wrong.push(format!("[{name}] CONNECT failed, but not because the method was rejected: {e:?}")),
        }
        if seen.lock().unwrap().len() != before {
            wrong.push(format!("[{name}] CONNECT was sent to the HTTP/2 peer"));
        }
        println!("[{name}] peer received {} requests", seen.lock().unwrap().len());
        drop(client);
        server.abort();
    }
    assert!(wrong.is_empty(), "HTTP/2 request rules not applied:\n{}", wrong.join("\n"));
}

// ======================= unit `hosthdr` (set_host_header now under contract) =======================

/// hosthdr.frame / hosthdr.others_untouched / hosthdr.no_host / hosthdr.no_panic [C13, C17]: only the Host header is
/// added; method, version, URI, extensions and every other header (repeated values included) stay as they were; a URI
/// without host leaves the request untouched and does not panic
#[test]
fn host_frame() {
    use tower::Layer;
    #[derive(Clone, Debug, PartialEq)]
    struct Marker(u32);
    for uri in ["http://example.com:8080/x?y=1", "https://[::1]/", "http://a_b.example:80", "/only/a/path?q", "*", "/"] {
        for with_host in [false, true] {
            let mut req = request(http::Method::POST, uri, http::Version::HTTP_10);
            req.headers_mut().append("x-multi", "one".parse().unwrap());
            req.headers_mut().append("x-multi", "two".parse().unwrap());
            req.headers_mut().insert(http::header::CONNECTION, "keep-alive".parse().unwrap());
            req.headers_mut().insert(http::header::USER_AGENT, "replay".parse().unwrap());
            if with_host {
                req.headers_mut().append(http::header::HOST, "caller.example".parse().unwrap());
                req.headers_mut().append(http::header::HOST, "second.example".parse().unwrap());
            }
            req.extensions_mut().insert(Marker(7));
            let before = req.headers().clone();
            let out = SetHostHeaderLayer::new().layer(EchoPlain).call(req).now_or_never().unwrap().unwrap();
            assert_eq!(out.method(), http::Method::POST, "{uri}");
            assert_eq!(out.version(), http::Version::HTTP_10, "{uri}");
            assert_eq!(out.uri(), uri, "{uri}: URI changed");
            assert_eq!(out.extensions().get::<Marker>(), Some(&Marker(7)), "{uri}");
            for name in before.keys().filter(|n| **n != http::header::HOST) {
                assert_eq!(out.headers().get_all(name).iter().collect::<Vec<_>>(), before.get_all(name).iter().collect::<Vec<_>>(), "{uri}: header {name} changed");
            }
            let has_host = out.uri().host().is_some();
            if with_host || !has_host {
                assert_eq!(out.headers(), &before, "{uri}: header map changed although {}", if with_host { "the caller supplied Host" } else { "the URI has no host" });
            } else {
                assert_eq!(out.headers().len(), before.len() + 1, "{uri}: more than the Host header was added");
                assert_eq!(out.headers().get_all(http::header::HOST).iter().count(), 1, "{uri}");
            }
        }
    }
}

/// hosthdr.no_panic / hosthdr.full_map [C17, C13] - reproducer of F13 (fixed by 58b3cd9): a request whose header map cannot
/// take another name (24576 distinct names, the `http` crate's MAX_SIZE) goes through `set_host_header` unchanged and without
/// a panic, whether or not the caller supplied a Host header.  Before the fix `HeaderMap::entry` panicked ("size overflows
/// MAX_SIZE": `entry` reserves a slot before it looks the key up); a regression back to `entry` fails here.
#[test]
fn host_full_header_map() {
    use tower::Layer;
    for with_host in [false, true] {
        let mut req = request(http::Method::GET, "http://example.com/x", http::Version::HTTP_11);
        if with_host {
            req.headers_mut().insert(http::header::HOST, http::HeaderValue::from_static("caller.example"));
        }
        let mut n = 0usize;
        loop {
            let name = http::header::HeaderName::from_bytes(format!("x-h{n}").as_bytes()).unwrap();
            match req.headers_mut().try_insert(name, http::HeaderValue::from_static("v")) {
                Ok(_) => n += 1,
                Err(_) => break,
            }
        }
        let before = req.headers().len();
        let r = std::panic::catch_unwind(std::panic::AssertUnwindSafe(|| {
            SetHostHeaderLayer::new().layer(EchoPlain).call(req).now_or_never().unwrap().unwrap()
        }));
        assert!(r.is_ok(), "set_host_header panicked for a request whose header map is full ({before} names, caller-supplied Host: {with_host})");
        let out = r.unwrap();
        assert_eq!(out.headers().len(), before, "a full header map changed");
        if with_host {
            assert_eq!(out.headers().get(http::header::HOST).unwrap(), "caller.example");
        }
    }
}

// ======================= A.builder.host_by_connection (layer ORDER in `Builder::build_service`) =======================
/// (connection number, raw request head) as a raw peer of the in-memory transport receives them
type SeenHeads = std::sync::Arc<std::sync::Mutex<Vec<(usize, String)>>>;

/// a peer that speaks no HTTP library at all: on every connection of `incoming` it reads request heads (up to the empty
/// line; the scenarios send no bodies), records them byte for byte and answers `200` with an empty body.  A connection
/// that starts with the HTTP/2 preface is recorded and closed.
fn h1_raw_recording_peer(incoming: crate::stream::duplex::DuplexIncoming, seen: SeenHeads) -> tokio::task::JoinHandle<()> {
    use futures_util::stream::StreamExt as _;
    use tokio::io::{AsyncReadExt as _, AsyncWriteExt as _};
    tokio::spawn(async move {
        let mut incoming = incoming;
        let mut number = 0usize;
        while let Some(Ok(mut stream)) = incoming.next().await {
            let conn = number;
            number += 1;
            let seen = seen.clone();
            tokio::spawn(async move {
                let mut pending: Vec<u8> = Vec::new();
                let mut buf = [0u8; 1024];
                loop {
                    while let Some(end) = pending.windows(4).position(|w| w == b"\r\n\r\n") {
                        let head: Vec<u8> = pending.drain(..end + 4).collect();
                        let head = String::from_utf8_lossy(&head).to_string();
                        let h2 = head.starts_with("PRI * HTTP/2.0");
                        seen.lock().unwrap().push((conn, head));
                        if h2 {
                            return;
                        }
                        if stream.write_all(b"HTTP/1.1 200 OK\r\ncontent-length: 0\r\n\r\n").await.is_err() || stream.flush().await.is_err() {
                            return;
                        }
                    }
                    match stream.read(&mut buf).await {
                        Ok(0) | Err(_) => return,
                        Ok(k) => pending.extend_from_slice(&buf[..k]),
                    }
                }
            });
        }
    })
}

/// what C13 says about a request head on an HTTP/1.x connection: origin-form target, exactly one Host header, with
/// the expected value
fn check_h1_head(ctx: &str, head: &str, method: &str, target: &str, host: &str, wrong: &mut Vec<String>) {
    let mut lines = head.split("\r\n");
    let line = lines.next().unwrap_or("");
    let parts: Vec<&str> = line.split(' ').collect();
    if parts.len() != 3 || parts[0] != method || parts[1] != target || !matches!(parts[2], "HTTP/1.1" | "HTTP/1.0") {
        wrong.push(format!("{ctx}: request line {line:?} on an HTTP/1.1 connection, expected `{method} {target} HTTP/1.x` (origin-form)"));
    }
    let hosts: Vec<&str> = lines
        .filter_map(|l| l.split_once(':'))
        .filter(|(name, _)| name.eq_ignore_ascii_case("host"))
        .map(|(_, value)| value.trim())
        .collect();
    if hosts != [host] {
        wrong.push(format!("{ctx}: Host header(s) {hosts:?} on an HTTP/1.1 connection, expected exactly one: {host:?}; head = {head:?}"));
    }
}

/// A.builder.host_by_connection [C13] (bounded stand-in for the ORDER of the layers in `Builder::build_service`:
/// `SetHostHeader` implements `Service` both for a bare `http::Request` - it then goes by the REQUEST's version - and for
/// `ExecuteRequest<C, B>` - it then goes by the CONNECTION's version; which one is used depends only on whether the layer
/// sits above or below the connection pool, and both compile).  What goes on the wire follows the connection: a request
/// that travels on an HTTP/1.1 connection has an origin-form target and exactly one, correct Host header, whatever
/// version the request value itself is marked with - also when the pool hands an idle HTTP/1.1 connection to a request
/// marked HTTP/2 (the pool key has no version).
///   (i)   pooled clients: an HTTP/1.1 request, then requests to the same origin marked HTTP/2, 1.0, 0.9, 3, 2, 1.1
///   (ii)  clients without pool: requests marked 1.1, 1.0, 0.9, 3 (each on its own HTTP/1.1 connection)
///   (iii) both again with a caller-supplied Host header, which is kept as the only one
#[tokio::test]
async fn standin_builder_host_by_connection() {
    use crate::client::conn::protocol::auto::HttpConnectionBuilder;
    use crate::client::conn::transport::duplex::DuplexTransport;
    use crate::client::{Builder, Client};

    crate::fixtures::tls_install_default();
    const T: std::time::Duration = std::time::Duration::from_secs(10);
    use http::Version as V;

    let builds: Vec<(&str, bool, Box<dyn Fn(DuplexTransport) -> Client>)> = vec![
        ("Client::builder(), default pool", true, Box::new(|t| {
            Client::builder().with_protocol(HttpConnectionBuilder::default()).with_transport(t).with_default_pool().build()
        })),
        ("Builder::default().without_tls()", true, Box::new(|t| Builder::default().without_tls().with_transport(t).build())),
        ("with_tls(config), default pool", true, Box::new(|t| {
            Client::builder().with_auto_http().with_transport(t).with_tls(crate::fixtures::tls_client_config()).with_default_pool().build()
        })),
        ("Client::builder(), without_pool()", false, Box::new(|t| {
            Client::builder().with_auto_http().with_transport(t).without_pool().build()
        })),
        ("with_tls(config), no pool", false, Box::new(|t| {
            Client::builder().with_tls(crate::fixtures::tls_client_config()).with_auto_http().with_transport(t).build()
        })),
    ];

    let mut wrong = Vec::new();
    for (name, pooled, build) in &builds {
        for caller_host in [None, Some("caller.example:81")] {
            let (tx, incoming) = crate::stream::duplex::pair();
            let seen: SeenHeads = Default::default();
            let peer = h1_raw_recording_peer(incoming, seen.clone());
            let mut client = build(DuplexTransport::new(16 * 1024, tx));
            let versions: &[V] = if *pooled {
                &[V::HTTP_11, V::HTTP_2, V::HTTP_10, V::HTTP_09, V::HTTP_3, V::HTTP_2, V::HTTP_11]
            } else {
                // without a pool a request marked HTTP/2 dials a prior-knowledge HTTP/2 connection: see A.builder.h2_checks
                &[V::HTTP_11, V::HTTP_10, V::HTTP_09, V::HTTP_3]
            };
            for (i, version) in versions.iter().enumerate() {
                let ctx = format!("[{name}] caller Host {caller_host:?}, request {i} marked {version:?}");
                let target = format!("/r{i}?x=y");
                let mut req = http::Request::builder()
                    .method(http::Method::GET)
                    .uri(format!("http://test.example:8080{target}"))
                    .version(*version)
                    .body(crate::Body::empty())
                    .unwrap();
                if let Some(h) = caller_host {
                    req.headers_mut().insert(http::header::HOST, h.parse().unwrap());
                }
                let before = seen.lock().unwrap().len();
                match tokio::time::timeout(T, client.request(req)).await {
                    Err(_) => { wrong.push(format!("{ctx}: no response within {T:?}")); break; }
                    Ok(Err(e)) => {
                        // a client that refuses a version it does not speak is within the property; what it does send is checked
                        println!("{ctx}: not sent, the client answered {e}");
                    }
                    Ok(Ok(resp)) => {
                        if resp.status() != http::StatusCode::OK {
                            wrong.push(format!("{ctx}: response {}", resp.status()));
                        }
                        drop(resp);
                    }
                }
                let log = seen.lock().unwrap().clone();
                for (conn, head) in log.iter().skip(before) {
                    if head.starts_with("PRI * HTTP/2.0") {
                        println!("{ctx}: went to a new prior-knowledge HTTP/2 connection {conn} (outside this scenario)");
                        continue;
                    }
                    println!("{ctx}: connection {conn} <- {:?}", head.split("\r\n").next().unwrap_or(""));
                    check_h1_head(&ctx, head, "GET", &target, caller_host.unwrap_or("test.example:8080"), &mut wrong);
                }
                // let the connection go back to the pool before the next request asks for one
                tokio::time::sleep(std::time::Duration::from_millis(40)).await;
            }
            drop(client);
            peer.abort();
        }
    }
    assert!(wrong.is_empty(), "request head does not follow the CONNECTION's protocol:\n{}", wrong.join("\n"));
}
