// Replay templates for the eyeballs unit (C10, C11): concrete, deterministic scenarios against the REAL
// `EyeballSet`.  Compiled inside `crate::happy_eyeballs::verif_replays` (feature verif-hooks, test builds).
//
// Candidates are scripted futures that complete when the test fires a oneshot; the `finish()` future is polled
// by hand, so "time" is the sequence of test actions.  The event log records when a candidate is first polled
// (= the attempt is STARTED), when it completes, and whether it was dropped unstarted.
//
// PUBLIC SURFACE ONLY in this file: `EyeballSet::{new, push, finish, len, is_empty}`, `HappyEyeballsError`,
// `TcpTransport::{builder, connect_to_addrs}`, `TcpTransportConfig` - what a refactoring of the internals keeps.
// Every template that names a private item (`join_next`, `join_next_with_timeout`, the `Eyeball` enum, fields of the
// set, `SocketAddrs::pop`) lives in `replays/eyeballs_internal.rs`, included below as `mod internal`: when a change
// re-types such an item only that file stops compiling and only it is left out of the build (vx/replay.py,
// `_isolate_broken_replay_files`); the stand-ins and replays here still run.
use super::*;
use std::pin::Pin;
use std::sync::{Arc, Mutex};
use std::task::{Context, Poll};
use tokio::sync::oneshot;

#[derive(Debug, Clone, PartialEq, Eq)]
enum Ev {
    Start(usize),
    Done(usize),
    DropUnstarted(usize),
    DropRunning(usize),
}
type Log = Arc<Mutex<Vec<Ev>>>;
type Out = Result<u32, String>;

struct Cand {
    id: usize,
    rx: oneshot::Receiver<Out>,
    log: Log,
    started: bool,
    done: bool,
}
impl Future for Cand {
    type Output = Out;
    fn poll(mut self: Pin<&mut Self>, cx: &mut Context<'_>) -> Poll<Out> {
        let this = &mut *self;
        if !this.started {
            this.started = true;
            this.log.lock().unwrap().push(Ev::Start(this.id));
        }
        match Pin::new(&mut this.rx).poll(cx) {
            Poll::Ready(Ok(v)) => {
                this.done = true;
                this.log.lock().unwrap().push(Ev::Done(this.id));
                Poll::Ready(v)
            }
            _ => Poll::Pending, // not fired (or the test dropped the trigger): never completes
        }
    }
}
impl Drop for Cand {
    fn drop(&mut self) {
        if !self.started {
            self.log.lock().unwrap().push(Ev::DropUnstarted(self.id));
        } else if !self.done {
            self.log.lock().unwrap().push(Ev::DropRunning(self.id));
        }
    }
}

type Set = EyeballSet<Cand, u32, String>;
struct Rig {
    set: Set,
    tx: Vec<Option<oneshot::Sender<Out>>>,
    log: Log,
}
/// `n` candidates 0..n pushed in that order
fn rig(n: usize, delay: Option<Duration>, timeout: Option<Duration>, ic: Option<usize>) -> Rig {
    let log: Log = Arc::new(Mutex::new(Vec::new()));
    let mut set: Set = EyeballSet::new(delay, timeout, ic);
    let mut tx = Vec::new();
    for id in 0..n {
        let (s, r) = oneshot::channel();
        tx.push(Some(s));
        set.push(Cand { id, rx: r, log: log.clone(), started: false, done: false });
    }
    Rig { set, tx, log }
}
fn fire(tx: &mut [Option<oneshot::Sender<Out>>], id: usize, v: Out) {
    let _ = tx[id].take().expect("fired twice").send(v);
}
fn starts(log: &Log) -> Vec<usize> {
    log.lock().unwrap().iter().filter_map(|e| if let Ev::Start(i) = e { Some(*i) } else { None }).collect()
}
fn events(log: &Log) -> Vec<Ev> {
    log.lock().unwrap().clone()
}
/// poll the future exactly once
async fn step<T>(f: &mut Pin<Box<dyn Future<Output = T> + '_>>) -> Poll<T> {
    std::future::poll_fn(|cx| Poll::Ready(f.as_mut().poll(cx))).await
}
const LONG: Duration = Duration::from_secs(3600);
fn s(x: &str) -> String {
    x.to_string()
}

/// templates that name private items - a separate FILE so that a compile error there is attributed to it alone.
/// (`use super::*;` is the first line of that file, not of this block: rustc's "consider importing ..." help of an error in
/// the included file points at the module's `use` items, and a span in eyeballs.rs would implicate this file as well.)
mod internal {
    include!(concat!(env!("VERIF_DIR"), "/replays/eyeballs_internal.rs"));
}

/// he.empty [C10]: no candidates => Err(NoProgress), at the first poll, in every configuration
#[tokio::test]
async fn he_empty() {
    for (d, t, ic) in [
        (None, None, None),
        (Some(Duration::ZERO), None, Some(0)),
        (Some(LONG), Some(LONG), Some(3)),
        (None, Some(LONG), Some(1)),
    ] {
        let Rig { mut set, .. } = rig(0, d, t, ic);
        let mut fut: Pin<Box<dyn Future<Output = _> + '_>> = Box::pin(set.finish());
        match step(&mut fut).await {
            Poll::Ready(Err(HappyEyeballsError::NoProgress)) => {}
            other => panic!("expected NoProgress, got {other:?}"),
        }
    }
}

/// he.err_last, he.err_first [C10] (also he.join.*): failure is reported only after EVERY candidate has been started
/// and has failed; the error is the first failure in completion order
#[tokio::test]
async fn he_err_last_first() {
    // all three running at once; they fail in the order 1, 2, 0
    let Rig { mut set, mut tx, log } = rig(3, None, None, None);
    {
        let mut fut: Pin<Box<dyn Future<Output = _> + '_>> = Box::pin(set.finish());
        assert!(step(&mut fut).await.is_pending());
        assert_eq!(starts(&log), vec![0, 1, 2]);
        fire(&mut tx, 1, Err(s("e1")));
        assert!(step(&mut fut).await.is_pending(), "reported a failure while candidates 0 and 2 are still running");
        fire(&mut tx, 2, Err(s("e2")));
        assert!(step(&mut fut).await.is_pending(), "reported a failure while candidate 0 is still running");
        fire(&mut tx, 0, Err(s("e0")));
        match step(&mut fut).await {
            Poll::Ready(Err(HappyEyeballsError::Error(e))) => assert_eq!(e, "e1", "not the FIRST failure"),
            other => panic!("expected Err(Error(e1)), got {other:?}"),
        }
    }
    let ev = events(&log);
    for i in 0..3 {
        assert!(ev.contains(&Ev::Start(i)) && ev.contains(&Ev::Done(i)), "candidate {i} not tried to the end: {ev:?}");
    }

    // one at a time (queue): nothing is reported before the queue is empty and the last attempt has failed
    let Rig { mut set, mut tx, log } = rig(3, None, None, Some(1));
    let mut fut: Pin<Box<dyn Future<Output = _> + '_>> = Box::pin(set.finish());
    assert!(step(&mut fut).await.is_pending());
    fire(&mut tx, 0, Err(s("e0")));
    assert!(step(&mut fut).await.is_pending(), "reported a failure with candidates still queued");
    fire(&mut tx, 1, Err(s("e1")));
    assert!(step(&mut fut).await.is_pending(), "reported a failure with a candidate still queued");
    assert_eq!(starts(&log), vec![0, 1, 2]);
    fire(&mut tx, 2, Err(s("e2")));
    match step(&mut fut).await {
        Poll::Ready(Err(HappyEyeballsError::Error(e))) => assert_eq!(e, "e0", "not the FIRST failure"),
        other => panic!("expected Err(Error(e0)), got {other:?}"),
    }
}

/// he.err_first, he.err_last, he.join.first_error, he.wait.first_error [C10] through the public surface: EVERY candidate
/// fails, in every configuration in which failures arrive while candidates are still queued (more candidates than the
/// initial concurrency) as well as after all were started.  "It reports failure only after every candidate has been tried
/// and has failed - returning the FIRST failure observed": the reported error is the one of the attempt that completed
/// (with an error) first, whether the set was then still staggering or already draining.  Swept: initial concurrency
/// None / 0 / 1 / 2, 1..=4 candidates, stagger delay none / finite (never firing), failure order = lowest-numbered or
/// highest-numbered running attempt first.  (Arrival of C10-r4m1: an error that arrived while the queue was non-empty
/// was dropped, "error 3" reported instead of "error 1"; only the one-file build failure kept that from showing.)
#[tokio::test]
async fn he_err_first_sweep() {
    for ic in [None, Some(0usize), Some(1), Some(2)] {
        for n in 1..=4usize {
            for delay in [None, Some(LONG)] {
                for highest_first in [false, true] {
                    let what = format!("initial_concurrency={ic:?} candidates={n} delay={delay:?} highest_first={highest_first}");
                    let Rig { mut set, mut tx, log } = rig(n, delay, None, ic);
                    let mut fired: Vec<usize> = Vec::new();
                    let mut queued_when_failed: Vec<usize> = Vec::new(); // how many candidates were not yet started at each failure
                    let result = {
                        let mut fut: Pin<Box<dyn Future<Output = _> + '_>> = Box::pin(set.finish());
                        let mut result = None;
                        for _ in 0..(4 * n + 8) {
                            // back to the runtime: tokio's cooperative budget (128 polls of tokio resources per task poll -
                            // the oneshot receivers of the candidates count) is refilled; without it the receivers report
                            // Pending once the budget of this never-yielding test body is used up
                            tokio::task::yield_now().await;
                            match step(&mut fut).await {
                                Poll::Ready(r) => {
                                    result = Some(r);
                                    break;
                                }
                                Poll::Pending => {
                                    let st = starts(&log);
                                    let running: Vec<usize> = st.iter().copied().filter(|i| tx[*i].is_some()).collect();
                                    let pick = if highest_first { running.iter().max() } else { running.iter().min() };
                                    if let Some(&i) = pick {
                                        queued_when_failed.push(n - st.len());
                                        fire(&mut tx, i, Err(format!("e{i}")));
                                        fired.push(i);
                                    }
                                    // nothing running and nothing reported: the set starts the next candidate at the next poll
                                }
                            }
                        }
                        result.unwrap_or_else(|| panic!("{what}: every started attempt was failed, yet finish() never completed; started {:?}, failed {fired:?}", starts(&log)))
                    };
                    // only after every candidate has been tried and has failed
                    let mut all: Vec<usize> = fired.clone();
                    all.sort();
                    assert_eq!(all, (0..n).collect::<Vec<_>>(), "{what}: failure reported although not every candidate was tried to its end (failed so far: {fired:?})");
                    assert_eq!(starts(&log), (0..n).collect::<Vec<_>>(), "{what}: start order");
                    // the first failure observed
                    match result {
                        Err(HappyEyeballsError::Error(e)) => assert_eq!(
                            e,
                            format!("e{}", fired[0]),
                            "{what}: attempts failed in the order {fired:?} (candidates still queued at each failure: {queued_when_failed:?}); the FIRST failure must be reported"
                        ),
                        other => panic!("{what}: expected Err(Error(e{})), got {other:?}", fired[0]),
                    }
                    // the scenario the sweep is there for did occur: with more candidates than the initial batch the first
                    // failure arrives while the queue is non-empty
                    if ic.is_some_and(|c| c < n) && n > 1 {
                        assert!(queued_when_failed[0] > 0, "{what}: scenario void, nothing was queued at the first failure: {queued_when_failed:?}");
                    }
                    assert!(set.is_empty() && set.len() == 0, "{what}: candidates left in the set after the failure was reported");
                }
            }
        }
    }
}

/// he.ok [C10], he.once [C11]: the first success is returned at once; the candidate taken out of the queue when the
/// success arrives is dropped unstarted; nothing is started after the success
#[tokio::test]
async fn he_ok_once() {
    let Rig { mut set, mut tx, log } = rig(3, None, None, Some(1));
    {
        let mut fut: Pin<Box<dyn Future<Output = _> + '_>> = Box::pin(set.finish());
        assert!(step(&mut fut).await.is_pending());
        fire(&mut tx, 0, Err(s("e0")));
        assert!(step(&mut fut).await.is_pending());
        assert_eq!(starts(&log), vec![0, 1]);
        fire(&mut tx, 1, Ok(7));
        match step(&mut fut).await {
            Poll::Ready(Ok(7)) => {}
            other => panic!("expected Ok(7) at the poll after the success, got {other:?}"),
        }
    }
    // nothing was put into the running set after the success (0 and 1 have completed, 2 was never started) and
    // nothing is left queued (field-level version: internal::he_ok_once_fields)
    assert_eq!(set.len(), 0, "an attempt was added to the running set after the success, or one is still queued");
    assert!(set.is_empty());
    drop(set);
    let ev = events(&log);
    assert_eq!(starts(&log), vec![0, 1], "an attempt was started after (or despite) the success: {ev:?}");
    assert!(ev.contains(&Ev::DropUnstarted(2)), "candidate 2 must be dropped unstarted: {ev:?}");

    // two running, the later-pushed one succeeds first: its value wins although candidate 0 is still running
    let Rig { mut set, mut tx, log } = rig(2, None, None, None);
    let mut fut: Pin<Box<dyn Future<Output = _> + '_>> = Box::pin(set.finish());
    assert!(step(&mut fut).await.is_pending());
    fire(&mut tx, 1, Ok(9));
    match step(&mut fut).await {
        Poll::Ready(Ok(9)) => {}
        other => panic!("expected Ok(9), got {other:?}"),
    }
    assert!(!events(&log).contains(&Ev::Done(0)));

    // a failure first, then a success: the success wins, the recorded error is not reported
    let Rig { mut set, mut tx, .. } = rig(2, None, None, None);
    let mut fut: Pin<Box<dyn Future<Output = _> + '_>> = Box::pin(set.finish());
    assert!(step(&mut fut).await.is_pending());
    fire(&mut tx, 0, Err(s("e0")));
    assert!(step(&mut fut).await.is_pending());
    fire(&mut tx, 1, Ok(3));
    assert!(matches!(step(&mut fut).await, Poll::Ready(Ok(3))));
}

/// he.order, he.once [C11] (also he.push.back): attempts are started in the order the candidates were pushed,
/// each exactly once
#[tokio::test]
async fn he_order_once() {
    // staggered with a zero delay: every wait is abandoned at once, so all candidates get started
    let Rig { mut set, log, tx: _tx } = rig(5, Some(Duration::ZERO), None, Some(1));
    {
        let mut fut: Pin<Box<dyn Future<Output = _> + '_>> = Box::pin(set.finish());
        for _ in 0..200 {
            assert!(step(&mut fut).await.is_pending());
            if starts(&log).len() == 5 {
                break;
            }
            // let the runtime's timer driver turn so that the (zero) stagger delay fires
            tokio::time::sleep(Duration::from_millis(1)).await;
        }
    }
    assert_eq!(starts(&log), vec![0, 1, 2, 3, 4]);

    // all at once
    let Rig { mut set, log, tx: _tx } = rig(4, None, None, None);
    {
        let mut fut: Pin<Box<dyn Future<Output = _> + '_>> = Box::pin(set.finish());
        assert!(step(&mut fut).await.is_pending());
        assert!(step(&mut fut).await.is_pending());
    }
    assert_eq!(starts(&log), vec![0, 1, 2, 3]);

    // failure-driven
    let Rig { mut set, log, mut tx } = rig(4, None, None, Some(2));
    let mut fut: Pin<Box<dyn Future<Output = _> + '_>> = Box::pin(set.finish());
    assert!(step(&mut fut).await.is_pending());
    assert_eq!(starts(&log), vec![0, 1]);
    fire(&mut tx, 1, Err(s("e1")));
    assert!(step(&mut fut).await.is_pending());
    assert_eq!(starts(&log), vec![0, 1, 2]);
    fire(&mut tx, 0, Err(s("e0")));
    assert!(step(&mut fut).await.is_pending());
    assert_eq!(starts(&log), vec![0, 1, 2, 3]);
}

/// he.initial [C11]: before the first wait exactly min(initial_concurrency.unwrap_or(n), n) attempts are started
#[tokio::test]
async fn he_initial() {
    for (n, ic, want) in [(4usize, Some(2usize), 2usize), (3, Some(9), 3), (3, None, 3), (4, Some(1), 1), (5, Some(5), 5), (5, Some(4), 4)] {
        for d in [None, Some(LONG)] {
            let Rig { mut set, log, tx: _tx } = rig(n, d, None, ic);
            let mut fut: Pin<Box<dyn Future<Output = _> + '_>> = Box::pin(set.finish());
            assert!(step(&mut fut).await.is_pending());
            assert_eq!(starts(&log), (0..want).collect::<Vec<_>>(), "n={n} ic={ic:?} delay={d:?}");
        }
    }
}

/// he.next [C11]: a further attempt is started only after a wait that did not produce a success (a failure, here),
/// one attempt per such wait - never earlier
#[tokio::test]
async fn he_next() {
    for d in [None, Some(LONG)] {
        let Rig { mut set, log, mut tx } = rig(4, d, None, Some(1));
        let mut fut: Pin<Box<dyn Future<Output = _> + '_>> = Box::pin(set.finish());
        for _ in 0..3 {
            assert!(step(&mut fut).await.is_pending());
            assert_eq!(starts(&log), vec![0], "an attempt was started although nothing failed and no delay elapsed");
        }
        fire(&mut tx, 0, Err(s("e0")));
        for _ in 0..3 {
            assert!(step(&mut fut).await.is_pending());
            assert_eq!(starts(&log), vec![0, 1], "exactly one further attempt per failure");
        }
        fire(&mut tx, 1, Err(s("e1")));
        assert!(step(&mut fut).await.is_pending());
        assert_eq!(starts(&log), vec![0, 1, 2]);
        // a success: nothing further is started
        fire(&mut tx, 2, Ok(1));
        assert!(matches!(step(&mut fut).await, Poll::Ready(Ok(1))));
        assert_eq!(starts(&log), vec![0, 1, 2]);
    }
}

/// he.next / he.join.effects [C11] "a further attempt is started as soon as ... a running attempt has failed": EVERY
/// failure counts, not only the first one, also while other attempts are still running.  6 candidates, initial
/// concurrency 2 or 3, no stagger tick within the test (delay None / one hour); the running attempts fail one after
/// the other - always the oldest, always the newest, or alternating - and after each failure exactly one further
/// candidate (the next in order) has been started by the next poll.
#[tokio::test]
async fn he_every_failure_starts_next() {
    for d in [None, Some(LONG)] {
        for ic in [2usize, 3] {
            for pick in 0..3usize {
                let n = 6;
                let Rig { mut set, log, mut tx } = rig(n, d, None, Some(ic));
                let mut fut: Pin<Box<dyn Future<Output = _> + '_>> = Box::pin(set.finish());
                assert!(step(&mut fut).await.is_pending());
                assert_eq!(starts(&log), (0..ic).collect::<Vec<_>>(), "initial batch");
                let mut running: Vec<usize> = (0..ic).collect();
                let mut k = 0usize;
                while starts(&log).len() < n {
                    let idx = match pick { 0 => 0, 1 => running.len() - 1, _ => if k % 2 == 0 { 0 } else { running.len() - 1 } };
                    let victim = running.remove(idx);
                    let before = starts(&log).len();
                    fire(&mut tx, victim, Err(format!("e{victim}")));
                    assert!(step(&mut fut).await.is_pending(), "attempts are still running");
                    let st = starts(&log);
                    assert_eq!(st, (0..before + 1).collect::<Vec<_>>(), "failure #{} (attempt {victim}, {} other attempt(s) still running, initial concurrency {ic}, \
                        delay {d:?}): the next candidate must have been started by the next poll, and only that one", k + 1, running.len());
                    running.push(before);
                    k += 1;
                }
            }
        }
    }
}

/// he.finish [C10,C11]: finish maps Ok(Ok(v)) -> Ok(v), Ok(Err(e)) -> Err(e), elapsed -> Err(Timeout) and nothing else
#[tokio::test]
async fn he_finish() {
    // elapsed overall timeout
    let Rig { mut set, tx: _tx, .. } = rig(1, None, Some(Duration::ZERO), None);
    assert!(matches!(set.finish().await, Err(HappyEyeballsError::Timeout(_))));
    // no overall timeout: never a Timeout; error handed through
    let Rig { mut set, mut tx, .. } = rig(2, Some(Duration::ZERO), None, None);
    fire(&mut tx, 0, Err(s("a")));
    fire(&mut tx, 1, Err(s("b")));
    match set.finish().await {
        Err(HappyEyeballsError::Error(e)) => assert!(e == "a" || e == "b"),
        other => panic!("expected Err(Error(_)), got {other:?}"),
    }
    // with a (long) overall timeout: results handed through unchanged
    let Rig { mut set, mut tx, .. } = rig(2, None, Some(LONG), Some(1));
    fire(&mut tx, 0, Err(s("a")));
    fire(&mut tx, 1, Ok(42));
    assert!(matches!(set.finish().await, Ok(42)));
    let Rig { mut set, mut tx, .. } = rig(1, None, Some(LONG), None);
    fire(&mut tx, 0, Err(s("only")));
    assert_eq!(set.finish().await, Err(HappyEyeballsError::Error(s("only"))));
    let Rig { mut set, .. } = rig(0, None, Some(LONG), None);
    assert_eq!(set.finish().await, Err(HappyEyeballsError::NoProgress));
}

/// he.no_panic [C10]: draining with a stagger delay configured and a candidate that never completes just keeps
/// waiting (the `panic!("unexpected timeout")` arm is unreachable: the drain loop waits without the stagger timeout)
#[tokio::test]
async fn he_drain_no_panic() {
    for ic in [None, Some(1)] {
        let Rig { mut set, log, tx: _tx } = rig(2, Some(Duration::ZERO), None, ic);
        let mut fut: Pin<Box<dyn Future<Output = _> + '_>> = Box::pin(set.finish());
        for _ in 0..30 {
            assert!(step(&mut fut).await.is_pending());
            tokio::time::sleep(Duration::from_millis(1)).await;
        }
        assert_eq!(starts(&log), vec![0, 1]);
    }
}

/// he.len [C11], he.push.back (count half) through the public surface: every pushed candidate is counted once until the
/// operation is over (field-level version with a running batch: internal::he_len)
#[tokio::test]
async fn he_len_public() {
    for n in 0..5usize {
        let Rig { mut set, mut tx, .. } = rig(n, None, None, Some(1));
        assert_eq!(set.len(), n, "{n} queued candidates");
        assert_eq!(set.is_empty(), n == 0);
        for i in 0..n {
            fire(&mut tx, i, Err(format!("e{i}")));
        }
        let _ = set.finish().await;
        assert_eq!(set.len(), 0, "every candidate has failed: none is counted any more");
        assert!(set.is_empty());
    }
}

// ======================= bounded stand-ins for the TIME clauses (outside contracts) =======================
// Real timers (tokio's test-util is not enabled in the crate).  Both tests are one-sided in the direction that
// machine load cannot falsify: timers never fire early, and the deadline test allows 2.5x slack.

/// A.he.not_earlier [C11]: after a failure in the middle of a stagger interval the replacement attempt starts at once,
/// but the attempt after that must still wait a full stagger delay (no failure in between)
#[tokio::test]
async fn standin_stagger_not_earlier() {
    let delay = Duration::from_millis(120);
    let log: Log = Arc::new(Mutex::new(Vec::new()));
    let t0 = std::time::Instant::now();
    let stamps: Arc<Mutex<Vec<(usize, Duration)>>> = Arc::new(Mutex::new(Vec::new()));
    struct Timed { id: usize, fail_after: Option<Duration>, started: Option<std::time::Instant>, stamps: Arc<Mutex<Vec<(usize, Duration)>>>, t0: std::time::Instant, sleep: Option<Pin<Box<tokio::time::Sleep>>> }
    impl Future for Timed {
        type Output = Out;
        fn poll(mut self: Pin<&mut Self>, cx: &mut Context<'_>) -> Poll<Out> {
            let this = &mut *self;
            if this.started.is_none() {
                this.started = Some(std::time::Instant::now());
                this.stamps.lock().unwrap().push((this.id, this.t0.elapsed()));
                this.sleep = this.fail_after.map(|d| Box::pin(tokio::time::sleep(d)));
            }
            match this.sleep.as_mut() {
                Some(s) => match s.as_mut().poll(cx) { Poll::Ready(()) => Poll::Ready(Err(format!("e{}", this.id))), Poll::Pending => Poll::Pending },
                None => Poll::Pending,
            }
        }
    }
    let _ = log;
    let mut set: EyeballSet<Timed, u32, String> = EyeballSet::new(Some(delay), Some(Duration::from_millis(700)), Some(1));
    for id in 0..4 {
        set.push(Timed { id, fail_after: if id == 0 { Some(Duration::from_millis(40)) } else { None }, started: None, stamps: stamps.clone(), t0, sleep: None });
    }
    let _ = set.finish().await;
    let st = stamps.lock().unwrap().clone();
    assert!(st.len() >= 3, "fewer than three attempts were started before the deadline: {st:?}");
    let at = |i: usize| st.iter().find(|(id, _)| *id == i).map(|(_, d)| *d);
    let (a1, a2) = (at(1).expect("attempt 1 started"), at(2).expect("attempt 2 started"));
    assert!(a2 >= a1 + delay - Duration::from_millis(5),
        "attempt 2 was started {:?} after attempt 1 although no attempt failed in between (stagger delay {:?}); starts: {st:?}", a2 - a1, delay);
}

/// A scripted attempt for the real-time stand-ins: records the time of its first poll (= the attempt is STARTED) and
/// fails `fail_after` later, or hangs.
struct TimedCand {
    id: usize,
    fail_after: Option<Duration>,
    t0: std::time::Instant,
    stamps: Arc<Mutex<Vec<(usize, Duration)>>>,
    sleep: Option<Pin<Box<tokio::time::Sleep>>>,
    started: bool,
}
impl Future for TimedCand {
    type Output = Out;
    fn poll(mut self: Pin<&mut Self>, cx: &mut Context<'_>) -> Poll<Out> {
        let this = &mut *self;
        if !this.started {
            this.started = true;
            this.stamps.lock().unwrap().push((this.id, this.t0.elapsed()));
            this.sleep = this.fail_after.map(|d| Box::pin(tokio::time::sleep(d)));
        }
        match this.sleep.as_mut() {
            Some(s) => match s.as_mut().poll(cx) {
                Poll::Ready(()) => Poll::Ready(Err(format!("e{}", this.id))),
                Poll::Pending => Poll::Pending,
            },
            None => Poll::Pending,
        }
    }
}

/// A.he.not_earlier.after_failure [C11] (also replay of he.next / he.wait.step / he.finish.paced: "a start needs a
/// preceding wait" - here the wait must be a WHOLE stagger delay, counted from the previous start): concurrency 1,
/// stagger delay 300 ms, attempt #0 fails 200 ms after its start - part-way through a stagger window -, #1 and #2 hang.
/// #1 is started in #0's place at once; #2 is owed a full delay after that start, because nothing fails in between.
/// Pinned code: starts at ~0 / 200 / 500 ms.  C11-r4m1 (fixed schedule of start times, `timeout_at(next_attempt)`, not
/// re-based after a failure): 0 / 200 / 300 ms - #2 only 100 ms after #1.
///
/// One-sided against machine load.  On code that waits `delay` after the start of #1, the wait's `Sleep` (deadline =
/// creation time + delay) is created by `join_next_with_timeout` BEFORE the running set is polled for the first time
/// after #1 was pushed, i.e. before #1's first poll, in the same synchronous `poll` call:
///     creation <= start(#1)   and   start(#2) >= creation + delay   (tokio timers never fire early)
/// so start(#2) - start(#1) >= delay - (start(#1) - creation), and start(#1) - creation is the run time of a few hundred
/// instructions between two points of one `poll` call.  Load can only shorten the gap by pre-empting the thread exactly
/// there, and for longer than the 60 ms of slack; everything else load does (late timer, late wake-up, slow poll) makes
/// start(#2) LATER and the gap larger.  The fault leaves a gap of delay/3 = 100 ms, 140 ms below the bound.
/// The other assertions are never-early checks of the same kind (a start not before the event that permits it).
#[tokio::test]
async fn standin_stagger_not_earlier_after_failure() {
    let delay = Duration::from_millis(300);
    let fail_at = Duration::from_millis(200);
    let slack = Duration::from_millis(60);
    let stamps: Arc<Mutex<Vec<(usize, Duration)>>> = Arc::new(Mutex::new(Vec::new()));
    let t0 = std::time::Instant::now();
    // overall deadline 1100 ms: the operation ends on its own after #2's slot (500 ms) and before a 4th stagger tick matters
    let mut set: EyeballSet<TimedCand, u32, String> = EyeballSet::new(Some(delay), Some(Duration::from_millis(1100)), Some(1));
    for id in 0..3 {
        set.push(TimedCand { id, fail_after: if id == 0 { Some(fail_at) } else { None }, t0, stamps: stamps.clone(), sleep: None, started: false });
    }
    let r = tokio::time::timeout(Duration::from_secs(10), set.finish()).await.expect("finish() never completed");
    assert!(matches!(r, Err(HappyEyeballsError::Timeout(_))), "#0 failed, #1 and #2 hang: the result must be the time-out, got {r:?}");
    let st = stamps.lock().unwrap().clone();
    assert_eq!(st.iter().map(|(i, _)| *i).collect::<Vec<_>>(), vec![0, 1, 2], "three attempts, started in the given order, each once: {st:?}");
    let (a0, a1, a2) = (st[0].1, st[1].1, st[2].1);
    // never early, 1: the replacement for #0 is not started before #0 has failed (its failure timer is created at its first poll)
    assert!(a1 >= a0 + fail_at, "attempt 1 was started {:?} after attempt 0, which fails only after {fail_at:?} (initial concurrency 1, stagger delay {delay:?}); starts: {st:?}", a1 - a0);
    // never early, 2: no attempt failed between the start of #1 and the start of #2 - a whole stagger delay lies between them
    assert!(
        a2 >= a1 + delay - slack,
        "attempt 2 was started {:?} after attempt 1 although no attempt failed in between (stagger delay {delay:?}); starts: {st:?}",
        a2 - a1
    );
}

/// A.he.deadline [C11]: with every attempt hanging the operation gives up at the overall deadline, also when
/// delay x candidates exceeds it, and starts nothing afterwards
#[tokio::test]
async fn standin_overall_deadline() {
    let Rig { mut set, log, tx: _tx } = rig(5, Some(Duration::from_millis(100)), Some(Duration::from_millis(200)), Some(1));
    let t0 = std::time::Instant::now();
    let r = tokio::time::timeout(Duration::from_secs(5), set.finish()).await.expect("finish() never completed");
    let took = t0.elapsed();
    assert!(r.is_err(), "all attempts hang: the result must be the timeout error");
    assert!(took <= Duration::from_millis(500), "the operation completed after {took:?}, the configured overall deadline is 200ms");
    assert!(starts(&log).len() <= 3, "attempts were started after the overall deadline: {:?}", starts(&log));
    // every attempt started well before the deadline, all hang: the deadline counts from the start of the operation
    let Rig { mut set, log: _log, tx: _tx } = rig(3, Some(Duration::from_millis(200)), Some(Duration::from_millis(600)), Some(1));
    let t0 = std::time::Instant::now();
    let r = tokio::time::timeout(Duration::from_secs(5), set.finish()).await.expect("finish() never completed");
    let took = t0.elapsed();
    assert!(r.is_err());
    assert!(took <= Duration::from_millis(850), "the operation completed after {took:?}, the configured overall deadline is 600ms");
}

/// A.tcp.connecting [C10] (bounded stand-in for `TcpConnecting::connect`, class A: `mut self` receiver, async blocks):
/// connecting succeeds whenever some candidate accepts - a candidate whose socket cannot even be set up (unassignable
/// local address for its family) is one failed attempt, not the failure of the whole operation; order does not matter.
#[tokio::test]
async fn standin_tcp_unusable_candidate() {
    use crate::client::conn::transport::tcp::{TcpTransport, TcpTransportConfig};
    use std::net::{Ipv4Addr, Ipv6Addr, SocketAddr};
    for (v6_first, sequential) in [(true, false), (false, true), (true, true)] {
        let listener = tokio::net::TcpListener::bind("127.0.0.1:0").await.unwrap();
        let port = listener.local_addr().unwrap().port();
        let mut config = TcpTransportConfig::default();
        config.local_address_ipv6 = Some("2001:db8::1".parse().unwrap()); // documentation prefix: assigned to no interface
        if sequential {
            config.happy_eyeballs_timeout = None;
            config.happy_eyeballs_concurrency = Some(1);
        }
        let transport: TcpTransport = TcpTransport::builder().with_config(config).with_gai_resolver().build();
        let v6 = SocketAddr::new(Ipv6Addr::LOCALHOST.into(), port);
        let v4 = SocketAddr::new(Ipv4Addr::LOCALHOST.into(), port);
        let candidates = if v6_first { vec![v6, v4] } else { vec![v4, v6] };
        let (result, _accepted) = tokio::join!(
            async { tokio::time::timeout(Duration::from_secs(5), transport.connect_to_addrs(candidates)).await },
            async { tokio::time::timeout(Duration::from_secs(2), listener.accept()).await }
        );
        let stream = result.expect("connect did not finish").expect("the IPv4 candidate accepts, so connecting must succeed");
        assert_eq!(stream.peer_addr().unwrap(), v4, "v6_first={v6_first} sequential={sequential}");
    }
}

/// A loopback address on which connection attempts hang: a listener that never accepts and whose accept queue is
/// full (Linux drops further SYNs while the queue is full; the client keeps retransmitting).  The returned values
/// keep it that way.  The queue counts as full once one probe did not complete within 600 ms (a loopback connect
/// that CAN complete does so inside the connect call itself, whatever the machine load).
fn hanging_listener() -> (socket2::Socket, Vec<std::net::TcpStream>, std::net::SocketAddr) {
    use socket2::{Domain, Socket, Type};
    use std::net::{Ipv4Addr, SocketAddr};
    let socket = Socket::new(Domain::IPV4, Type::STREAM, None).unwrap();
    socket.bind(&SocketAddr::from((Ipv4Addr::LOCALHOST, 0)).into()).unwrap();
    socket.listen(1).unwrap();
    let addr = socket.local_addr().unwrap().as_socket().unwrap();
    let mut fillers = Vec::new();
    loop {
        match std::net::TcpStream::connect_timeout(&addr, Duration::from_millis(600)) {
            Ok(stream) => fillers.push(stream),
            Err(e) if e.kind() == std::io::ErrorKind::TimedOut => break,
            Err(e) => panic!("unexpected error while filling the accept queue: {e}"),
        }
        assert!(fillers.len() < 1024, "the accept queue never filled up");
    }
    (socket, fillers, addr)
}

/// A.tcp.connecting [C10], second half: connecting succeeds whenever some candidate, once attempted, accepts before
/// the configured OVERALL deadline - and none is configured here (`happy_eyeballs_timeout: None`).  The per-attempt
/// `connect_timeout` only ends the attempt it belongs to: candidates that hang until it fires are failed attempts,
/// after which the next candidate is tried; the last one accepts at once, so the connect must succeed.
#[tokio::test(flavor = "multi_thread", worker_threads = 2)]
async fn standin_tcp_hanging_candidate() {
    use crate::client::conn::transport::tcp::{TcpTransport, TcpTransportConfig};
    // the blocking probes run off the runtime threads
    let (_hole, _fillers, hole) = tokio::task::spawn_blocking(hanging_listener).await.unwrap();
    let per_attempt = Duration::from_millis(400);

    let scenario = |hanging: usize| async move {
        let listener = tokio::net::TcpListener::bind("127.0.0.1:0").await.unwrap();
        let good = listener.local_addr().unwrap();
        let mut config = TcpTransportConfig::default();
        config.happy_eyeballs_timeout = None; // no overall deadline, candidates strictly one after the other
        config.happy_eyeballs_concurrency = Some(1);
        config.connect_timeout = Some(per_attempt);
        let transport: TcpTransport = TcpTransport::builder().with_config(config).with_gai_resolver().build();
        let mut candidates = vec![hole; hanging];
        candidates.push(good);
        let t0 = std::time::Instant::now();
        let result = tokio::time::timeout(Duration::from_secs(20), transport.connect_to_addrs(candidates)).await;
        let took = t0.elapsed();
        let stream = result
            .unwrap_or_else(|_| panic!("{hanging} hanging candidate(s) + 1 accepting: connect did not finish within 20 s"))
            .unwrap_or_else(|e| panic!("{hanging} hanging candidate(s), then one that accepts, no overall deadline configured: connecting must succeed, but failed after {took:?} with {e:?}"));
        assert_eq!(stream.peer_addr().unwrap(), good, "{hanging} hanging candidate(s): connected to the wrong candidate");
        // the accepting candidate is only reached after every hanging attempt has run into its own time-out
        // (timers never fire early, so this bound is one-sided against machine load)
        assert!(took >= per_attempt * hanging as u32, "{hanging} hanging candidate(s): connected after {took:?} - the hanging candidate did not hang, the scenario is void");
        drop(listener);
    };
    // both scenarios at the same time: one hanging candidate; two of them (the overall time then exceeds any single
    // attempt's time-out by a whole attempt)
    tokio::join!(scenario(1), scenario(2));
}

// =====================================================================================================================
// Replay templates of unit `tcpconnect` (TcpConnecting::connect / TcpConnectionAttempt, src/client/conn/transport/tcp.rs;
// obligations tc.*, index.tcpconnect.json).  They drive the real code through the public
// `TcpTransport::connect_to_addrs` (= `TcpConnecting::new(addrs, &config).connect()`) against loopback sockets.
// =====================================================================================================================
mod tc {
    use super::hanging_listener;
    use crate::client::conn::transport::tcp::{TcpConnectionError, TcpTransport, TcpTransportConfig};
    use std::net::SocketAddr;
    use std::time::{Duration, Instant};

    fn transport(config: TcpTransportConfig) -> TcpTransport {
        TcpTransport::builder().with_config(config).with_gai_resolver().build()
    }
    /// a loopback address nobody listens on: connecting is refused at once
    fn refused_addr() -> SocketAddr {
        let l = std::net::TcpListener::bind("127.0.0.1:0").unwrap();
        let a = l.local_addr().unwrap();
        drop(l);
        a
    }
    async fn go(config: TcpTransportConfig, candidates: Vec<SocketAddr>) -> Result<crate::stream::tcp::TcpStream, TcpConnectionError> {
        tokio::time::timeout(Duration::from_secs(20), transport(config).connect_to_addrs(candidates))
            .await
            .expect("connect_to_addrs did not finish within 20 s")
    }

    /// tc.connect.one_per_address / tc.connect.all_addresses / tc.connect.order / tc.set.push.back / tc.addrs.front [C11]:
    /// every address of the list gets its attempt (a refused candidate in front of an accepting one is not the end), and the
    /// attempts are made in list order (strictly sequential configuration: the FIRST accepting candidate of the list wins).
    #[tokio::test]
    async fn tc_one_attempt_per_address_in_order() {
        // (a) all addresses are attempted: two refused candidates, then one that accepts
        let listener = tokio::net::TcpListener::bind("127.0.0.1:0").await.unwrap();
        let good = listener.local_addr().unwrap();
        for config in [TcpTransportConfig::default(), {
            let mut c = TcpTransportConfig::default();
            c.happy_eyeballs_timeout = None;
            c.happy_eyeballs_concurrency = Some(1);
            c
        }] {
            let stream = go(config, vec![refused_addr(), refused_addr(), good])
                .await
                .expect("the third candidate accepts: every address of the list must be attempted");
            assert_eq!(stream.peer_addr().unwrap(), good);
        }
        // (a') whatever its family: an IPv6 candidate behind a refused IPv4 one (skipped when the host has no IPv6 loopback)
        if let Ok(l6) = tokio::net::TcpListener::bind("[::1]:0").await {
            let good6 = l6.local_addr().unwrap();
            let mut config = TcpTransportConfig::default();
            config.happy_eyeballs_timeout = None;
            config.happy_eyeballs_concurrency = Some(1);
            let stream = go(config, vec![refused_addr(), good6]).await.expect("the IPv6 candidate accepts: it must be attempted");
            assert_eq!(stream.peer_addr().unwrap(), good6);
        }
        // (b) list order: two accepting candidates, one attempt at a time, no stagger: the first of the list is connected
        let l1 = tokio::net::TcpListener::bind("127.0.0.1:0").await.unwrap();
        let l2 = tokio::net::TcpListener::bind("127.0.0.1:0").await.unwrap();
        let (a1, a2) = (l1.local_addr().unwrap(), l2.local_addr().unwrap());
        for order in [vec![a1, a2], vec![a2, a1], vec![refused_addr(), a2, a1]] {
            let mut config = TcpTransportConfig::default();
            config.happy_eyeballs_timeout = None;
            config.happy_eyeballs_concurrency = Some(1);
            let first_live = *order.iter().find(|a| **a == a1 || **a == a2).unwrap();
            let stream = go(config, order.clone()).await.expect("both candidates accept");
            assert_eq!(stream.peer_addr().unwrap(), first_live, "attempts are not made in list order: {order:?}");
        }
    }

    /// tc.connect.delay / tc.connect.deadline / tc.connect.concurrency / tc.set.new.config [C11]: three candidates that hang
    /// and a fourth that accepts, happy-eyeballs time-out T = 2400 ms, one attempt at a time: the stagger delay is T / 4 = 600 ms,
    /// so the accepting candidate is reached at 1800 ms - not earlier (timers never fire early: all four at once, or a smaller
    /// delay, would connect sooner) and before the overall deadline T (an undivided delay T, or delay and deadline swapped,
    /// ends in the time-out error).
    #[tokio::test(flavor = "multi_thread", worker_threads = 2)]
    async fn tc_pacing_from_config() {
        let (_hole, _fillers, hole) = tokio::task::spawn_blocking(hanging_listener).await.unwrap();
        let listener = tokio::net::TcpListener::bind("127.0.0.1:0").await.unwrap();
        let good = listener.local_addr().unwrap();
        let total = Duration::from_millis(2400);
        let mut config = TcpTransportConfig::default();
        config.happy_eyeballs_timeout = Some(total);
        config.happy_eyeballs_concurrency = Some(1);
        config.connect_timeout = None;
        let t0 = Instant::now();
        let result = go(config, vec![hole, hole, hole, good]).await;
        let took = t0.elapsed();
        let stream = result.unwrap_or_else(|e| {
            panic!("4 candidates, time-out {total:?}: the 4th is started at 3/4 of it and accepts at once, but connecting failed after {took:?} with: {e}")
        });
        assert_eq!(stream.peer_addr().unwrap(), good);
        assert!(took >= total / 4 * 3, "connected after {took:?}: the 4th candidate was started before 3 stagger delays of {:?} had passed", total / 4);
        assert!(took < total, "connected after {took:?}, the overall deadline is {total:?}");
    }

    /// tc.connect.result / tc.connect.err_unchanged / tc.connect.err_timeout / tc.connect.err_exhausted / tc.err.new [C10]:
    /// what the caller sees for each outcome of the happy-eyeballs run.
    #[tokio::test(flavor = "multi_thread", worker_threads = 2)]
    async fn tc_error_mapping() {
        use std::error::Error as _;
        // every attempt failed: the attempt's OWN error, unchanged (message of the socket layer + the io::Error as source)
        for n in [1usize, 3] {
            let e = go(TcpTransportConfig::default(), (0..n).map(|_| refused_addr()).collect()).await.expect_err("nobody listens");
            let text = e.to_string();
            assert!(text.starts_with("tcp connect error"), "{n} refused candidate(s): the caller must see the attempt's error, got: {text}");
            let io = e.source().and_then(|s| s.downcast_ref::<std::io::Error>()).expect("the attempt's io::Error is the source");
            assert_eq!(io.kind(), std::io::ErrorKind::ConnectionRefused, "{text}");
        }
        // no candidate at all: no progress
        for timeout in [Some(Duration::from_secs(30)), None] {
            let mut config = TcpTransportConfig::default();
            config.happy_eyeballs_timeout = timeout;
            let e = go(config, vec![]).await.expect_err("no candidates");
            assert_eq!(e.to_string(), "Exhausted connection candidates");
            assert!(e.source().is_none());
        }
        // the overall deadline passes while the only attempt hangs: the time-out error
        let (_hole, _fillers, hole) = tokio::task::spawn_blocking(hanging_listener).await.unwrap();
        let mut config = TcpTransportConfig::default();
        config.happy_eyeballs_timeout = Some(Duration::from_millis(300));
        config.connect_timeout = None;
        let t0 = Instant::now();
        let e = go(config, vec![hole]).await.expect_err("the only candidate hangs");
        assert!(t0.elapsed() >= Duration::from_millis(300));
        let text = e.to_string();
        let ms = text.strip_prefix("Connection attempts timed out after ").and_then(|t| t.strip_suffix("ms"));
        assert!(ms.is_some_and(|m| m.parse::<u128>().is_ok_and(|m| m >= 300)), "expected the time-out error with the elapsed milliseconds, got: {text}");
        assert!(e.source().is_none());
    }

    /// tc.connect.err_unchanged / tc.connect.result [C10] (also he.err_first through the real transport): every candidate
    /// fails, one attempt at a time, and the failures differ in kind - an IPv6 candidate whose socket cannot be bound to the
    /// configured (unassignable) local address fails in the socket set-up, the IPv4 candidates are refused.  The caller must
    /// see the error of the attempt that failed FIRST, unchanged: with the IPv6 candidate in front the set-up error, with
    /// the IPv6 candidate at the end the refusal.  (More candidates than the initial concurrency, so every failure but the
    /// last arrives while candidates are still queued - the case in which C10-r4m1 drops it.)
    #[tokio::test]
    async fn tc_first_error_reported() {
        use std::net::{Ipv6Addr, SocketAddr};
        let config = || {
            let mut c = TcpTransportConfig::default();
            c.happy_eyeballs_timeout = None; // no sorting, no stagger: strictly in list order
            c.happy_eyeballs_concurrency = Some(1);
            c.local_address_ipv6 = Some("2001:db8::1".parse().unwrap()); // documentation prefix: assigned to no interface
            c
        };
        let v6 = SocketAddr::new(Ipv6Addr::LOCALHOST.into(), refused_addr().port());
        // what each kind of failure looks like on its own
        let e_v6 = go(config(), vec![v6]).await.expect_err("the IPv6 candidate cannot be set up").to_string();
        let e_v4 = go(config(), vec![refused_addr()]).await.expect_err("nobody listens").to_string();
        assert!(e_v4.starts_with("tcp connect error"), "{e_v4}");
        assert_ne!(e_v6, e_v4, "scenario void: the two kinds of failure read the same");
        for concurrency in [Some(1usize), Some(0), Some(2)] {
            for (candidates, first, what) in [
                (vec![v6, refused_addr(), refused_addr()], &e_v6, "[v6 set-up failure, refused, refused]"),
                (vec![refused_addr(), refused_addr(), v6], &e_v4, "[refused, refused, v6 set-up failure]"),
                (vec![v6, refused_addr()], &e_v6, "[v6 set-up failure, refused]"),
                (vec![refused_addr(), v6], &e_v4, "[refused, v6 set-up failure]"),
            ] {
                if concurrency == Some(2) && candidates.len() < 3 {
                    continue; // both started at once: completion order is the reactor's business
                }
                if concurrency == Some(2) {
                    // two at once: candidates 0 and 1 run together.  The set-up failure needs no I/O and completes at the first
                    // poll; a refusal on loopback is known when connect(2) returns, but reported through the reactor.  Only the
                    // list with the set-up failure in FRONT has a determined first failure.
                    if first != &e_v6 {
                        continue;
                    }
                }
                let mut c = config();
                c.happy_eyeballs_concurrency = concurrency;
                let e = go(c, candidates).await.expect_err("no candidate accepts");
                assert_eq!(&e.to_string(), first, "candidates {what}, initial concurrency {concurrency:?}: the caller must see the FIRST failure observed");
            }
        }
    }

    /// tc.connect.result (Ok half) / tc.attempt.dials_own_address / tc.attempt.new / tc.connecting.new [C10,C11]: the stream
    /// handed to the caller IS the connection of the attempt for that address (the listener sees its local address as peer),
    /// and an attempt runs under the configured per-attempt `connect_timeout` (not under one of the other durations).
    #[tokio::test(flavor = "multi_thread", worker_threads = 2)]
    async fn tc_result_is_the_attempts_stream() {
        let listener = tokio::net::TcpListener::bind("127.0.0.1:0").await.unwrap();
        let good = listener.local_addr().unwrap();
        let (stream, accepted) = tokio::join!(go(TcpTransportConfig::default(), vec![good]), async {
            tokio::time::timeout(Duration::from_secs(5), listener.accept()).await.expect("nobody connected").unwrap()
        });
        let stream = stream.expect("the candidate accepts");
        assert_eq!(stream.peer_addr().unwrap(), good);
        assert_eq!(accepted.1, stream.local_addr().unwrap(), "the returned stream is not the connection the listener accepted");

        let (_hole, _fillers, hole) = tokio::task::spawn_blocking(hanging_listener).await.unwrap();
        let mut config = TcpTransportConfig::default();
        config.happy_eyeballs_timeout = None;
        config.keep_alive_timeout = Some(Duration::from_secs(7));
        config.connect_timeout = Some(Duration::from_millis(300));
        let t0 = Instant::now();
        let e = go(config, vec![hole]).await.expect_err("the only candidate hangs until its connect time-out");
        let took = t0.elapsed();
        assert!(took >= Duration::from_millis(300) && took < Duration::from_secs(5), "per-attempt time-out is 300 ms, the attempt ended after {took:?}");
        let text = e.to_string();
        assert!(text.starts_with("tcp connect error"), "the attempt's own time-out error is what the caller sees, got: {text}");
    }

    /// tc.connect.no_panic [C17]: the division `timeout / #addresses` is only reached with at least one address.
    #[tokio::test]
    async fn tc_no_panic_for_any_list_length() {
        for n in 0..4usize {
            for timeout in [Some(Duration::from_millis(40)), Some(Duration::ZERO), None] {
                let mut config = TcpTransportConfig::default();
                config.happy_eyeballs_timeout = timeout;
                let candidates: Vec<SocketAddr> = (0..n).map(|_| refused_addr()).collect();
                let r = tokio::spawn(async move { go(config, candidates).await.is_err() }).await;
                assert!(r.is_ok(), "connecting to {n} addresses with happy_eyeballs_timeout {timeout:?} panicked");
            }
        }
    }
}

// ---- bounded stand-in A.he.deadline_from_finish [C10, C11]: the overall deadline is a duration counted from the moment
// the operation is STARTED (`finish()`), not from the construction of the set.  A set that is built, kept for longer
// than its overall time-out and only then run must still try its candidates (round 5, C10-r5m1 fixed the deadline as
// `Instant::now() + timeout` in `new`).  One-sided: the only candidate succeeds 25 ms after it is started, the time-out is 400 ms; on
// correct code the result cannot be a time-out unless the machine stalls this one task for more than 375 ms. ----
#[tokio::test]
async fn standin_deadline_counts_from_finish() {
    use std::time::Duration;
    for concurrency in [None, Some(1), Some(2)] {
        let timeout = Duration::from_millis(400);
        type Cand = std::pin::Pin<Box<dyn std::future::Future<Output = Result<u32, String>> + Send>>;
        let mut set: EyeballSet<Cand, u32, String> = EyeballSet::new(Some(Duration::from_millis(50)), Some(timeout), concurrency);
        // the candidate needs one timer tick (a time-out future polls its inner future first, so a candidate that is
        // ready at its very first poll would win even against a deadline that has long passed)
        set.push(Box::pin(async {
            tokio::time::sleep(Duration::from_millis(25)).await;
            Ok(7)
        }));
        // the caller holds the set for longer than the overall time-out before it starts the operation
        tokio::time::sleep(timeout + Duration::from_millis(200)).await;
        let r = tokio::time::timeout(Duration::from_secs(10), set.finish()).await.expect("finish() hangs");
        match r {
            Ok(v) => assert_eq!(v, 7),
            Err(e) => panic!(
                "a set run 600 ms after its construction (overall time-out 400 ms, concurrency {concurrency:?}) did not try its only, ready candidate: {e:?}"
            ),
        }
    }
}
