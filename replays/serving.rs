// Replay templates for the unit `serving` (C09, C07): concrete scenarios against the REAL accept loop
// (`Serving::poll_once` / `Serving::poll` of src/server/mod.rs) with a scripted acceptor, a scripted
// make-service, a recording protocol and a recording executor.
// Compiled inside `crate::server::verif_replays_serving` (feature verif-hooks, test builds).
use super::*;
use std::cell::RefCell;
use std::collections::{HashMap, VecDeque};
use std::rc::Rc;
use tokio::io::{AsyncRead, AsyncWrite, ReadBuf};

use crate::stream::duplex::DuplexStream;

thread_local! { static LOG: RefCell<Vec<String>> = RefCell::new(Vec::new()); }
fn note(s: impl Into<String>) { LOG.with(|l| l.borrow_mut().push(s.into())); }
fn log() -> Vec<String> { LOG.with(|l| l.borrow().clone()) }
fn clear() { LOG.with(|l| l.borrow_mut().clear()); }
fn count(l: &[String], s: &str) -> usize { l.iter().filter(|e| e.as_str() == s).count() }
fn pos(l: &[String], s: &str) -> usize { l.iter().position(|e| e == s).unwrap_or_else(|| panic!("`{s}` missing in {l:?}")) }

fn poll_now<F: Future + ?Sized>(f: Pin<&mut F>) -> Poll<F::Output> {
    let waker = futures_util::task::noop_waker();
    let mut cx = Context::from_waker(&waker);
    f.poll(&mut cx)
}

/// an accepted connection with an identity
struct Tagged { id: u32, inner: DuplexStream, _peer: DuplexStream }
fn tagged(id: u32) -> Tagged { let (a, b) = DuplexStream::new(64); Tagged { id, inner: a, _peer: b } }
impl HasConnectionInfo for Tagged {
    type Addr = <DuplexStream as HasConnectionInfo>::Addr;
    fn info(&self) -> crate::info::ConnectionInfo<Self::Addr> { self.inner.info() }
}
impl AsyncRead for Tagged {
    fn poll_read(mut self: Pin<&mut Self>, cx: &mut Context<'_>, buf: &mut ReadBuf<'_>) -> Poll<io::Result<()>> { Pin::new(&mut self.inner).poll_read(cx, buf) }
}
impl AsyncWrite for Tagged {
    fn poll_write(mut self: Pin<&mut Self>, cx: &mut Context<'_>, buf: &[u8]) -> Poll<io::Result<usize>> { Pin::new(&mut self.inner).poll_write(cx, buf) }
    fn poll_flush(mut self: Pin<&mut Self>, cx: &mut Context<'_>) -> Poll<io::Result<()>> { Pin::new(&mut self.inner).poll_flush(cx) }
    fn poll_shutdown(mut self: Pin<&mut Self>, cx: &mut Context<'_>) -> Poll<io::Result<()>> { Pin::new(&mut self.inner).poll_shutdown(cx) }
}

enum Step { Conn(u32), Wait, Lost }
/// the listener: hands out what the script says, `Pending` when the script is exhausted
struct Scripted(Rc<RefCell<VecDeque<Step>>>);
impl Accept for Scripted {
    type Conn = Tagged;
    type Error = io::Error;
    fn poll_accept(self: Pin<&mut Self>, _cx: &mut Context<'_>) -> Poll<Result<Tagged, io::Error>> {
        note("accept");
        match self.0.borrow_mut().pop_front() {
            Some(Step::Conn(id)) => { note(format!("accepted {id}")); Poll::Ready(Ok(tagged(id))) }
            Some(Step::Lost) => Poll::Ready(Err(io::Error::new(io::ErrorKind::Other, "listener lost"))),
            Some(Step::Wait) | None => Poll::Pending,
        }
    }
}

#[derive(Clone)]
struct Svc;
impl tower::Service<http::Request<crate::Body>> for Svc {
    type Response = http::Response<crate::Body>;
    type Error = std::convert::Infallible;
    type Future = std::future::Ready<Result<Self::Response, Self::Error>>;
    fn poll_ready(&mut self, _: &mut Context<'_>) -> Poll<Result<(), Self::Error>> { Poll::Ready(Ok(())) }
    fn call(&mut self, _: http::Request<crate::Body>) -> Self::Future { std::future::ready(Ok(http::Response::new(crate::Body::empty()))) }
}
/// the make-service: per connection id `(pending polls, succeeds)`; default `(0, true)`
struct Make { plan: HashMap<u32, (usize, bool)>, ready_fails: bool }
struct MakeFut { id: u32, pend: usize, ok: bool }
impl Future for MakeFut {
    type Output = Result<Svc, io::Error>;
    fn poll(mut self: Pin<&mut Self>, _cx: &mut Context<'_>) -> Poll<Self::Output> {
        note(format!("makepoll {}", self.id));
        if self.pend > 0 { self.pend -= 1; return Poll::Pending; }
        if self.ok { Poll::Ready(Ok(Svc)) } else { Poll::Ready(Err(io::Error::new(io::ErrorKind::Other, "make failed"))) }
    }
}
impl<'a> tower::Service<&'a Tagged> for Make {
    type Response = Svc;
    type Error = io::Error;
    type Future = MakeFut;
    fn poll_ready(&mut self, _: &mut Context<'_>) -> Poll<Result<(), io::Error>> {
        note("ready");
        if self.ready_fails { Poll::Ready(Err(io::Error::new(io::ErrorKind::Other, "not ready"))) } else { Poll::Ready(Ok(())) }
    }
    fn call(&mut self, t: &'a Tagged) -> MakeFut {
        note(format!("make {}", t.id));
        let (pend, ok) = self.plan.get(&t.id).copied().unwrap_or((0, true));
        MakeFut { id: t.id, pend, ok }
    }
}

#[derive(Debug, Clone, Copy, PartialEq, Eq)]
enum Ev { Polled, Told }
/// a connection future that records what is done to it and fails at its first poll when `bad`
struct TestConn { id: u32, bad: bool, evs: Rc<RefCell<Vec<(u32, Ev)>>> }
impl Future for TestConn {
    type Output = Result<(), io::Error>;
    fn poll(self: Pin<&mut Self>, _cx: &mut Context<'_>) -> Poll<Self::Output> {
        self.evs.borrow_mut().push((self.id, Ev::Polled));
        if self.bad { Poll::Ready(Err(io::Error::new(io::ErrorKind::InvalidData, "garbage from the client"))) } else { Poll::Pending }
    }
}
impl Connection for TestConn {
    fn graceful_shutdown(self: Pin<&mut Self>) { self.evs.borrow_mut().push((self.id, Ev::Told)); }
}
struct TestProto { bad: Vec<u32>, evs: Rc<RefCell<Vec<(u32, Ev)>>> }
impl<S> Protocol<S, Tagged, crate::Body> for TestProto {
    type ResponseBody = crate::Body;
    type Error = io::Error;
    type Connection = TestConn;
    fn serve_connection_with_upgrades(&self, stream: Tagged, _service: S) -> TestConn {
        note(format!("serve {}", stream.id));
        TestConn { id: stream.id, bad: self.bad.contains(&stream.id), evs: self.evs.clone() }
    }
}
type Spawned = Rc<RefCell<Vec<Pin<Box<dyn Future<Output = ()>>>>>>;
#[derive(Clone)]
struct Rec(Spawned, Rc<RefCell<Vec<(u32, Ev)>>>);
impl<F: Future<Output = ()> + 'static> hyper::rt::Executor<F> for Rec {
    fn execute(&self, fut: F) {
        // so.fresh: what arrives at the executor has not been polled or told anything yet
        note(format!("execute after {} connection events", self.1.borrow().len()));
        self.0.borrow_mut().push(Box::pin(fut));
    }
}

struct Rig { steps: Rc<RefCell<VecDeque<Step>>>, spawned: Spawned, evs: Rc<RefCell<Vec<(u32, Ev)>>> }
fn mk_rig(steps: Vec<Step>, plan: &[(u32, (usize, bool))], ready_fails: bool, bad: Vec<u32>)
    -> (Rig, Pin<Box<Serving<Scripted, TestProto, Make, crate::Body, Rec>>>) {
    clear();
    let steps = Rc::new(RefCell::new(steps.into_iter().collect::<VecDeque<_>>()));
    let spawned: Spawned = Rc::new(RefCell::new(Vec::new()));
    let evs = Rc::new(RefCell::new(Vec::new()));
    let server = Server::new(
        Scripted(steps.clone()),
        TestProto { bad, evs: evs.clone() },
        Make { plan: plan.iter().copied().collect(), ready_fails },
        Rec(spawned.clone(), evs.clone()),
    );
    (Rig { steps, spawned, evs }, Box::pin(server.into_future()))
}

/// so.conserve / so.make_once / so.accept_only_when_accepting / so.wrapped / so.pending / sv.conserve / sv.make_once /
/// sv.spawned [C09,C07]: three connections, the second one's service takes three polls to make.
#[test]
fn serving_conserves_connections() {
    let (rig, mut serving) = mk_rig(vec![Step::Conn(1), Step::Conn(2), Step::Wait, Step::Conn(3)], &[(2, (3, true))], false, vec![]);
    for _ in 0..8 {
        assert!(poll_now(serving.as_mut()).is_pending(), "the serving future ended: {:?}", log());
    }
    let l = log();
    for id in 1..=3u32 {
        assert_eq!(count(&l, &format!("accepted {id}")), 1);
        assert_eq!(count(&l, &format!("make {id}")), 1, "make_service must be called exactly once for connection {id}: {l:?}");
        assert_eq!(count(&l, &format!("serve {id}")), 1, "connection {id} must be served exactly once: {l:?}");
        assert!(pos(&l, &format!("accepted {id}")) < pos(&l, &format!("make {id}")));
        assert!(pos(&l, &format!("make {id}")) < pos(&l, &format!("serve {id}")));
        // the listener is not polled while this connection is in flight
        assert_eq!(count(&l[pos(&l, &format!("accepted {id}"))..pos(&l, &format!("serve {id}"))], "accept"), 0,
            "the listener was polled while connection {id} was still in flight: {l:?}");
        // ... and the connection goes to the executor right after it was built
        assert!(l[pos(&l, &format!("serve {id}")) + 1].starts_with("execute"), "connection {id} was not handed to the executor: {l:?}");
    }
    assert!(pos(&l, "serve 1") < pos(&l, "serve 2") && pos(&l, "serve 2") < pos(&l, "serve 3"));
    assert_eq!(rig.spawned.borrow().len(), 3, "every accepted connection is spawned exactly once");
    assert_eq!(l.iter().filter(|e| e.starts_with("makepoll 2")).count(), 4);
    assert!(rig.steps.borrow().is_empty());
}

/// so.pending / so.wrapped [C09,C07]: `poll_once` step by step.
#[test]
fn poll_once_steps() {
    let (rig, mut serving) = mk_rig(vec![Step::Conn(7)], &[(7, (1, true))], false, vec![]);
    let waker = futures_util::task::noop_waker();
    let mut cx = Context::from_waker(&waker);
    assert!(matches!(serving.as_mut().poll_once(&mut cx), Poll::Ready(Ok(None))));      // Preparing -> Accepting
    assert!(matches!(serving.state, State::Accepting));
    assert!(matches!(serving.as_mut().poll_once(&mut cx), Poll::Ready(Ok(None))));      // accepted, Making
    assert!(matches!(serving.state, State::Making { .. }));
    assert!(serving.as_mut().poll_once(&mut cx).is_pending());                           // make future pending
    assert!(matches!(serving.state, State::Making { ref stream, .. } if stream.id == 7), "the connection in flight was lost");
    assert_eq!(count(&log(), "accept"), 1, "the listener was polled while a connection was in flight");
    match serving.as_mut().poll_once(&mut cx) {
        Poll::Ready(Ok(Some(conn))) => assert_eq!(conn.inner().id, 7),
        _ => panic!("expected the connection future for connection 7: {:?}", log()),
    }
    assert!(matches!(serving.state, State::Preparing));
    assert!(rig.evs.borrow().is_empty(), "so.fresh: the returned connection was already polled or told something");
    assert_eq!(rig.spawned.borrow().len(), 0, "poll_once must not spawn by itself");
}

/// so.fresh [C07]: a connection reaches the executor un-polled and un-told.
#[test]
fn spawned_connection_is_fresh() {
    let (rig, mut serving) = mk_rig(vec![Step::Conn(1), Step::Conn(2)], &[], false, vec![]);
    assert!(poll_now(serving.as_mut()).is_pending());
    assert_eq!(count(&log(), "execute after 0 connection events"), 2, "{:?}", log());
    assert!(rig.evs.borrow().is_empty());
}

/// so.err_only / so.listener_loss_reported / sv.err_only / sv.never_ok / se.* [C09]: what ends the serving future -
/// and what does not.
#[test]
fn serving_ends_only_for_listener_or_make_service() {
    // (a) connections whose own futures fail do not end it, later connections are still accepted and served
    let (rig, mut serving) = mk_rig(vec![Step::Conn(1), Step::Wait, Step::Conn(2), Step::Wait, Step::Conn(3)], &[], false, vec![1, 2]);
    for _ in 0..3 {
        assert!(poll_now(serving.as_mut()).is_pending(), "a failing connection ended the serving future");
        for d in rig.spawned.borrow_mut().iter_mut() { let _ = poll_now(d.as_mut()); }
    }
    assert_eq!(count(&log(), "serve 3"), 1);
    // (b) the loss of the listener does, as ServerError::Accept
    let (_rig, mut serving) = mk_rig(vec![Step::Conn(1), Step::Lost], &[], false, vec![]);
    match poll_now(serving.as_mut()) {
        Poll::Ready(Err(ServerError::Accept(_))) => {}
        other => panic!("so.listener_loss_reported: expected Ready(Err(Accept)), got {other:?}"),
    }
    assert_eq!(count(&log(), "serve 1"), 1, "the connection accepted before the loss must still have been served");
    // (c) a failing make-service future does, as ServerError::MakeService
    let (_rig, mut serving) = mk_rig(vec![Step::Conn(1)], &[(1, (1, false))], false, vec![]);
    assert!(poll_now(serving.as_mut()).is_pending());
    match poll_now(serving.as_mut()) {
        Poll::Ready(Err(ServerError::MakeService(_))) => {}
        other => panic!("expected Ready(Err(MakeService)), got {other:?}"),
    }
    // (d) a failing readiness check does, as ServerError::MakeService, before anything is accepted
    let (_rig, mut serving) = mk_rig(vec![Step::Conn(1)], &[], true, vec![]);
    match poll_now(serving.as_mut()) {
        Poll::Ready(Err(ServerError::MakeService(_))) => {}
        other => panic!("expected Ready(Err(MakeService)), got {other:?}"),
    }
    assert_eq!(count(&log(), "accept"), 0);
}

/// so.conserve / sv.conserve [C09]: whatever happens to the make-service, a connection the listener handed out is
/// either served or still held when the serving future stops (with the make-service error) - it never vanishes
/// while the server carries on.
#[test]
fn accepted_connection_is_never_dropped() {
    let (rig, mut serving) = mk_rig(vec![Step::Conn(1), Step::Conn(2)], &[(1, (1, false))], false, vec![]);
    let mut ended = false;
    for _ in 0..6 {
        if let Poll::Ready(r) = poll_now(serving.as_mut()) {
            assert!(matches!(r, Err(ServerError::MakeService(_))), "unexpected end: {r:?}");
            ended = true;
            break;
        }
    }
    let l = log();
    if ended {
        assert!(matches!(serving.state, State::Making { ref stream, .. } if stream.id == 1), "the connection in flight is gone");
        assert_eq!(count(&l, "accepted 2"), 0);
    } else {
        assert_eq!(count(&l, "serve 1"), 1, "connection 1 was accepted and then dropped while the server carried on: {l:?}");
    }
    assert_eq!(rig.spawned.borrow().len(), count(&l, "serve 1") + count(&l, "serve 2"));
}

/// ad.polls_once / ad.err_is_inner / ad.pending_is_inner / ad.same_conn [C09] (unit `acceptor`): the `Acceptor` dispatch
/// polls the wrapped acceptor once per call and passes its outcome through - no error added, none hidden.
#[test]
fn acceptor_dispatch_passes_through() {
    use crate::server::conn::Acceptor;
    clear();
    let steps = Rc::new(RefCell::new(vec![Step::Wait, Step::Conn(5), Step::Lost, Step::Conn(6)].into_iter().collect::<VecDeque<_>>()));
    let mut acc = Box::pin(Acceptor::new(Scripted(steps.clone())));
    let waker = futures_util::task::noop_waker();
    let mut cx = Context::from_waker(&waker);
    assert!(acc.as_mut().poll_accept(&mut cx).is_pending(), "ad.pending_is_inner");
    assert_eq!(count(&log(), "accept"), 1, "ad.polls_once");
    match acc.as_mut().poll_accept(&mut cx) {
        Poll::Ready(Ok(s)) => assert_eq!(s.info().remote_addr().to_string(), tagged(0).info().remote_addr().to_string()),
        _ => panic!("ad.same_conn: the accepted connection was not handed on"),
    }
    assert_eq!(count(&log(), "accept"), 2, "ad.polls_once");
    assert!(matches!(acc.as_mut().poll_accept(&mut cx), Poll::Ready(Err(_))), "ad.err_is_inner: the listener's error was hidden");
    assert_eq!(count(&log(), "accept"), 3, "ad.polls_once");
    assert!(matches!(acc.as_mut().poll_accept(&mut cx), Poll::Ready(Ok(_))), "ad.err_is_inner: an error was made up");
    assert_eq!(count(&log(), "accept"), 4, "ad.polls_once");
    assert_eq!(count(&log(), "accepted 5") + count(&log(), "accepted 6"), 2);
}
