// Replay templates for the unit `upgradable` (C08, C07, C09): concrete scenarios against the REAL
// `UpgradableConnection::{poll, graceful_shutdown}` of src/server/conn/auto.rs with real hyper connections.
// Compiled inside `crate::server::conn::auto::verif_replays_upgradable` (feature verif-hooks, test builds).
use super::*;
use std::collections::VecDeque;
use std::pin::Pin;
use std::sync::{Arc, Mutex};
use std::task::{Context, Poll, Waker};

use hyper::rt::{Read, ReadBufCursor, Write};

use crate::bridge::rt::TokioExecutor;
use crate::server::conn::{Connection, ConnectionError};

const PREFACE: &[u8] = b"PRI * HTTP/2.0\r\n\r\nSM\r\n\r\n";
const SETTINGS: &[u8] = &[0, 0, 0, 4, 0, 0, 0, 0, 0];
const GET: &[u8] = b"GET / HTTP/1.1\r\nhost: example.com\r\n\r\n";

#[derive(Default)]
struct Shared { chunks: VecDeque<Vec<u8>>, eof: bool, written: Vec<u8> }
/// the server side of a scripted transport: reads deliver the queued chunks one per call (`Pending` when the
/// queue is empty, end-of-stream once `eof`), writes are collected
#[derive(Clone)]
struct Pipe(Arc<Mutex<Shared>>);
impl Pipe {
    fn new(data: &[u8], chunk: usize) -> Pipe {
        let p = Pipe(Arc::new(Mutex::new(Shared::default())));
        p.feed(data, chunk);
        p
    }
    fn feed(&self, data: &[u8], chunk: usize) {
        let mut s = self.0.lock().unwrap();
        for c in data.chunks(chunk.max(1)) { s.chunks.push_back(c.to_vec()); }
    }
    fn written(&self) -> Vec<u8> { self.0.lock().unwrap().written.clone() }
}
impl Read for Pipe {
    fn poll_read(self: Pin<&mut Self>, _cx: &mut Context<'_>, mut buf: ReadBufCursor<'_>) -> Poll<std::io::Result<()>> {
        let mut s = self.0.lock().unwrap();
        match s.chunks.pop_front() {
            None => if s.eof { Poll::Ready(Ok(())) } else { Poll::Pending },
            Some(mut c) => {
                let n = c.len().min(buf.remaining());
                buf.put_slice(&c[..n]);
                if n < c.len() { let rest = c.split_off(n); s.chunks.push_front(rest); }
                Poll::Ready(Ok(()))
            }
        }
    }
}
impl Write for Pipe {
    fn poll_write(self: Pin<&mut Self>, _cx: &mut Context<'_>, buf: &[u8]) -> Poll<std::io::Result<usize>> {
        self.0.lock().unwrap().written.extend_from_slice(buf);
        Poll::Ready(Ok(buf.len()))
    }
    fn poll_flush(self: Pin<&mut Self>, _cx: &mut Context<'_>) -> Poll<std::io::Result<()>> { Poll::Ready(Ok(())) }
    fn poll_shutdown(self: Pin<&mut Self>, _cx: &mut Context<'_>) -> Poll<std::io::Result<()>> { Poll::Ready(Ok(())) }
}

async fn hello(_req: http::Request<hyper::body::Incoming>) -> Result<http::Response<crate::Body>, std::convert::Infallible> {
    Ok(http::Response::new(crate::Body::from("hello")))
}

fn cx() -> Context<'static> { Context::from_waker(Waker::noop()) }

/// the frame types (RFC 9113 section 4.1: 9-byte header, 24-bit length, 8-bit type) in a server-to-client byte stream
fn frame_types(mut b: &[u8]) -> Vec<u8> {
    let mut res = Vec::new();
    while b.len() >= 9 {
        let len = ((b[0] as usize) << 16) | ((b[1] as usize) << 8) | b[2] as usize;
        res.push(b[3]);
        if b.len() < 9 + len { break; }
        b = &b[9 + len..];
    }
    res
}

macro_rules! poll_n {
    ($conn:expr, $n:expr) => {{
        let mut last = Poll::Pending;
        for _ in 0..$n {
            last = $conn.as_mut().poll(&mut cx());
            tokio::task::yield_now().await;
            if last.is_ready() { break; }
        }
        last
    }};
}

/// up.dispatch / up.forward_only / up.sniffing / up.drives / up.new [C08]: the protocol connection is the one the
/// sniffer decided on and it sees every byte the client sent, however the bytes are cut.
#[tokio::test]
async fn up_dispatch_follows_sniffer() {
    let h2: Vec<u8> = [PREFACE, SETTINGS].concat();
    let almost: &[u8] = b"PRI * HTTP/1.1\r\nhost: example.com\r\n\r\n";
    for chunk in [1usize, 5, 24, 4096] {
        for (bytes, want_h2) in [(GET, false), (&h2[..], true), (almost, false)] {
            let builder = Builder::new(TokioExecutor::new());
            let pipe = Pipe::new(bytes, chunk);
            let mut conn = Box::pin(builder.serve_connection_with_upgrades(pipe.clone(), hyper::service::service_fn(hello)));
            assert!(matches!(conn.state, ConnectionState::ReadVersion { ref service, .. } if service.is_some()), "up.new");
            let mut polls = 0;
            while matches!(conn.state, ConnectionState::ReadVersion { .. }) {
                let r = conn.as_mut().poll(&mut cx());
                assert!(!matches!(r, Poll::Ready(Ok(()))), "up.sniffing: completed successfully while still sniffing");
                polls += 1;
                assert!(polls < 200, "the sniffer never decided (chunk {chunk})");
            }
            assert_eq!(matches!(conn.state, ConnectionState::Http2(_)), want_h2, "up.dispatch: wrong protocol connection (chunk {chunk}, bytes {:?})", String::from_utf8_lossy(bytes));
            assert_eq!(matches!(conn.state, ConnectionState::Http1(_)), !want_h2);
            let _ = poll_n!(conn, 50);
            // forward only: the chosen connection stays
            assert_eq!(matches!(conn.state, ConnectionState::Http2(_)), want_h2, "up.forward_only");
            let out = pipe.written();
            if want_h2 {
                assert_eq!(frame_types(&out).first(), Some(&4u8), "the h2 connection did not answer the client's preface with SETTINGS (chunk {chunk}): {out:?}");
            } else if bytes == GET {
                assert!(out.starts_with(b"HTTP/1.1 200"), "the h1 connection did not see the request the client sent (chunk {chunk}): {:?}", String::from_utf8_lossy(&out));
                assert!(out.ends_with(b"hello"));
            } else {
                assert!(out.starts_with(b"HTTP/1.1 "), "the h1 connection did not answer (chunk {chunk}): {:?}", String::from_utf8_lossy(&out));
            }
        }
    }
}

/// up.gs.cancel / up.gs.idempotent / up.cancelled_ends [C07]: graceful shutdown before the protocol is known.
#[tokio::test]
async fn up_graceful_shutdown_while_sniffing() {
    let builder = Builder::new(TokioExecutor::new());
    let pipe = Pipe::new(b"PRI * HT", 3);
    let mut conn = Box::pin(builder.serve_connection_with_upgrades(pipe.clone(), hyper::service::service_fn(hello)));
    assert!(conn.as_mut().poll(&mut cx()).is_pending());
    let filled = match &conn.state { ConnectionState::ReadVersion { read_version, .. } => { assert!(!read_version.cancelled); read_version.filled }, _ => panic!("not sniffing") };
    assert_eq!(filled, 8);
    for round in 0..2 {
        conn.as_mut().graceful_shutdown();
        match &conn.state {
            ConnectionState::ReadVersion { read_version, service, .. } => {
                assert!(read_version.cancelled, "up.gs.cancel: the sniff was not cancelled (round {round})");
                assert_eq!(read_version.filled, filled, "up.gs.cancel: frame");
                assert!(read_version.io.is_some() && service.is_some(), "up.gs.cancel: frame");
            }
            _ => panic!("graceful_shutdown left the sniffing state"),
        }
    }
    match conn.as_mut().poll(&mut cx()) {
        Poll::Ready(Err(ConnectionError::Protocol(e))) => assert_eq!(e.kind(), std::io::ErrorKind::Interrupted),
        other => panic!("up.cancelled_ends: expected Ready(Err(Protocol(Interrupted))), got {other:?}"),
    }
    assert!(matches!(conn.state, ConnectionState::ReadVersion { .. }));
    assert!(pipe.written().is_empty());
}

/// up.gs.forward [C07]: with the protocol chosen, graceful_shutdown reaches hyper's connection.
#[tokio::test]
async fn up_graceful_shutdown_is_forwarded() {
    // HTTP/1: an idle keep-alive connection is closed by hyper once told
    let builder = Builder::new(TokioExecutor::new());
    let pipe = Pipe::new(GET, 4096);
    let mut conn = Box::pin(builder.serve_connection_with_upgrades(pipe.clone(), hyper::service::service_fn(hello)));
    assert!(poll_n!(conn, 20).is_pending(), "keep-alive: the connection stays open after the first exchange");
    assert!(pipe.written().starts_with(b"HTTP/1.1 200"));
    conn.as_mut().graceful_shutdown();
    assert!(matches!(conn.state, ConnectionState::Http1(_)));
    match poll_n!(conn, 20) {
        Poll::Ready(Ok(())) => {}
        other => panic!("up.gs.forward: the idle h1 connection was not closed after graceful_shutdown: {other:?}"),
    }
    // HTTP/2: hyper announces the shutdown with GOAWAY
    let builder = Builder::new(TokioExecutor::new());
    let pipe = Pipe::new(&[PREFACE, SETTINGS].concat(), 4096);
    let mut conn = Box::pin(builder.serve_connection_with_upgrades(pipe.clone(), hyper::service::service_fn(hello)));
    assert!(poll_n!(conn, 20).is_pending());
    assert!(!frame_types(&pipe.written()).contains(&7u8));
    conn.as_mut().graceful_shutdown();
    assert!(matches!(conn.state, ConnectionState::Http2(_)));
    let _ = poll_n!(conn, 20);
    assert!(frame_types(&pipe.written()).contains(&7u8), "up.gs.forward: no GOAWAY after graceful_shutdown: {:?}", frame_types(&pipe.written()));
}

/// up.err_confined / up.nopanic / up.inv [C09]: garbage, truncation and an immediate disconnect are results of this
/// future (`Err` or a clean end), never a panic; sniffing errors come out as `Protocol`, hyper's as `Hyper`.
#[tokio::test]
async fn up_errors_are_this_futures_result() {
    for (bytes, chunk) in [(&b"\x00\x01\x02garbage\r\n\r\n"[..], 4096usize), (&b"PRI * HTTP/2.0\r\n\r\nSM\r\n\r\nnot-a-frame-at-all-but-long-enough"[..], 7), (&b""[..], 1), (&b"GET / HT"[..], 2)] {
        let builder = Builder::new(TokioExecutor::new());
        let pipe = Pipe::new(bytes, chunk);
        pipe.0.lock().unwrap().eof = true;
        let mut conn = Box::pin(builder.serve_connection_with_upgrades(pipe.clone(), hyper::service::service_fn(hello)));
        match poll_n!(conn, 100) {
            Poll::Ready(Ok(())) => {}
            Poll::Ready(Err(ConnectionError::Hyper(_))) => assert!(!matches!(conn.state, ConnectionState::ReadVersion { .. }), "a hyper error while still sniffing"),
            Poll::Ready(Err(ConnectionError::Protocol(_))) => assert!(matches!(conn.state, ConnectionState::ReadVersion { .. }), "a sniffing error after the protocol was chosen"),
            other => panic!("bytes {:?}: expected the future to finish, got {other:?}", String::from_utf8_lossy(bytes)),
        }
    }
}
