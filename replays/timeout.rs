// Replay templates and bounded stand-ins for unit `timeout` (property C19), compiled inside
// `crate::service::timeout::verif_replays` (features verif-hooks + mocks + client, test builds) against the REAL crate.
//
// Time: tokio's `test-util` feature is not enabled, so there is no virtual clock.  Every check that involves time is
// one-sided and independent of machine load:
//   * "never early": measured with std::time::Instant from BEFORE the call (timers never fire early);
//   * "by the deadline": a race against a REFERENCE timer of 1.75 x the configured duration created AFTER the call, in
//     the same task (`select!`, biased towards the future under test).  Both timers sit in the same timer wheel and
//     are driven by the same thread, so however late the machine is, the earlier deadline is seen first;
//   * "expired" without relying on a wake-up: the task sleeps past the deadline (so the runtime's timer driver has seen
//     the clock pass it), then polls by hand.
use super::*;
use std::collections::VecDeque;
use std::future::Future;
use std::pin::Pin;
use std::sync::atomic::{AtomicBool, AtomicUsize, Ordering};
use std::sync::{Arc, Mutex};
use std::task::{Context, Poll};
use std::time::Instant;
use tower::layer::Layer as _;
use tower::Service as _;

#[derive(Debug, Clone, PartialEq, Eq)]
enum TErr {
    /// what the configured error function returns
    TimedOut,
    /// an error of the inner service
    Inner(&'static str),
}
fn timed_out() -> TErr { TErr::TimedOut }

const LONG: Duration = Duration::from_secs(3600);

// ---------------------------------------------------------------------------------------------------------------
// scripted inner future / inner service
// ---------------------------------------------------------------------------------------------------------------
#[derive(Default, Debug)]
struct Probe { polls: AtomicUsize, dropped: AtomicBool, completed: AtomicBool }

/// yields the scripted poll results in order, then `Pending` for ever; wakes itself so that an executor polls again
struct Scripted { script: VecDeque<Poll<Result<u32, TErr>>>, probe: Arc<Probe>, wake: bool }
impl Scripted {
    fn new(script: Vec<Poll<Result<u32, TErr>>>) -> (Self, Arc<Probe>) {
        let probe = Arc::new(Probe::default());
        (Self { script: script.into(), probe: probe.clone(), wake: false }, probe)
    }
}
impl Future for Scripted {
    type Output = Result<u32, TErr>;
    fn poll(mut self: Pin<&mut Self>, cx: &mut Context<'_>) -> Poll<Self::Output> {
        assert!(!self.probe.completed.load(Ordering::SeqCst), "inner future polled again after it had completed");
        self.probe.polls.fetch_add(1, Ordering::SeqCst);
        match self.script.pop_front() {
            Some(Poll::Ready(x)) => { self.probe.completed.store(true, Ordering::SeqCst); Poll::Ready(x) }
            _ => { if self.wake { cx.waker().wake_by_ref(); } Poll::Pending }
        }
    }
}
impl Drop for Scripted {
    fn drop(&mut self) { self.probe.dropped.store(true, Ordering::SeqCst); }
}

/// completes with `Ok(value)` after `after` (never, if None); records completion and drop
struct Timed { sleep: Option<Pin<Box<tokio::time::Sleep>>>, value: u32, probe: Arc<Probe> }
impl Future for Timed {
    type Output = Result<u32, TErr>;
    fn poll(mut self: Pin<&mut Self>, cx: &mut Context<'_>) -> Poll<Self::Output> {
        self.probe.polls.fetch_add(1, Ordering::SeqCst);
        let v = self.value;
        match self.sleep.as_mut() {
            None => Poll::Pending,
            Some(s) => match s.as_mut().poll(cx) {
                Poll::Ready(()) => { self.probe.completed.store(true, Ordering::SeqCst); Poll::Ready(Ok(v)) }
                Poll::Pending => Poll::Pending,
            },
        }
    }
}
impl Drop for Timed {
    fn drop(&mut self) { self.probe.dropped.store(true, Ordering::SeqCst); }
}

type ReadyScript = Arc<Mutex<VecDeque<Poll<Result<(), TErr>>>>>;
/// inner service: counts calls and readiness polls, records the requests it was given
#[derive(Clone, Default)]
struct Recorder {
    calls: Arc<AtomicUsize>,
    ready_polls: Arc<AtomicUsize>,
    requests: Arc<Mutex<Vec<u32>>>,
    ready: ReadyScript,
    /// what the futures it returns do: completes after .. / never
    after: Option<Duration>,
    probes: Arc<Mutex<Vec<Arc<Probe>>>>,
}
impl tower::Service<u32> for Recorder {
    type Response = u32;
    type Error = TErr;
    type Future = Timed;
    fn poll_ready(&mut self, _cx: &mut Context<'_>) -> Poll<Result<(), TErr>> {
        self.ready_polls.fetch_add(1, Ordering::SeqCst);
        self.ready.lock().unwrap().pop_front().unwrap_or(Poll::Ready(Ok(())))
    }
    fn call(&mut self, req: u32) -> Timed {
        self.calls.fetch_add(1, Ordering::SeqCst);
        self.requests.lock().unwrap().push(req);
        let probe = Arc::new(Probe::default());
        self.probes.lock().unwrap().push(probe.clone());
        Timed { sleep: self.after.map(|d| Box::pin(tokio::time::sleep(d))), value: req + 1000, probe }
    }
}

fn noop_cx() -> Context<'static> {
    Context::from_waker(futures_util::task::noop_waker_ref())
}
fn mk(inner: Scripted, d: Duration) -> Pin<Box<future::TimeoutFuture<Scripted, u32, TErr>>> {
    Box::pin(future::TimeoutFuture::new(inner, Box::new(timed_out as fn() -> TErr), d))
}
/// a timeout future whose timer has certainly expired and has not been polled yet (the runtime's timer driver has seen
/// the clock pass the deadline: the task itself sleeps past it)
async fn mk_expired(inner: Scripted) -> Pin<Box<future::TimeoutFuture<Scripted, u32, TErr>>> {
    let f = mk(inner, Duration::from_millis(15));
    tokio::time::sleep(Duration::from_millis(60)).await;
    f
}

// ---------------------------------------------------------------------------------------------------------------
// replay templates (one obligation family each)
// ---------------------------------------------------------------------------------------------------------------

/// to.inner_first [C19]: the inner future is polled first in every poll and a Ready result is handed on UNCHANGED -
/// also when the timer has already expired (inner wins ties), for Ok and for Err, for duration zero
#[tokio::test]
async fn inner_first_wins_ties() {
    for zero in [false, true] {
        for res in [Ok(7u32), Err(TErr::Inner("boom"))] {
            let (inner, probe) = Scripted::new(vec![Poll::Ready(res.clone())]);
            let mut f = if zero { let f = mk(inner, Duration::ZERO); tokio::time::sleep(Duration::from_millis(20)).await; f } else { mk_expired(inner).await };
            let got = f.as_mut().poll(&mut noop_cx());
            assert_eq!(got, Poll::Ready(res.clone()),
                "inner future was Ready({res:?}) in the poll in which the timer had expired (zero={zero}): its result must be returned unchanged");
            assert_eq!(probe.polls.load(Ordering::SeqCst), 1, "inner future polled {} times in one poll", probe.polls.load(Ordering::SeqCst));
        }
    }
    // timer far away: first Pending, then the inner result, unchanged; the inner future is polled once per poll
    for res in [Ok(9u32), Err(TErr::Inner("late"))] {
        let (inner, probe) = Scripted::new(vec![Poll::Pending, Poll::Pending, Poll::Ready(res.clone())]);
        let mut f = mk(inner, LONG);
        assert!(f.as_mut().poll(&mut noop_cx()).is_pending());
        assert!(f.as_mut().poll(&mut noop_cx()).is_pending());
        assert_eq!(probe.polls.load(Ordering::SeqCst), 2, "inner future not polled exactly once per poll");
        assert_eq!(f.as_mut().poll(&mut noop_cx()), Poll::Ready(res.clone()));
        assert_eq!(probe.polls.load(Ordering::SeqCst), 3);
    }
}

/// to.expiry [C19]: inner Pending + timer expired -> exactly Err(error()); inner Pending + timer not expired -> Pending,
/// nothing made up, both futures kept (the same inner future is polled again next time, and still once per poll)
#[tokio::test]
async fn expiry_gives_configured_error() {
    let (inner, probe) = Scripted::new(vec![]);
    let mut f = mk_expired(inner).await;
    assert_eq!(f.as_mut().poll(&mut noop_cx()), Poll::Ready(Err(TErr::TimedOut)),
        "timer expired while the inner future is Pending: the result must be Err of the configured error function");
    assert_eq!(probe.polls.load(Ordering::SeqCst), 1, "the inner future must be asked (once) before the timer decides");
    // not expired: Pending, again and again, inner polled once per poll, then the inner result gets through
    let (inner, probe) = Scripted::new(vec![Poll::Pending, Poll::Pending, Poll::Pending, Poll::Ready(Ok(3))]);
    let mut f = mk(inner, LONG);
    for k in 1..=3 {
        assert!(f.as_mut().poll(&mut noop_cx()).is_pending(), "a result was made up although neither the inner future nor the timer was Ready");
        assert_eq!(probe.polls.load(Ordering::SeqCst), k);
        assert!(!probe.dropped.load(Ordering::SeqCst), "inner future dropped / replaced while the timeout future is Pending");
    }
    assert_eq!(f.as_mut().poll(&mut noop_cx()), Poll::Ready(Ok(3)));
    // Pending first, expiry later: the error arrives through the timer's wake-up, never before the duration
    let (inner, _probe) = Scripted::new(vec![]);
    let d = Duration::from_millis(50);
    let t0 = Instant::now();
    let f = mk(inner, d);
    let r = tokio::time::timeout(Duration::from_secs(20), f).await.expect("the timeout future never resolved although its timer (50 ms) must have fired");
    assert_eq!(r, Err(TErr::TimedOut));
    assert!(t0.elapsed() >= d, "resolved with the timeout error after {:?}, before the configured {d:?}", t0.elapsed());
}

/// to.poll.stays_live / to.poll.no_panic [C19]: while Pending the future can be polled again (neither future has been
/// polled to completion behind the caller's back); many polls, no panic
#[tokio::test]
async fn pending_stays_pollable() {
    let (mut inner, probe) = Scripted::new((0..50).map(|_| Poll::Pending).chain([Poll::Ready(Ok(1))]).collect());
    inner.wake = true;
    let f = mk(inner, LONG);
    let r = tokio::time::timeout(Duration::from_secs(20), f).await.expect("never resolved");
    assert_eq!(r, Ok(1));
    assert_eq!(probe.polls.load(Ordering::SeqCst), 51);
}

/// to.new.* [C19]: the timer runs from creation (not from the first poll) for the given duration; the inner future and
/// the error function are the ones given
#[tokio::test]
async fn new_timer_runs_from_creation() {
    // created, left alone past the deadline, then polled for the first time: already expired
    let (inner, probe) = Scripted::new(vec![]);
    let mut f = mk_expired(inner).await;
    assert_eq!(f.as_mut().poll(&mut noop_cx()), Poll::Ready(Err(TErr::TimedOut)),
        "the timer did not run from the creation of the future (first poll 60 ms after creation with a 15 ms timeout)");
    assert_eq!(probe.polls.load(Ordering::SeqCst), 1, "`new` did not take over the inner future it was given");
    // the given duration, not a shorter one: one hour is Pending
    let (inner, _p) = Scripted::new(vec![]);
    let mut f = mk(inner, LONG);
    tokio::time::sleep(Duration::from_millis(30)).await;
    assert!(f.as_mut().poll(&mut noop_cx()).is_pending(), "a one-hour timeout fired within 30 ms");
    // not a longer one: see `standin_deadline` (reference-timer race)
}

/// to.deadline_wiring / to.call.* [C19]: `call` passes the caller's request to the inner service exactly once, creates
/// the timer at call time with exactly the configured duration, uses the configured error function, and leaves the
/// configuration as it was (a second request gets the same treatment)
#[tokio::test]
async fn call_wiring() {
    let rec = Recorder::default(); // inner futures never complete
    let d = Duration::from_millis(40);
    let mut svc = TimeoutLayer::new(timed_out, d).layer(rec.clone());
    for (k, req) in [41u32, 42, 43].into_iter().enumerate() {
        let t0 = Instant::now();
        let mut f = Box::pin(svc.call(req));
        assert_eq!(rec.calls.load(Ordering::SeqCst), k + 1, "the inner service was not called exactly once per request");
        assert_eq!(*rec.requests.lock().unwrap().last().unwrap(), req, "the inner service got another request than the caller's");
        // the deadline counts from `call`, not from the first poll
        tokio::time::sleep(d + Duration::from_millis(40)).await;
        let first = f.as_mut().poll(&mut noop_cx());
        assert_eq!(first, Poll::Ready(Err(TErr::TimedOut)),
            "first poll {:?} after `call` with a {d:?} timeout: the timer must have been created at call time, for the configured duration", t0.elapsed());
        assert_eq!(svc.timeout, d, "a request changed the configured duration");
    }
    // a request that is answered in time gets the inner service's own answer
    let mut rec2 = Recorder::default();
    rec2.after = Some(Duration::from_millis(5));
    let mut svc = TimeoutLayer::new(timed_out, LONG).layer(rec2.clone());
    let r = tokio::time::timeout(Duration::from_secs(20), svc.call(5)).await.expect("never resolved");
    assert_eq!(r, Ok(1005));
    assert_eq!(rec2.calls.load(Ordering::SeqCst), 1);
}

/// to.ready_is_inner / to.ready_frame [C19]: `poll_ready` is the inner service's - asked once, answer handed on unchanged
#[tokio::test]
async fn poll_ready_is_inner() {
    let rec = Recorder::default();
    *rec.ready.lock().unwrap() = vec![Poll::Pending, Poll::Ready(Err(TErr::Inner("not ready"))), Poll::Ready(Ok(()))].into();
    let d = Duration::from_millis(77);
    let mut svc = TimeoutLayer::new(timed_out, d).layer(rec.clone());
    assert_eq!(svc.poll_ready(&mut noop_cx()), Poll::Pending);
    assert_eq!(svc.poll_ready(&mut noop_cx()), Poll::Ready(Err(TErr::Inner("not ready"))));
    assert_eq!(svc.poll_ready(&mut noop_cx()), Poll::Ready(Ok(())));
    assert_eq!(rec.ready_polls.load(Ordering::SeqCst), 3, "the inner service's readiness was not asked exactly once per poll_ready");
    assert_eq!(rec.calls.load(Ordering::SeqCst), 0);
    assert_eq!(svc.timeout, d);
    assert_eq!((svc.error)(), TErr::TimedOut);
}

/// to.layer* / to.service_new.* / to.service_clone.* / to.layer_clone.* / to.layer_new.* [C19]: duration and error
/// function travel unchanged from `TimeoutLayer::new` through `layer` / `Timeout::new` / both `clone`s
#[test]
fn config_is_carried_unchanged() {
    fn other() -> TErr { TErr::Inner("other") }
    for (d, e, want) in [(Duration::from_millis(1234), timed_out as fn() -> TErr, TErr::TimedOut), (Duration::ZERO, other as fn() -> TErr, TErr::Inner("other")),
                         (Duration::from_secs(30), timed_out as fn() -> TErr, TErr::TimedOut), (Duration::MAX, other as fn() -> TErr, TErr::Inner("other"))] {
        let layer = TimeoutLayer::new(e, d);
        assert_eq!(layer.timeout, d, "TimeoutLayer::new changed the duration");
        assert_eq!((layer.error)(), want, "TimeoutLayer::new changed the error function");
        let layer2 = layer.clone();
        assert_eq!(layer2.timeout, d, "TimeoutLayer::clone changed the duration");
        assert_eq!((layer2.error)(), want);
        let rec = Recorder::default();
        let svc = layer2.layer(rec.clone());
        assert_eq!(svc.timeout, d, "`layer` did not give the service the layer's duration");
        assert_eq!((svc.error)(), want, "`layer` did not give the service the layer's error function");
        assert!(Arc::ptr_eq(&svc.inner.calls, &rec.calls), "`layer` did not wrap the service it was given");
        let svc2 = svc.clone();
        assert_eq!(svc2.timeout, d, "Timeout::clone changed the duration");
        assert_eq!((svc2.error)(), want);
        assert!(Arc::ptr_eq(&svc2.inner.calls, &rec.calls), "Timeout::clone did not clone the inner service");
        let svc3 = Timeout::new(rec.clone(), d, Box::new(e));
        assert_eq!(svc3.timeout, d);
        assert_eq!((svc3.error)(), want);
        assert!(Arc::ptr_eq(&svc3.inner.calls, &rec.calls));
    }
}

// ---------------------------------------------------------------------------------------------------------------
// A.timeout.deadline: the TIME clauses of C19 through the public `Timeout` service (bounded, real time)
// ---------------------------------------------------------------------------------------------------------------
#[derive(Debug)]
struct Outcome { result: Result<u32, TErr>, took: Duration, beat_reference: bool, probe: Arc<Probe> }

/// one request through `TimeoutLayer::new(timed_out, d).layer(inner)`; the inner future completes after `after`
async fn one_request(d: Duration, after: Option<Duration>, reference: Duration) -> Outcome {
    let mut rec = Recorder::default();
    rec.after = after;
    let mut svc = TimeoutLayer::new(timed_out, d).layer(rec.clone());
    std::future::poll_fn(|cx| svc.poll_ready(cx)).await.unwrap();
    let t0 = Instant::now();
    let fut = svc.call(1);
    let refer = tokio::time::sleep(reference); // created AFTER the request's own timer
    let (result, beat_reference) = tokio::select! {
        biased;
        r = fut => (r, true),
        _ = refer => (Err(TErr::Inner("REFERENCE TIMER FIRED FIRST")), false),
    };
    let took = t0.elapsed();
    let probe = rec.probes.lock().unwrap()[0].clone();
    Outcome { result, took, beat_reference, probe }
}

/// A.timeout.deadline [C19] (bounded stand-in for the real-time half of C19): through the public service, with an inner
/// service that completes before / long after / never, and with duration zero: the request resolves with the timeout
/// error not before the configured duration and before a reference timer of 1.75 x the duration; the inner result is
/// returned unchanged when it wins; at expiry the inner future is dropped and never completes afterwards.
#[tokio::test]
async fn standin_deadline() {
    let ms = Duration::from_millis;
    // ---- the inner service never answers / answers long after the deadline
    for d in [ms(40), ms(120), ms(400)] {
        for after in [None, Some(d * 5)] {
            let o = one_request(d, after, d * 7 / 4 + ms(10)).await;
            assert!(o.beat_reference, "timeout {d:?}, inner {after:?}: not resolved when a reference timer of 1.75 x the duration fired ({:?} after the call)", o.took);
            assert_eq!(o.result, Err(TErr::TimedOut), "timeout {d:?}, inner {after:?}: resolved with {:?} instead of the configured timeout error", o.result);
            assert!(o.took >= d, "timeout {d:?}, inner {after:?}: resolved after {:?}, EARLIER than the configured duration", o.took);
            assert!(o.probe.dropped.load(Ordering::SeqCst), "timeout {d:?}: the inner future is still alive after the request has resolved with the timeout error");
            if let Some(a) = after {
                tokio::time::sleep(a + ms(50)).await;
                assert!(!o.probe.completed.load(Ordering::SeqCst), "the timed-out inner work completed later");
            }
        }
    }
    // ---- the inner service answers first: its answer, unchanged, and well before the deadline
    for (d, after) in [(ms(400), ms(20)), (ms(1000), ms(100)), (Duration::from_secs(3600), ms(30))] {
        let o = one_request(d, Some(after), (after * 3).min(d * 3 / 4)).await;
        assert!(o.beat_reference, "inner answers after {after:?}, timeout {d:?}: the answer was held back ({:?})", o.took);
        assert_eq!(o.result, Ok(1001), "inner answers after {after:?}, timeout {d:?}: the inner result must be returned unchanged");
        assert!(o.took >= after);
    }
    // ---- duration zero: expires at once unless the inner future is Ready in the very first poll
    let o = one_request(Duration::ZERO, None, ms(150)).await;
    assert!(o.beat_reference, "duration zero: not resolved after 150 ms");
    assert_eq!(o.result, Err(TErr::TimedOut));
    let o = one_request(Duration::ZERO, Some(ms(200)), ms(150)).await;
    assert_eq!(o.result, Err(TErr::TimedOut), "duration zero, inner answers after 200 ms");
    assert!(o.probe.dropped.load(Ordering::SeqCst));
    let mut svc = TimeoutLayer::new(timed_out, Duration::ZERO).layer(tower::service_fn(|x: u32| std::future::ready(Ok::<u32, TErr>(x + 1))));
    assert_eq!(svc.call(1).await, Ok(2), "duration zero, inner Ready in the first poll: inner wins");
    // ---- inner answers AT the deadline (same duration, created right after): either outcome, but never early and never late
    for _ in 0..5 {
        let d = ms(60);
        let o = one_request(d, Some(d), d * 7 / 4 + ms(10)).await;
        assert!(o.beat_reference && o.took >= d, "tie: {o:?}");
        assert!(o.result == Ok(1001) || o.result == Err(TErr::TimedOut), "tie: {o:?}");
    }
}

// ---------------------------------------------------------------------------------------------------------------
// A.timeout.cleanup: a real pooled client under the timeout layer, the deadline firing in each stage
// ---------------------------------------------------------------------------------------------------------------
mod gate {
    use super::*;
    use crate::client::conn::connection::ConnectionError;
    use crate::client::conn::protocol::ProtocolRequest;
    use crate::client::conn::stream::mock::MockStream;
    use crate::client::conn::transport::mock::MockConnectionError;
    use crate::client::pool::{PoolableConnection, PoolableStream};
    use crate::BoxFuture;
    use tokio::sync::oneshot;

    /// what the next dial / handshake / request does
    #[allow(dead_code)]
    pub(super) enum Step {
        Now, Never, Gate(oneshot::Receiver<()>),
        /// stalls until told how it ends: `true` = goes through, `false` = fails with an error (sender gone: stalls for ever)
        Outcome(oneshot::Receiver<bool>),
    }
    #[derive(Default)]
    pub(super) struct ScriptInner {
        pub dials: VecDeque<Step>, pub handshakes: VecDeque<Step>, pub sends: VecDeque<Step>,
        pub dialled: usize, pub shaken: usize, pub sent: usize, pub answered: usize,
    }
    #[derive(Clone, Default)]
    pub(super) struct Script(pub Arc<Mutex<ScriptInner>>);
    /// `false`: the step fails
    async fn run(step: Option<Step>) -> bool {
        match step {
            None | Some(Step::Now) => true,
            Some(Step::Never) => std::future::pending::<bool>().await,
            Some(Step::Gate(rx)) => { if rx.await.is_err() { std::future::pending::<()>().await } true }
            Some(Step::Outcome(rx)) => match rx.await { Ok(ok) => ok, Err(_) => std::future::pending::<bool>().await },
        }
    }

    #[derive(Clone)]
    pub(super) struct GateTransport(pub Script);
    impl tower::Service<http::request::Parts> for GateTransport {
        type Response = MockStream;
        type Error = MockConnectionError;
        type Future = BoxFuture<'static, Result<MockStream, MockConnectionError>>;
        fn poll_ready(&mut self, _cx: &mut Context<'_>) -> Poll<Result<(), Self::Error>> { Poll::Ready(Ok(())) }
        fn call(&mut self, req: http::request::Parts) -> Self::Future {
            let step = { let mut s = self.0 .0.lock().unwrap(); s.dialled += 1; s.dials.pop_front() };
            let share = req.version == http::Version::HTTP_2;
            Box::pin(async move { if run(step).await { Ok(MockStream::new(share)) } else { Err(MockConnectionError) } })
        }
    }

    #[derive(Clone)]
    pub(super) struct GateProtocol(pub Script);
    impl tower::Service<ProtocolRequest<MockStream, crate::Body>> for GateProtocol {
        type Response = GateConn;
        type Error = ConnectionError;
        type Future = BoxFuture<'static, Result<GateConn, ConnectionError>>;
        fn poll_ready(&mut self, _cx: &mut Context<'_>) -> Poll<Result<(), Self::Error>> { Poll::Ready(Ok(())) }
        fn call(&mut self, req: ProtocolRequest<MockStream, crate::Body>) -> Self::Future {
            let step = { let mut s = self.0 .0.lock().unwrap(); s.shaken += 1; s.handshakes.pop_front() };
            let script = self.0.clone();
            Box::pin(async move {
                if !run(step).await { return Err(ConnectionError::Handshake("scripted handshake failure".into())); }
                Ok(GateConn { share: req.transport.can_share(), stream: req.transport, script })
            })
        }
    }

    /// a connection that honours the `PoolableConnection` contract (`reuse` only when shareable)
    #[derive(Debug)]
    pub(super) struct GateConn { share: bool, stream: MockStream, script: Script }
    impl std::fmt::Debug for Script { fn fmt(&self, f: &mut std::fmt::Formatter<'_>) -> std::fmt::Result { f.write_str("Script") } }
    impl crate::client::conn::Connection<crate::Body> for GateConn {
        type ResBody = crate::Body;
        type Error = std::io::Error;
        type Future = BoxFuture<'static, Result<http::Response<crate::Body>, std::io::Error>>;
        fn send_request(&mut self, request: http::Request<crate::Body>) -> Self::Future {
            let step = { let mut s = self.script.0.lock().unwrap(); s.sent += 1; s.sends.pop_front() };
            let script = self.script.clone();
            Box::pin(async move {
                if !run(step).await { return Err(std::io::Error::new(std::io::ErrorKind::Other, "scripted exchange failure")); }
                script.0.lock().unwrap().answered += 1;
                Ok(http::Response::new(request.into_body()))
            })
        }
        fn poll_ready(&mut self, _cx: &mut Context<'_>) -> Poll<Result<(), Self::Error>> { Poll::Ready(Ok(())) }
        fn version(&self) -> http::Version { if self.share { http::Version::HTTP_2 } else { http::Version::HTTP_11 } }
    }
    impl PoolableConnection<crate::Body> for GateConn {
        fn is_open(&self) -> bool { self.stream.is_open() }
        fn can_share(&self) -> bool { self.share }
        fn reuse(&mut self) -> Option<Self> {
            if self.share { Some(GateConn { share: true, stream: self.stream.clone(), script: self.script.clone() }) } else { None }
        }
    }

    pub(super) type Pooled = crate::client::ConnectionPoolService<GateTransport, GateProtocol,
        crate::service::client::RequestExecutor<crate::client::pool::Pooled<GateConn, crate::Body>, crate::Body>, crate::Body, crate::client::pool::UriKey>;
    pub(super) fn client(script: &Script, continue_after_preemption: bool, d: Duration) -> Timeout<Pooled, crate::client::Error> {
        let mut cfg = crate::client::pool::Config::default();
        cfg.idle_timeout = None;
        cfg.max_idle_per_host = 4;
        cfg.continue_after_preemption = continue_after_preemption;
        let pooled = crate::client::ConnectionPoolService::new(GateTransport(script.clone()), GateProtocol(script.clone()),
            crate::service::client::RequestExecutor::new(), cfg);
        TimeoutLayer::new(|| crate::client::Error::RequestTimeout, d).layer(pooled)
    }
    pub(super) fn request(version: http::Version) -> http::Request<crate::Body> {
        http::Request::builder().uri("http://origin.test/x").version(version).body(crate::Body::empty()).unwrap()
    }
}

#[derive(Clone, Copy, Debug, PartialEq)]
enum Stage { Dial, OthersDial, Handshake, Response }

/// what becomes of the stalled dial / handshake of the timed-out request AFTER the deadline has fired and the request
/// has been dropped (stages Dial and Handshake only)
#[derive(Clone, Copy, Debug, PartialEq)]
enum Late { Never, Succeeds, Fails }

/// One scenario: a request whose deadline fires in `stage`; afterwards (and after the stalled dial / handshake has
/// ended as `late` says) a follow-up request to the same origin, whose own dial / handshake / exchange would go through
/// at once, must succeed.  Returns a description of what went wrong.
async fn cleanup_scenario(stage: Stage, version: http::Version, continue_after_preemption: bool, late: Late) -> Result<(), String> {
    use gate::*;
    let d = Duration::from_millis(60);
    let script = Script::default();
    let what = if late == Late::Never { format!("[{stage:?}, {version:?}, continue_after_preemption={continue_after_preemption}]") }
        else { format!("[{stage:?}, {version:?}, continue_after_preemption={continue_after_preemption}, stalled {} {late:?} after the deadline]", if stage == Stage::Dial { "dial" } else { "handshake" }) };
    let mut cl = client(&script, continue_after_preemption, d);
    let mut other_gate = None;
    let mut other = None;
    let mut late_gate = None;
    {
        let mut s = script.0.lock().unwrap();
        match (stage, late) {
            (Stage::Dial, Late::Never) => s.dials.push_back(Step::Never),
            (Stage::Handshake, Late::Never) => s.handshakes.push_back(Step::Never),
            (Stage::Dial, _) | (Stage::Handshake, _) => {
                let (tx, rx) = tokio::sync::oneshot::channel();
                if stage == Stage::Dial { s.dials.push_back(Step::Outcome(rx)) } else { s.handshakes.push_back(Step::Outcome(rx)) }
                late_gate = Some(tx);
            }
            (_, Late::Succeeds | Late::Fails) => return Err(format!("{what} setup: `late` applies to the stages Dial and Handshake only")),
            (_, Late::Never) => {}
        }
        match stage {
            Stage::Dial | Stage::Handshake => {}
            Stage::Response => s.sends.push_back(Step::Never),
            Stage::OthersDial => {
                let (tx, rx) = tokio::sync::oneshot::channel();
                s.dials.push_back(Step::Gate(rx));
                other_gate = Some(tx);
            }
        }
    }
    if stage == Stage::OthersDial {
        // another request (no deadline of its own to speak of) is dialling; ours waits for that dial
        let mut patient = client(&script, continue_after_preemption, Duration::from_secs(30));
        patient.inner = cl.inner.clone(); // the same pool
        let mut f = Box::pin(patient.call(request(version)));
        if !futures_util::poll!(&mut f).is_pending() { return Err(format!("{what} setup: the dialling request resolved at once")); }
        other = Some(f);
    }
    let t0 = Instant::now();
    let r = tokio::time::timeout(Duration::from_secs(10), cl.call(request(version))).await
        .map_err(|_| format!("{what} the request did not resolve at all within 10 s (timeout {d:?})"))?;
    match r {
        Err(crate::client::Error::RequestTimeout) => {}
        Err(e) => return Err(format!("{what} resolved with error `{e}` instead of RequestTimeout")),
        Ok(_) if stage == Stage::OthersDial && version != http::Version::HTTP_2 => {
            // an HTTP/1 request does not wait for somebody else's dial: it dials for itself and is answered
            if let Some(tx) = other_gate.take() { let _ = tx.send(()); }
            if let Some(f) = other.take() { let _ = tokio::time::timeout(Duration::from_secs(10), f).await; }
            return Ok(());
        }
        Ok(_) => return Err(format!("{what} resolved with a response although the stage never completes")),
    }
    if t0.elapsed() < d { return Err(format!("{what} timed out after {:?}, before {d:?}", t0.elapsed())); }
    let answered_before = script.0.lock().unwrap().answered;
    // the stalled dial / handshake of the request that has just been dropped ends now, one way or the other.  If a
    // spawned task carries it on, that task is runnable from here on and the runtime (one thread) runs it before it
    // parks for our sleep: the follow-ups start when the late outcome has been dealt with, however slow the machine is.
    // (Whoever dropped the dial together with the request has dropped the receiver too: `send` fails, nothing happens.)
    if let Some(tx) = late_gate.take() {
        let (dl, hs) = { let s = script.0.lock().unwrap(); (s.dialled, s.shaken) };
        if (dl, hs) != (1, if stage == Stage::Dial { 0 } else { 1 }) { return Err(format!("{what} setup: {dl} dials, {hs} handshakes started when the deadline fired")); }
        let _ = tx.send(late == Late::Succeeds);
        tokio::time::sleep(Duration::from_millis(30)).await;
    }
    // the other request's dial completes now (if there is one): that request must still be served
    if let Some(tx) = other_gate.take() { let _ = tx.send(()); }
    if let Some(f) = other.take() {
        match tokio::time::timeout(Duration::from_secs(10), f).await {
            Ok(Ok(_)) => {}
            Ok(Err(e)) => return Err(format!("{what} the request that was dialling failed after a waiting request had timed out: {e}")),
            Err(_) => return Err(format!("{what} the request that was dialling never resolved after a waiting request had timed out")),
        }
    }
    // follow-up probes to the same origin: everything they need goes through at once
    for k in 0..2 {
        let mut probe = client(&script, continue_after_preemption, Duration::from_millis(1500));
        probe.inner = cl.inner.clone(); // the same pool
        match tokio::time::timeout(Duration::from_secs(10), probe.call(request(version))).await {
            Ok(Ok(_)) => {}
            Ok(Err(e)) => {
                let (dl, hs, sn) = { let s = script.0.lock().unwrap(); (s.dialled, s.shaken, s.sent) };
                // diagnosis only: does the request after the failed one get through?
                let mut again = client(&script, continue_after_preemption, Duration::from_millis(1500));
                again.inner = cl.inner.clone();
                let next = match tokio::time::timeout(Duration::from_secs(10), again.call(request(version))).await {
                    Ok(Ok(_)) => "is served".to_string(), Ok(Err(e2)) => format!("fails too: {e2}"), Err(_) => "never resolves".to_string() };
                return Err(format!("{what} follow-up request #{k} to the same origin failed: {e} (dials {dl}, handshakes {hs}, sends {sn} up to then; the request after it {next})"));
            }
            Err(_) => return Err(format!("{what} follow-up request #{k} to the same origin never resolved")),
        }
    }
    // the timed-out exchange itself never completes later
    if stage == Stage::Response {
        tokio::time::sleep(Duration::from_millis(50)).await;
        let s = script.0.lock().unwrap();
        if s.answered != answered_before + 2 { return Err(format!("{what} {} exchanges completed after the time-out, expected the 2 follow-ups only", s.answered - answered_before)); }
    }
    Ok(())
}

/// the two scenarios in which a dial that has lost its request goes on in the background BY DESIGN and later HTTP/2
/// requests are made to wait for it (see `standin_cleanup_background_dial`)
fn is_background_dial(stage: Stage, version: http::Version, continue_after_preemption: bool) -> bool {
    continue_after_preemption && version == http::Version::HTTP_2 && (stage == Stage::Dial || stage == Stage::Handshake)
}

/// A.timeout.cleanup [C19] (bounded stand-in for "a timed-out request does not leave the pool unable to serve subsequent
/// requests to that origin"): a real `ConnectionPoolService` (real pool, real `Checkout` / `Pooled` drop paths, mock
/// transport / protocol / connection) under the real `Timeout` layer, the deadline firing in each stage a pooled request
/// can be in - waiting for its dial, waiting on another request's dial, handshaking, awaiting the response - for HTTP/1.1
/// and HTTP/2, with and without `continue_after_preemption`: 14 of the 16 combinations (the other two:
/// `standin_cleanup_background_dial`).
#[tokio::test]
async fn standin_cleanup() {
    let mut wrong = Vec::new();
    let mut n = 0;
    for stage in [Stage::Dial, Stage::OthersDial, Stage::Handshake, Stage::Response] {
        for version in [http::Version::HTTP_11, http::Version::HTTP_2] {
            for cap in [false, true] {
                if is_background_dial(stage, version, cap) { continue; }
                n += 1;
                if let Err(e) = cleanup_scenario(stage, version, cap, Late::Never).await { wrong.push(e); }
            }
        }
    }
    assert_eq!(n, 14);
    assert!(wrong.is_empty(), "{} of {n} scenarios:\n{}", wrong.len(), wrong.join("\n"));
}

/// A.timeout.cleanup.bg_dial [C19]: the remaining two combinations - HTTP/2, `continue_after_preemption` (the DEFAULT pool
/// configuration), the deadline firing while the request's own dial / handshake is still running and that dial never
/// finishes.  The same scenario function, the same expectation: a follow-up request to the origin, whose own dial
/// would go through at once, succeeds.
#[tokio::test]
async fn standin_cleanup_background_dial() {
    let mut wrong = Vec::new();
    for stage in [Stage::Dial, Stage::Handshake] {
        assert!(is_background_dial(stage, http::Version::HTTP_2, true));
        if let Err(e) = cleanup_scenario(stage, http::Version::HTTP_2, true, Late::Never).await { wrong.push(e); }
    }
    assert!(wrong.is_empty(), "{} of 2 scenarios:\n{}", wrong.len(), wrong.join("\n"));
}

/// A.timeout.cleanup.late_dial [C19]: the dimension the two sweeps above do not have - the dial / handshake that was
/// still running when the deadline fired ENDS afterwards: it goes through, or it fails.  Deadline during the request's own
/// dial / handshake x {HTTP/1.1, HTTP/2} x continue_after_preemption {off, on} x {late success, late failure} = 16
/// combinations of the same scenario function, the same expectation: the two follow-up requests to the origin are served
/// (a dial that has ended - in a spawned task or not at all - must not leave anything behind that later requests wait for).
#[tokio::test]
async fn standin_cleanup_late_dial() {
    let mut wrong = Vec::new();
    let mut n = 0;
    for stage in [Stage::Dial, Stage::Handshake] {
        for version in [http::Version::HTTP_11, http::Version::HTTP_2] {
            for cap in [false, true] {
                for late in [Late::Succeeds, Late::Fails] {
                    n += 1;
                    if let Err(e) = cleanup_scenario(stage, version, cap, late).await { wrong.push(e); }
                }
            }
        }
    }
    assert_eq!(n, 16);
    assert!(wrong.is_empty(), "{} of {n} scenarios:\n{}", wrong.len(), wrong.join("\n"));
}

// ---------------------------------------------------------------------------------------------------------------
// A.timeout.builder: how `client::Builder` turns its `timeout: Option<Duration>` into the layer (build_service is
// generic plumbing over tower layers: outside the verifier's reach) - through the public builder, real HTTP/1 over the
// in-memory duplex transport to hyper's server
// ---------------------------------------------------------------------------------------------------------------
/// hyper's HTTP/1 server on every connection of `incoming`; while `silent` is set a request is never answered
fn switchable_server(incoming: crate::stream::duplex::DuplexIncoming, silent: Arc<AtomicBool>, seen: Arc<AtomicUsize>) -> tokio::task::JoinHandle<()> {
    use futures_util::stream::StreamExt as _;
    tokio::spawn(async move {
        let mut incoming = incoming;
        while let Some(Ok(stream)) = incoming.next().await {
            let (silent, seen) = (silent.clone(), seen.clone());
            tokio::spawn(async move {
                let service = hyper::service::service_fn(move |_req: http::Request<hyper::body::Incoming>| {
                    let (silent, seen) = (silent.clone(), seen.clone());
                    async move {
                        seen.fetch_add(1, Ordering::SeqCst);
                        if silent.load(Ordering::SeqCst) { std::future::pending::<()>().await; }
                        Ok::<_, std::convert::Infallible>(http::Response::new(crate::Body::empty()))
                    }
                });
                let _ = hyper::server::conn::http1::Builder::new().serve_connection(crate::bridge::io::TokioIo::new(stream), service).await;
            });
        }
    })
}

/// A.timeout.builder [C19] (bounded stand-in for the `Option<Duration>` -> layer decision inside `Builder::build_service`):
/// a client built `with_timeout(d)` answers a request the server never answers with `Error::RequestTimeout`, not before
/// `d` and before a reference timer of 1.75 d, and serves the next request to the same origin; built `without_timeout()`
/// / from `Client::builder()` (no timeout configured) it applies none; `Builder::default()` is configured with 30 s and
/// every builder transformation carries the value along.
#[tokio::test]
async fn standin_builder_timeout() {
    use crate::client::conn::transport::duplex::DuplexTransport;
    use crate::client::{Builder, Client};
    let ms = Duration::from_millis;
    let get = || http::Request::builder().uri("http://origin.test/x").body(crate::Body::empty()).unwrap();

    // ---- the configured value: defaults, setters, carried through every transformation of the builder
    assert_eq!(Builder::default().timeout(), Some(Duration::from_secs(30)), "the default client is documented to time out after 30 s");
    assert_eq!(Client::build_tcp_http().timeout(), Some(Duration::from_secs(30)));
    assert_eq!(Client::builder().timeout(), None);
    let d = ms(321);
    assert_eq!(Client::builder().with_timeout(d).timeout(), Some(d));
    assert_eq!(Client::builder().with_timeout(d).without_timeout().timeout(), None);
    assert_eq!(Client::builder().with_optional_timeout(Some(d)).timeout(), Some(d));
    assert_eq!(Client::builder().with_timeout(d).with_optional_timeout(None).timeout(), None);
    let (tx, _incoming) = crate::stream::duplex::pair();
    let b = Client::builder().with_timeout(d);
    let b = b.with_auto_http(); assert_eq!(b.timeout(), Some(d), "with_auto_http lost the timeout");
    let b = b.with_transport(DuplexTransport::new(1024, tx)); assert_eq!(b.timeout(), Some(d), "with_transport lost the timeout");
    let b = b.with_default_pool(); assert_eq!(b.timeout(), Some(d), "with_default_pool lost the timeout");
    let b = b.without_pool(); assert_eq!(b.timeout(), Some(d));
    let b = b.with_user_agent("x".into()); assert_eq!(b.timeout(), Some(d));
    let b = b.without_redirects(); assert_eq!(b.timeout(), Some(d), "without_redirects lost the timeout");
    let b = b.with_standard_redirect_policy(); assert_eq!(b.timeout(), Some(d), "with_standard_redirect_policy lost the timeout");
    let b = b.layer(tower::layer::util::Identity::new()); assert_eq!(b.timeout(), Some(d), "layer lost the timeout");
    let b = b.with_body::<crate::Body, crate::Body>(); assert_eq!(b.timeout(), Some(d), "with_body lost the timeout");
    drop(b);

    // ---- with_timeout(d): RequestTimeout at d, then the origin is served again
    for pool in [true, false] {
        let d = ms(300);
        let (tx, incoming) = crate::stream::duplex::pair();
        let (silent, seen) = (Arc::new(AtomicBool::new(true)), Arc::new(AtomicUsize::new(0)));
        let _server = switchable_server(incoming, silent.clone(), seen.clone());
        let b = Client::builder().with_auto_http().with_transport(DuplexTransport::new(16 * 1024, tx)).with_timeout(d);
        let mut client = if pool { b.with_default_pool().build() } else { b.without_pool().build() };
        let t0 = Instant::now();
        let fut = client.request(get());
        let refer = tokio::time::sleep(d * 7 / 4 + ms(10));
        let r = tokio::select! { biased; r = fut => Some(r), _ = refer => None };
        let took = t0.elapsed();
        let r = r.unwrap_or_else(|| panic!("pool={pool}: with_timeout({d:?}): the request was not resolved when a reference timer of 1.75 x the duration fired ({took:?})"));
        assert!(matches!(r, Err(crate::client::Error::RequestTimeout)), "pool={pool}: with_timeout({d:?}), silent server: resolved with {:?} instead of RequestTimeout", r.map(|x| x.status()));
        assert!(took >= d, "pool={pool}: timed out after {took:?}, before the configured {d:?}");
        assert_eq!(seen.load(Ordering::SeqCst), 1, "the request never reached the server: the scenario did not exercise the awaiting-response stage");
        silent.store(false, Ordering::SeqCst);
        for k in 0..2 {
            let r = tokio::time::timeout(Duration::from_secs(10), client.request(get())).await
                .unwrap_or_else(|_| panic!("pool={pool}: follow-up request #{k} after a timed-out one never resolved"));
            assert_eq!(r.unwrap_or_else(|e| panic!("pool={pool}: follow-up request #{k} after a timed-out one failed: {e}")).status(), http::StatusCode::OK);
        }
    }

    // ---- no timeout configured: none applied (the request is still pending when a reference timer of 4 x 150 ms fires)
    let builds: Vec<(&str, Box<dyn Fn(DuplexTransport) -> Client>)> = vec![
        ("Client::builder()", Box::new(|t| Client::builder().with_auto_http().with_transport(t).with_default_pool().build())),
        ("with_timeout(150ms).without_timeout()", Box::new(|t| Client::builder().with_timeout(Duration::from_millis(150)).with_auto_http().with_transport(t).without_timeout().with_default_pool().build())),
        ("with_optional_timeout(None)", Box::new(|t| Client::builder().with_timeout(Duration::from_millis(150)).with_auto_http().with_transport(t).with_optional_timeout(None).build())),
        ("Builder::default() (30 s)", Box::new(|t| Builder::default().without_tls().with_transport(t).build())),
    ];
    for (name, build) in &builds {
        let (tx, incoming) = crate::stream::duplex::pair();
        let (silent, seen) = (Arc::new(AtomicBool::new(true)), Arc::new(AtomicUsize::new(0)));
        let _server = switchable_server(incoming, silent.clone(), seen.clone());
        let mut client = build(DuplexTransport::new(16 * 1024, tx));
        let fut = client.request(get());
        let refer = tokio::time::sleep(ms(600));
        let r = tokio::select! { biased; r = fut => Some(r), _ = refer => None };
        assert!(r.is_none(), "[{name}] silent server: the request resolved with {:?} within 600 ms although no (or a 30 s) timeout is configured", r.map(|x| x.map(|y| y.status())));
    }
}

/// hyper's HTTP/1 server on every connection of `incoming`: answers `/` with a 302 to `/second-hop` after `hop_ms`
/// milliseconds and every other path with a 200 after `hop_ms` milliseconds; records the paths in the order they arrive
fn redirecting_server(incoming: crate::stream::duplex::DuplexIncoming, hop_ms: Arc<AtomicUsize>, seen: Arc<Mutex<Vec<String>>>) -> tokio::task::JoinHandle<()> {
    use futures_util::stream::StreamExt as _;
    tokio::spawn(async move {
        let mut incoming = incoming;
        while let Some(Ok(stream)) = incoming.next().await {
            let (hop_ms, seen) = (hop_ms.clone(), seen.clone());
            tokio::spawn(async move {
                let service = hyper::service::service_fn(move |req: http::Request<hyper::body::Incoming>| {
                    let (hop_ms, seen) = (hop_ms.clone(), seen.clone());
                    async move {
                        let path = req.uri().path().to_string();
                        seen.lock().unwrap().push(path.clone());
                        tokio::time::sleep(Duration::from_millis(hop_ms.load(Ordering::SeqCst) as u64)).await;
                        let b = http::Response::builder();
                        let b = if path == "/" { b.status(302).header(http::header::LOCATION, "http://origin.test/second-hop") } else { b.status(200) };
                        Ok::<_, std::convert::Infallible>(b.body(crate::Body::empty()).unwrap())
                    }
                });
                let _ = hyper::server::conn::http1::Builder::new().serve_connection(crate::bridge::io::TokioIo::new(stream), service).await;
            });
        }
    })
}

/// A.timeout.redirects [C19] (bounded stand-in for the POSITION of the timeout layer inside `Builder::build_service`): the
/// deadline belongs to the request as the caller issued it, not to each hop of a redirect chain that the client follows
/// on the caller's behalf.  A client built `with_timeout(d)` and a redirect policy that follows; the server answers the
/// first hop with a 302 after 2/3 d and the hop it redirects to with a 200 after another 2/3 d - each hop shorter than d,
/// the request longer.  The caller gets `Error::RequestTimeout`, not before d and before a reference timer of 1.75 d.
/// Control: the same client, both hops answered at once: the 200 of the second hop.
#[tokio::test]
async fn standin_builder_timeout_redirects() {
    use crate::client::conn::transport::duplex::DuplexTransport;
    use crate::client::Client;
    use tower_http::follow_redirect::policy;
    let ms = Duration::from_millis;
    let get = || http::Request::builder().uri("http://origin.test/").body(crate::Body::empty()).unwrap();
    let d = ms(600);
    let hop = ms(400);
    let builds: Vec<(&str, Box<dyn Fn(DuplexTransport) -> Client>)> = vec![
        ("standard redirect policy, pool", Box::new(move |t| Client::builder().with_auto_http().with_transport(t).with_default_pool().with_standard_redirect_policy().with_timeout(d).build())),
        ("standard redirect policy, no pool", Box::new(move |t| Client::builder().with_auto_http().with_transport(t).without_pool().with_timeout(d).with_standard_redirect_policy().build())),
        ("with_redirect_policy(Limited(3)), pool", Box::new(move |t| Client::builder().with_auto_http().with_transport(t).with_timeout(d).with_redirect_policy(policy::Limited::new(3)).with_default_pool().build())),
    ];
    for (name, build) in &builds {
        let (tx, incoming) = crate::stream::duplex::pair();
        let (hop_ms, seen) = (Arc::new(AtomicUsize::new(0)), Arc::new(Mutex::new(Vec::new())));
        let _server = redirecting_server(incoming, hop_ms.clone(), seen.clone());
        let mut client = build(DuplexTransport::new(16 * 1024, tx));

        // ---- control: both hops answered at once -> the redirect is followed, the caller gets the second hop's 200
        let r = tokio::time::timeout(Duration::from_secs(10), client.request(get())).await
            .unwrap_or_else(|_| panic!("[{name}] control (both hops answered at once): the request never resolved"));
        let r = r.unwrap_or_else(|e| panic!("[{name}] control (both hops answered at once, timeout {d:?}): the request failed: {e}"));
        assert_eq!(r.status(), http::StatusCode::OK, "[{name}] control: the redirect was not followed (the scenario below would not exercise a second hop)");
        assert_eq!(*seen.lock().unwrap(), ["/", "/second-hop"], "[{name}] control: requests seen by the server");
        drop(r);

        // ---- each hop 2/3 d: shorter than the deadline, the request as issued is not
        seen.lock().unwrap().clear();
        hop_ms.store(hop.as_millis() as usize, Ordering::SeqCst);
        let t0 = Instant::now();
        let fut = client.request(get());
        let refer = tokio::time::sleep(d * 7 / 4 + ms(10));
        let r = tokio::select! { biased; r = fut => Some(r), _ = refer => None };
        let took = t0.elapsed();
        let r = r.unwrap_or_else(|| panic!("[{name}] with_timeout({d:?}), redirect followed, each hop answered after {hop:?}: the request was not resolved when a reference timer of 1.75 x the duration fired ({took:?})"));
        match r {
            Err(crate::client::Error::RequestTimeout) => {}
            Err(e) => panic!("[{name}] with_timeout({d:?}), redirect followed, each hop answered after {hop:?}: resolved with error `{e}` instead of RequestTimeout"),
            Ok(resp) => panic!("[{name}] with_timeout({d:?}), redirect followed, each hop answered after {hop:?}: the request issued by the caller resolved with {} after {took:?} - the deadline was restarted for the redirected hop (per hop instead of per request)", resp.status()),
        }
        assert!(took >= d, "[{name}] timed out after {took:?}, before the configured {d:?}");
        assert_eq!(*seen.lock().unwrap(), ["/", "/second-hop"], "[{name}] the deadline did not fire during the SECOND hop: the scenario did not exercise a followed redirect");
    }
}
