// Replay templates for unit `checkout` (src/client/pool/checkout.rs): concrete scenarios against the REAL crate.
// Compiled inside `crate::client::pool::checkout::verif_replays` (features verif-hooks + mocks), so that the
// private fields of `Checkout` / `Waiting` / `InnerCheckoutConnecting` are visible.
use super::*;
use crate::client::conn::protocol::mock::{MockProtocol, MockSender};
use crate::client::conn::protocol::HttpProtocol;
use crate::client::conn::stream::mock::MockStream;
use crate::client::conn::transport::mock::MockTransport;
use crate::client::pool::{key, Pool};
use crate::helpers::IntoRequestParts;
use std::time::Duration;

type Ck = Checkout<MockTransport, MockProtocol, crate::Body>;
type TPool = Pool<MockSender, crate::Body, key::UriKey>;

fn example_key() -> key::UriKey {
    (http::uri::Scheme::HTTPS, http::uri::Authority::from_static("localhost:8080")).into()
}
fn cfg_bg(continue_after_preemption: bool) -> Config {
    Config { idle_timeout: None, max_idle_per_host: 5, continue_after_preemption }
}
fn connector(t: MockTransport, v: HttpProtocol) -> Connector<MockTransport, MockProtocol, crate::Body> {
    t.connector("mock://address".into_request_parts(), v)
}

/// wait.idle_listens [C14]: a dialing request stays pre-emptible AFTER its first poll: a connection released while
/// the dial is pending is taken at the next poll
#[tokio::test]
async fn preempt_after_first_poll() {
    for bg in [true, false] {
        let pool: TPool = Pool::new(cfg_bg(bg));
        let key = example_key();
        let (_tx, rx) = tokio::sync::oneshot::channel::<MockStream>();
        let mut a = Box::pin(pool.checkout(key.clone(), false, connector(MockTransport::channel(rx), HttpProtocol::Http1)));
        assert!(futures_util::poll!(&mut a).is_pending(), "dial cannot have completed");
        let token = a.token();
        let released = MockSender::single();
        let rid = released.id();
        pool.inner.lock().push(token, released, pool.as_ref());
        match futures_util::poll!(&mut a) {
            std::task::Poll::Ready(Ok(got)) => assert_eq!(got.id(), rid, "served by another connection"),
            std::task::Poll::Ready(Err(e)) => panic!("error {e:?}"),
            std::task::Poll::Pending => panic!("a connection for the origin was released while the request was dialing, but the request \
                still waits for its own dial at its next poll (continue_after_preemption={bg}); waiter = {:?}", a.waiter),
        }
    }
}

fn other_key() -> key::UriKey {
    (http::uri::Scheme::HTTP, http::uri::Authority::from_static("localhost:8080")).into()
}
fn idle_len(pool: &TPool, t: Token) -> usize { pool.inner.lock().idle.get(&t).map(|l| l.len()).unwrap_or(0) }
fn chan() -> (tokio::sync::oneshot::Sender<Pooled<MockSender, crate::Body>>, Receiver<Pooled<MockSender, crate::Body>>) {
    tokio::sync::oneshot::channel()
}
fn pooled(c: MockSender) -> Pooled<MockSender, crate::Body> {
    Pooled { connection: Some(c), token: Token::zero(), pool: PoolRef::none() }
}
fn inner_name(c: &Ck) -> &'static str {
    match &c.inner {
        InnerCheckoutConnecting::Waiting => "Waiting",
        InnerCheckoutConnecting::Connected => "Connected",
        InnerCheckoutConnecting::Connecting(_) => "Connecting",
        InnerCheckoutConnecting::ConnectingWithDelayDrop(Some(_)) => "ConnectingWithDelayDrop(Some)",
        InnerCheckoutConnecting::ConnectingWithDelayDrop(None) => "ConnectingWithDelayDrop(None)",
        InnerCheckoutConnecting::ConnectingDelayed(_) => "ConnectingDelayed",
    }
}

/// ck.poll.preempt [C14]: a delivered connection is returned at once, whether it arrives before the first poll or
/// while the dial is pending, and the request's own dial is left exactly as it was (not polled to completion, not dropped)
#[tokio::test]
async fn preempt_returns_delivery_and_keeps_dial() {
    for bg in [true, false] {
        for polled_first in [false, true] {
            let pool: TPool = Pool::new(cfg_bg(bg));
            let (tx, rx) = tokio::sync::oneshot::channel::<MockStream>();
            let mut a = Box::pin(pool.checkout(example_key(), false, connector(MockTransport::channel(rx), HttpProtocol::Http1)));
            let token = a.token();
            if polled_first {
                assert!(futures_util::poll!(&mut a).is_pending());
            }
            let released = MockSender::single();
            let rid = released.id();
            pool.inner.lock().push(token, released, pool.as_ref());
            // the dial could complete now as well: the delivered connection still wins, the dial is not consumed
            let _ = &tx;
            match futures_util::poll!(&mut a) {
                std::task::Poll::Ready(Ok(got)) => assert_eq!(got.id(), rid, "not served by the released connection"),
                other => panic!("delivered connection not returned at the next poll (bg={bg}, polled_first={polled_first}): {:?}", other.map(|r| r.map(|p| p.id()))),
            }
            let want = if bg { "ConnectingWithDelayDrop(Some)" } else { "Connecting" };
            assert_eq!(inner_name(&a), want, "pre-emption touched the request's own dial (bg={bg}, polled_first={polled_first})");
            assert!(matches!(a.waiter, Waiting::NoPool));
        }
    }
}

/// ck.poll.waiter_waits, wait.connecting_waits, ck.poll.unavailable, wait.closed [C03,C04]: a pure waiter waits while the
/// attempt it depends on is alive, and is released with an error as soon as that attempt's sender is gone
#[tokio::test]
async fn pure_waiter_waits_then_unavailable() {
    let pool: TPool = Pool::new(cfg_bg(true));
    let token = pool.keys.lock().insert(example_key());
    let (tx, rx) = chan();
    let mut a: std::pin::Pin<Box<Ck>> = Box::pin(Checkout::new(token, pool.as_ref(), rx, None, None, &cfg_bg(true)));
    for _ in 0..3 {
        assert!(futures_util::poll!(&mut a).is_pending(), "a pure waiter did not wait although its channel is open and empty");
        assert_eq!(inner_name(&a), "Waiting");
        assert!(matches!(a.waiter, Waiting::Connecting(_)));
    }
    drop(tx);
    match tokio::time::timeout(Duration::from_secs(2), &mut a).await {
        Ok(Err(ConnectorError::Unavailable)) => {}
        Ok(Err(e)) => panic!("wrong error {e:?}"),
        Ok(Ok(_)) => panic!("connection out of nowhere"),
        Err(_) => panic!("pure waiter hangs after the attempt it waited for was abandoned"),
    }
}

/// ck.poll.waiter_waits / A.checkout.poll.rewake [C03,C14] "every state change that lets a request proceed wakes it": a
/// request waiting for another request's attempt (and a dialing request listening for a released connection) is polled
/// k = 1..4 times while nothing is there, each time with a DIFFERENT waker (a future polled by hand or in `select!` and
/// then moved into a task).  When the connection arrives, the waker of the MOST RECENT poll must be woken - a poll
/// that answers Pending without handing its waker to the channel loses the wake-up - and the next poll is Ready.
#[tokio::test]
async fn pending_poll_registers_latest_waker() {
    use std::future::Future as _;
    use std::sync::atomic::{AtomicUsize, Ordering};
    use std::sync::Arc;
    struct Count(AtomicUsize);
    impl futures_util::task::ArcWake for Count {
        fn wake_by_ref(a: &Arc<Self>) { a.0.fetch_add(1, Ordering::SeqCst); }
    }
    for bg in [false, true] {
        for polls in 1..=4usize {
            for dialing in [false, true] {
                let pool: TPool = Pool::new(cfg_bg(bg));
                let key = example_key();
                // request A owns the in-flight HTTP/2 attempt (parked in its dial)
                let (tx, rx) = tokio::sync::oneshot::channel::<MockStream>();
                let mut a = Box::pin(pool.checkout(key.clone(), true, connector(MockTransport::channel(rx), HttpProtocol::Http2)));
                assert!(futures_util::poll!(&mut a).is_pending());
                // request B: a pure waiter on A's attempt (HTTP/2), or a request with its own never-ending dial that
                // listens for a released connection (HTTP/1.1 to the same origin)
                let (_txb, rxb) = tokio::sync::oneshot::channel::<MockStream>();
                let mut b = if dialing {
                    Box::pin(pool.checkout(key.clone(), false, connector(MockTransport::channel(rxb), HttpProtocol::Http1)))
                } else {
                    Box::pin(pool.checkout(key.clone(), true, connector(MockTransport::reusable(), HttpProtocol::Http2)))
                };
                let counters: Vec<Arc<Count>> = (0..polls).map(|_| Arc::new(Count(AtomicUsize::new(0)))).collect();
                let wakers: Vec<_> = counters.iter().map(|c| futures_util::task::waker(c.clone())).collect();
                for w in &wakers {
                    assert!(b.as_mut().poll(&mut std::task::Context::from_waker(w)).is_pending(), "nothing there yet");
                }
                if dialing {
                    // a connection for the origin is released
                    let token = b.token();
                    pool.inner.lock().push(token, MockSender::single(), pool.as_ref());
                } else {
                    // A's attempt completes and is shared
                    assert!(tx.send(MockStream::reusable()).is_ok());
                    let got = tokio::time::timeout(Duration::from_secs(2), &mut a).await.expect("owner hangs");
                    assert!(got.is_ok());
                }
                let last = counters.last().unwrap().0.load(Ordering::SeqCst);
                assert!(last > 0, "lost wake-up: the waker of the request's most recent poll ({polls} pending polls, dialing={dialing}, \
                    continue_after_preemption={bg}) was not woken when a connection became available (earlier wakers woken: {:?})",
                    counters.iter().map(|c| c.0.load(Ordering::SeqCst)).collect::<Vec<_>>());
                let r = b.as_mut().poll(&mut std::task::Context::from_waker(wakers.last().unwrap()));
                assert!(matches!(r, std::task::Poll::Ready(Ok(_))), "the request is not served at its next poll");
            }
        }
    }
}

/// ck.poll.connected, ck.new.holds [C02,C04,C06]: a checkout created with a pooled connection hands out that
/// connection, registered under its own token only
#[tokio::test]
async fn connected_hands_out_pooled_connection() {
    let pool: TPool = Pool::new(cfg_bg(true));
    let token = pool.keys.lock().insert(example_key());
    let other = pool.keys.lock().insert(other_key());
    let (_tx, rx) = chan();
    let c = MockSender::reusable();
    let cid = c.id();
    let mut a: std::pin::Pin<Box<Ck>> = Box::pin(Checkout::new(token, pool.as_ref(), rx, None, Some(c), &cfg_bg(true)));
    assert_eq!(inner_name(&a), "Connected");
    match futures_util::poll!(&mut a) {
        std::task::Poll::Ready(Ok(p)) => assert_eq!(p.id(), cid),
        _ => panic!("checkout holding a pooled connection did not resolve at its first poll"),
    }
    assert_eq!(idle_len(&pool, token), 1, "shared handle not registered under the checkout's token");
    assert_eq!(idle_len(&pool, other), 0);
    assert!(pool.inner.lock().idle.keys().all(|t| *t == token), "registered under a foreign token");
    assert!(a.connection.is_none() && matches!(a.waiter, Waiting::NoPool));
}

/// ck.poll.dial_ok, ck.poll.dial_done, ck.poll.notify_tok [C03,C04,C06]: the request's own dial succeeds: the connection is
/// registered under the checkout's token, the in-flight marker set by the notify closure is this token's (and is gone
/// afterwards), the state machine is finished
#[tokio::test]
async fn dial_ok_registers_under_token() {
    for bg in [true, false] {
        let pool: TPool = Pool::new(cfg_bg(bg));
        let token = pool.keys.lock().insert(example_key());
        let (_tx, rx) = chan();
        let mut a: std::pin::Pin<Box<Ck>> = Box::pin(Checkout::new(token, pool.as_ref(), rx,
            Some(connector(MockTransport::reusable(), HttpProtocol::Http2)), None, &cfg_bg(bg)));
        let got = tokio::time::timeout(Duration::from_secs(2), &mut a).await.expect("dial never completed").expect("dial failed");
        assert!(got.is_open());
        assert_eq!(idle_len(&pool, token), 1, "dialed shareable connection not registered under the checkout's token");
        assert!(pool.inner.lock().idle.keys().all(|t| *t == token), "registered under a foreign token");
        assert!(pool.inner.lock().connecting.is_empty(), "a handshake marker for another token was set (or this one was left behind): {:?}", pool.inner.lock().connecting);
        assert_eq!(inner_name(&a), "Connected");
        assert!(matches!(a.waiter, Waiting::NoPool));
    }
}

/// ck.poll.dial_err [C03]: a failed dial is reported to the request, the state machine is finished
#[tokio::test]
async fn dial_err_is_reported() {
    for bg in [true, false] {
        let pool: TPool = Pool::new(cfg_bg(bg));
        let token = pool.keys.lock().insert(example_key());
        let (_tx, rx) = chan();
        let mut a: std::pin::Pin<Box<Ck>> = Box::pin(Checkout::new(token, pool.as_ref(), rx,
            Some(connector(MockTransport::error(), HttpProtocol::Http1)), None, &cfg_bg(bg)));
        match tokio::time::timeout(Duration::from_secs(2), &mut a).await {
            Ok(Err(ConnectorError::Connecting(_))) => {}
            Ok(Err(e)) => panic!("wrong error {e:?}"),
            Ok(Ok(_)) => panic!("failed dial produced a connection"),
            Err(_) => panic!("failed dial never reported"),
        }
        assert_eq!(inner_name(&a), "Connected");
        assert!(matches!(a.waiter, Waiting::NoPool));
        assert_eq!(idle_len(&pool, token), 0);
    }
}

/// ck.new.* [C04,C14,C03,C06]: what `Checkout::new` stores for each of its three cases
#[tokio::test]
async fn new_states() {
    for bg in [true, false] {
        let pool: TPool = Pool::new(cfg_bg(bg));
        let token = pool.keys.lock().insert(example_key());
        // (1) pooled connection given (a connector given as well is ignored)
        let (_t1, rx) = chan();
        let c = MockSender::single();
        let cid = c.id();
        let a: Ck = Checkout::new(token, pool.as_ref(), rx, Some(connector(MockTransport::single(), HttpProtocol::Http1)), Some(c), &cfg_bg(bg));
        assert!(a.token() == token && !a.pool.is_none());
        assert_eq!(inner_name(&a), "Connected");
        assert_eq!(a.connection.as_ref().map(|c| c.id()), Some(cid));
        assert!(matches!(a.waiter, Waiting::Idle(_)));
        // (2) connector only
        let (_t2, rx) = chan();
        let a: Ck = Checkout::new(token, pool.as_ref(), rx, Some(connector(MockTransport::single(), HttpProtocol::Http1)), None, &cfg_bg(bg));
        assert!(a.token() == token && !a.pool.is_none());
        assert_eq!(inner_name(&a), if bg { "ConnectingWithDelayDrop(Some)" } else { "Connecting" });
        assert!(a.connection.is_none());
        assert!(matches!(a.waiter, Waiting::Idle(_)), "a dialing request must listen without blocking on the channel");
        // (3) neither: pure waiter
        let (_t3, rx) = chan();
        let a: Ck = Checkout::new(token, pool.as_ref(), rx, None, None, &cfg_bg(bg));
        assert!(a.token() == token && !a.pool.is_none());
        assert_eq!(inner_name(&a), "Waiting");
        assert!(a.connection.is_none());
        assert!(matches!(a.waiter, Waiting::Connecting(_)), "a request without a dial of its own must block on the channel");
    }
}

/// ck.new.waits_on [C03,C14]: the checkout listens on the very receiver it was given
#[tokio::test]
async fn new_listens_on_given_receiver() {
    let pool: TPool = Pool::new(cfg_bg(false));
    let token = pool.keys.lock().insert(example_key());
    for dial in [true, false] {
        let (tx, rx) = chan();
        let con = if dial { let (_k, r) = tokio::sync::oneshot::channel::<MockStream>(); std::mem::forget(_k); Some(connector(MockTransport::channel(r), HttpProtocol::Http1)) } else { None };
        let mut a: std::pin::Pin<Box<Ck>> = Box::pin(Checkout::new(token, pool.as_ref(), rx, con, None, &cfg_bg(false)));
        let c = MockSender::single();
        let cid = c.id();
        assert!(tx.send(pooled(c)).is_ok(), "receiver dropped by Checkout::new");
        match futures_util::poll!(&mut a) {
            std::task::Poll::Ready(Ok(p)) => assert_eq!(p.id(), cid),
            _ => panic!("value sent on the given channel did not reach the checkout (dial={dial})"),
        }
    }
}

/// ck.delayed.* [C14,C04,C06]: `as_delayed` takes the dial out exactly in state ConnectingWithDelayDrop(Some), keeps
/// token and pool, and leaves every other state alone
#[tokio::test]
async fn as_delayed_takes_the_dial() {
    let pool: TPool = Pool::new(cfg_bg(true));
    let token = pool.keys.lock().insert(example_key());
    let (_t, rx) = chan();
    let mut a: std::pin::Pin<Box<Ck>> = Box::pin(Checkout::new(token, pool.as_ref(), rx,
        Some(connector(MockTransport::reusable(), HttpProtocol::Http1)), None, &cfg_bg(true)));
    let d = a.as_mut().as_delayed().expect("dial not taken over although continue_after_preemption is on");
    assert!(d.token() == token && !d.pool.is_none(), "token / pool lost");
    assert_eq!(inner_name(&d), "ConnectingDelayed");
    assert!(matches!(d.waiter, Waiting::NoPool) && d.connection.is_none());
    assert_eq!(inner_name(&a), "ConnectingWithDelayDrop(None)", "the dial must have exactly one owner");
    assert!(a.as_mut().as_delayed().is_none(), "dial taken over twice");
    // the delayed checkout completes the dial and registers it under the same token
    let got = tokio::time::timeout(Duration::from_secs(2), d).await.expect("delayed dial never completed").expect("delayed dial failed");
    drop(got);
    assert_eq!(idle_len(&pool, token), 1, "background dial did not end up in the pool under the checkout's token");
    // other states: nothing is taken, nothing changes
    let (_t, rx) = chan();
    let mut b: std::pin::Pin<Box<Ck>> = Box::pin(Checkout::new(token, pool.as_ref(), rx,
        Some(connector(MockTransport::reusable(), HttpProtocol::Http1)), None, &cfg_bg(false)));
    assert!(b.as_mut().as_delayed().is_none());
    assert_eq!(inner_name(&b), "Connecting");
    let (_t, rx) = chan();
    let mut c: std::pin::Pin<Box<Ck>> = Box::pin(Checkout::new(token, pool.as_ref(), rx, None, None, &cfg_bg(true)));
    assert!(c.as_mut().as_delayed().is_none());
    assert_eq!(inner_name(&c), "Waiting");
    let (_t, rx) = chan();
    let mut e: std::pin::Pin<Box<Ck>> = Box::pin(Checkout::new(token, pool.as_ref(), rx, None, Some(MockSender::single()), &cfg_bg(true)));
    assert!(e.as_mut().as_delayed().is_none());
    assert_eq!(inner_name(&e), "Connected");
    assert!(e.connection.is_some());
}

/// wait.* [C03,C14,C02,C17]: every outcome of `Waiting::poll`
#[tokio::test]
async fn waiting_poll_outcomes() {
    type W = Waiting<MockSender, crate::Body>;
    fn name(p: &std::task::Poll<WaitingPoll<MockSender, crate::Body>>) -> String {
        match p {
            std::task::Poll::Pending => "Pending".into(),
            std::task::Poll::Ready(WaitingPoll::Connected(c)) => format!("Connected({})", c.id()),
            std::task::Poll::Ready(WaitingPoll::Closed) => "Closed".into(),
            std::task::Poll::Ready(WaitingPoll::NotReady) => "NotReady".into(),
        }
    }
    // Idle, channel open and empty: the dial proceeds, the waiter goes on listening
    let (tx, rx) = chan();
    let mut w: std::pin::Pin<Box<W>> = Box::pin(Waiting::Idle(rx));
    for _ in 0..2 {
        assert_eq!(name(&futures_util::poll!(&mut w)), "NotReady");
        assert!(matches!(*w, Waiting::Idle(_)), "a dialing request stopped listening: {:?}", *w);
    }
    let c = MockSender::single();
    let cid = c.id();
    assert!(tx.send(pooled(c)).is_ok(), "receiver of a dialing request was dropped");
    assert_eq!(name(&futures_util::poll!(&mut w)), format!("Connected({cid})"));
    assert!(matches!(*w, Waiting::NoPool));
    assert_eq!(name(&futures_util::poll!(&mut w)), "Closed");
    // Connecting, channel open and empty: wait
    let (tx, rx) = chan();
    let mut w: std::pin::Pin<Box<W>> = Box::pin(Waiting::Connecting(rx));
    for _ in 0..2 {
        assert_eq!(name(&futures_util::poll!(&mut w)), "Pending");
        assert!(matches!(*w, Waiting::Connecting(_)));
    }
    drop(tx);
    assert_eq!(name(&futures_util::poll!(&mut w)), "Closed");
    assert!(matches!(*w, Waiting::NoPool));
    // sender dropped under a dialing request
    let (tx, rx) = chan();
    let mut w: std::pin::Pin<Box<W>> = Box::pin(Waiting::Idle(rx));
    drop(tx);
    assert_eq!(name(&futures_util::poll!(&mut w)), "Closed");
    assert!(matches!(*w, Waiting::NoPool));
    // delivery to a pure waiter
    let (tx, rx) = chan();
    let mut w: std::pin::Pin<Box<W>> = Box::pin(Waiting::Connecting(rx));
    let c = MockSender::single();
    let cid = c.id();
    tx.send(pooled(c)).ok();
    assert_eq!(name(&futures_util::poll!(&mut w)), format!("Connected({cid})"));
    assert!(matches!(*w, Waiting::NoPool));
    // close()
    let (tx, rx) = chan();
    let mut w: W = Waiting::Idle(rx);
    w.close();
    assert!(matches!(w, Waiting::NoPool));
    assert!(tx.is_closed());
}

/// ck.poll.no_panic, ck.poll.stays_live, wait.fused [C17]: polling a checkout made by `new` / `as_delayed` until it
/// completes never panics, in any of its states and with deliveries / failures arriving at any poll
#[tokio::test]
async fn poll_sequences_never_panic() {
    for bg in [true, false] {
        for scenario in 0..6 {
            for deliver_at in 0..3 {
                let pool: TPool = Pool::new(cfg_bg(bg));
                let token = pool.keys.lock().insert(example_key());
                let (tx, rx) = chan();
                let mut tx = Some(tx);
                let (stx, srx) = tokio::sync::oneshot::channel::<MockStream>();
                let mut stx = Some(stx);
                let ck: Ck = match scenario {
                    0 => Checkout::new(token, pool.as_ref(), rx, None, Some(MockSender::single()), &cfg_bg(bg)),
                    1 | 2 | 3 => Checkout::new(token, pool.as_ref(), rx, Some(connector(MockTransport::channel(srx), HttpProtocol::Http1)), None, &cfg_bg(bg)),
                    4 => Checkout::new(token, pool.as_ref(), rx, Some(connector(MockTransport::error(), HttpProtocol::Http2)), None, &cfg_bg(bg)),
                    _ => Checkout::new(token, pool.as_ref(), rx, None, None, &cfg_bg(bg)),
                };
                let mut a = Box::pin(ck);
                let mut done = false;
                for step in 0..6 {
                    if step == deliver_at {
                        match scenario {
                            1 => { stx.take().map(|s| s.send(MockStream::single())); }
                            2 => { stx.take(); }
                            3 => { tx.take().map(|t| t.send(pooled(MockSender::single()))); }
                            5 => { tx.take(); }
                            _ => {}
                        }
                    }
                    if futures_util::poll!(&mut a).is_ready() { done = true; break; }
                }
                assert!(done, "checkout never completed (bg={bg}, scenario={scenario}, deliver_at={deliver_at})");
            }
        }
    }
}

/// ck.detached.state, ck.detached.live [C06,C17]: a detached checkout has no token, no pool, no channel; it drives the
/// connector to completion and its connection never enters a pool
#[tokio::test]
async fn detached_has_no_pool() {
    let mut a: std::pin::Pin<Box<Ck>> = Box::pin(Checkout::detached(connector(MockTransport::reusable(), HttpProtocol::Http2)));
    assert!(a.token().is_zero() && a.pool.is_none() && a.connection.is_none());
    assert!(matches!(a.waiter, Waiting::NoPool));
    assert_eq!(inner_name(&a), "Connecting");
    assert!(a.as_mut().as_delayed().is_none());
    let got = tokio::time::timeout(Duration::from_secs(2), &mut a).await.expect("detached dial never completed").expect("detached dial failed");
    assert!(got.token.is_zero() && got.pool.is_none(), "connection of a detached checkout refers to a pool");
}

/// reg.share_alive [C04, C03]: a multiplexed connection is registered with the pool even when another thread holds
/// the pool lock at that moment (the registration waits for the lock; it must not be skipped)
#[test]
fn register_connected_under_contention() {
    let pool: TPool = Pool::new(cfg_bg(false));
    let token = pool.keys.lock().insert(example_key());
    let poolref = pool.as_ref();
    let p2 = pool.clone();
    let (started_tx, started_rx) = std::sync::mpsc::channel();
    let holder = std::thread::spawn(move || {
        let _g = p2.inner.lock();
        started_tx.send(()).unwrap();
        std::thread::sleep(Duration::from_millis(200));
    });
    started_rx.recv().unwrap(); // the lock is held elsewhere right now
    let conn = MockSender::reusable();
    let id = conn.id();
    let handed = register_connected(&poolref, token, conn);
    holder.join().unwrap();
    assert_eq!(handed.id(), id);
    assert!(idle_len(&pool, token) >= 1, "the HTTP/2 connection was not registered with the pool because its lock was busy: later requests dial again and waiters hang");
    std::mem::forget(handed);
}
