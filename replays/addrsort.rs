// Replay tests / bounded stand-ins for unit `addrsort` (property C16), compiled INTO the real crate:
// `include!`d by `client::conn::dns::verif_replays` (feature `verif-hooks`, test builds), so crate-private items
// (`SocketAddrs::{sort_preferred, set_port, pop}`, `IpVersion::from_binding`) are reachable.
//
// The reference `spec_sort` below is written from the property statement only ("the first address of the preferred
// family comes first, the first address of the other family second, the remaining addresses keep the resolver's
// order"); it shares no code and no strategy (no index arithmetic, no removal) with `sort_preferred`.

mod addrsort {
    use super::super::*;
    use std::net::{Ipv4Addr, Ipv6Addr, SocketAddr};

    /// two IPv4 and two IPv6 addresses, pairwise distinct
    fn pool() -> [SocketAddr; 4] {
        [
            SocketAddr::new(IpAddr::V4(Ipv4Addr::new(10, 0, 0, 1)), 1001),
            SocketAddr::new(IpAddr::V4(Ipv4Addr::new(10, 0, 0, 2)), 1002),
            SocketAddr::new(IpAddr::V6(Ipv6Addr::new(0xfd00, 0, 0, 0, 0, 0, 0, 1)), 1003),
            SocketAddr::new(IpAddr::V6(Ipv6Addr::new(0xfd00, 0, 0, 0, 0, 0, 0, 2)), 1004),
        ]
    }

    const PREFS: [Option<IpVersion>; 3] = [None, Some(IpVersion::V4), Some(IpVersion::V6)];

    /// every list of length 0..=max over the pool (duplicates allowed): 1 + 4 + 16 + .. + 4^max lists
    fn all_lists(max: usize) -> Vec<Vec<SocketAddr>> {
        let pool = pool();
        let mut out: Vec<Vec<SocketAddr>> = vec![vec![]];
        let mut layer: Vec<Vec<SocketAddr>> = vec![vec![]];
        for _ in 0..max {
            let mut next = Vec::new();
            for l in &layer {
                for a in pool {
                    let mut l2 = l.clone();
                    l2.push(a);
                    next.push(l2);
                }
            }
            out.extend(next.iter().cloned());
            layer = next;
        }
        out
    }

    /// the independent specification (from the property text)
    fn spec_sort(input: &[SocketAddr], prefer: Option<IpVersion>) -> Vec<SocketAddr> {
        // preferred family: IPv6 unless IPv4 is asked for
        let prefer_v4 = matches!(prefer, Some(IpVersion::V4));
        let first_preferred = input.iter().position(|a| a.is_ipv4() == prefer_v4);
        let first_other = input.iter().position(|a| a.is_ipv4() != prefer_v4);
        let mut out = Vec::new();
        if let Some(i) = first_preferred {
            out.push(input[i]);
        }
        if let Some(i) = first_other {
            out.push(input[i]);
        }
        for (k, a) in input.iter().enumerate() {
            if Some(k) != first_preferred && Some(k) != first_other {
                out.push(*a);
            }
        }
        out
    }

    /// the real code: build the crate's list, sort, read it back front to back with `pop`
    fn real_sort(input: &[SocketAddr], prefer: Option<IpVersion>) -> Vec<SocketAddr> {
        let mut addrs = SocketAddrs::from_iter(input.iter().copied());
        addrs.sort_preferred(prefer);
        drain(addrs)
    }

    fn drain(mut addrs: SocketAddrs) -> Vec<SocketAddr> {
        let n = addrs.len();
        let mut out = Vec::new();
        while let Some(a) = addrs.pop() {
            out.push(a);
        }
        assert_eq!(out.len(), n, "len() and the number of pops disagree");
        out
    }

    fn key(a: &SocketAddr) -> (bool, String, u16) {
        (a.is_ipv4(), a.ip().to_string(), a.port())
    }

    // ---- sort.result / sort.rest_in_order / sort.scan_* / sort.remove_*: exhaustive sweep, 5461 lists x 3 preferences ----
    #[test]
    fn sort_sweep_matches_independent_spec() {
        let mut n = 0usize;
        for list in all_lists(6) {
            for prefer in PREFS {
                let got = real_sort(&list, prefer);
                let want = spec_sort(&list, prefer);
                assert_eq!(got, want, "sort_preferred({:?}) of {:?}", prefer, list);
                n += 1;
            }
        }
        assert_eq!(n, 5461 * 3);
    }

    // ---- sort.permutation / sort.length: nothing lost, nothing duplicated (checked without the reference) ----
    #[test]
    fn sort_sweep_is_a_permutation() {
        for list in all_lists(6) {
            for prefer in PREFS {
                let got = real_sort(&list, prefer);
                assert_eq!(got.len(), list.len(), "length changed: {:?} {:?}", prefer, list);
                let mut a: Vec<_> = got.iter().map(key).collect();
                let mut b: Vec<_> = list.iter().map(key).collect();
                a.sort();
                b.sort();
                assert_eq!(a, b, "not a permutation: {:?} {:?} -> {:?}", prefer, list, got);
            }
        }
    }

    // ---- sort.preferred_first / sort.other_second (checked position by position, without building the reference list) ----
    #[test]
    fn sort_sweep_heads() {
        for list in all_lists(6) {
            for prefer in PREFS {
                let got = real_sort(&list, prefer);
                let prefer_v4 = matches!(prefer, Some(IpVersion::V4));
                let fp = list.iter().find(|a| a.is_ipv4() == prefer_v4);
                let fo = list.iter().find(|a| a.is_ipv4() != prefer_v4);
                if let (Some(p), Some(o)) = (fp, fo) {
                    assert_eq!(got.first(), Some(p), "first address: {:?} {:?} -> {:?}", prefer, list, got);
                    assert_eq!(got.get(1), Some(o), "second address: {:?} {:?} -> {:?}", prefer, list, got);
                }
            }
        }
    }

    // ---- sort.single_family: one family only (or nothing) -> the list as resolved ----
    #[test]
    fn sort_sweep_single_family_unchanged() {
        for list in all_lists(6) {
            let v4 = list.iter().filter(|a| a.is_ipv4()).count();
            if v4 != 0 && v4 != list.len() {
                continue;
            }
            for prefer in PREFS {
                assert_eq!(real_sort(&list, prefer), list, "single-family list changed: {:?}", prefer);
            }
        }
    }

    // ---- sort.version ----
    #[test]
    fn version_is_the_variant() {
        for a in pool() {
            assert_eq!(a.version() == IpVersion::V4, a.is_ipv4());
            assert_eq!(a.version() == IpVersion::V6, a.is_ipv6());
        }
    }

    // ---- pref.from_binding: IPv6 unless only an IPv4 local address is bound ----
    #[test]
    fn from_binding_table() {
        let v4 = Some(Ipv4Addr::LOCALHOST);
        let v6 = Some(Ipv6Addr::LOCALHOST);
        assert_eq!(IpVersion::from_binding(v4, None), Some(IpVersion::V4));
        assert_eq!(IpVersion::from_binding(None, v6), Some(IpVersion::V6));
        assert_eq!(IpVersion::from_binding(v4, v6), Some(IpVersion::V6));
        assert_eq!(IpVersion::from_binding(None, None), None);
        // ... and what the sort makes of each setting
        let p = pool();
        let list = [p[0], p[2], p[1], p[3]];
        assert_eq!(real_sort(&list, IpVersion::from_binding(v4, None))[0], p[0]);
        assert_eq!(real_sort(&list, IpVersion::from_binding(None, v6))[0], p[2]);
        assert_eq!(real_sort(&list, IpVersion::from_binding(v4, v6))[0], p[2]);
        assert_eq!(real_sort(&list, IpVersion::from_binding(None, None))[0], p[2]);
    }

    // ---- pref.from_binding, boundary values: a wildcard local address (0.0.0.0 / ::) IS a bound local address - the property
    // says "IPv6 unless only an IPv4 local address is bound", not "unless only a concrete one" (the socket of every attempt of
    // that family is bound to it all the same, `bind_local_address`) ----
    #[test]
    fn from_binding_wildcards() {
        let (any4, any6) = (Some(Ipv4Addr::UNSPECIFIED), Some(Ipv6Addr::UNSPECIFIED));
        let (lo4, lo6) = (Some(Ipv4Addr::LOCALHOST), Some(Ipv6Addr::LOCALHOST));
        assert_eq!(IpVersion::from_binding(any4, None), Some(IpVersion::V4));
        assert_eq!(IpVersion::from_binding(None, any6), Some(IpVersion::V6));
        assert_eq!(IpVersion::from_binding(any4, any6), Some(IpVersion::V6));
        assert_eq!(IpVersion::from_binding(lo4, any6), Some(IpVersion::V6));
        assert_eq!(IpVersion::from_binding(any4, lo6), Some(IpVersion::V6));
        for b in [Some(Ipv4Addr::BROADCAST), Some(Ipv4Addr::new(192, 0, 2, 1))] {
            assert_eq!(IpVersion::from_binding(b, None), Some(IpVersion::V4));
        }
    }

    // ---- sort.addrs.front ----
    #[test]
    fn pop_takes_from_the_front() {
        let p = pool();
        let mut addrs = SocketAddrs::from_iter([p[1], p[3], p[0]]);
        assert_eq!(addrs.len(), 3);
        assert!(!addrs.is_empty());
        assert_eq!(addrs.pop(), Some(p[1]));
        assert_eq!(addrs.pop(), Some(p[3]));
        assert_eq!(addrs.len(), 1);
        assert_eq!(addrs.pop(), Some(p[0]));
        assert!(addrs.is_empty());
        assert_eq!(addrs.pop(), None);
    }

    // ---- port.*: every list up to length 4, three ports; then sorted: every address still carries the request port ----
    #[test]
    fn set_port_sweep() {
        for list in all_lists(4) {
            for port in [0u16, 443, 65535] {
                let mut addrs = SocketAddrs::from_iter(list.iter().copied());
                addrs.set_port(port);
                let got = drain(addrs.clone());
                assert_eq!(got.len(), list.len());
                for (g, l) in got.iter().zip(list.iter()) {
                    assert_eq!(g.ip(), l.ip(), "set_port changed / reordered an address");
                    assert_eq!(g.port(), port, "address without the request port");
                }
                for prefer in PREFS {
                    let mut sorted = addrs.clone();
                    sorted.sort_preferred(prefer);
                    let sorted = drain(sorted);
                    assert!(sorted.iter().all(|a| a.port() == port), "port lost by sorting");
                    assert_eq!(sorted, spec_sort(&got, prefer));
                }
            }
        }
    }

    // ---- port.*: "position k is the old address with ONLY its port replaced": an IPv6 address carries more than ip and
    // port - the scope id (zone) of a link-local address and the flow info.  A rewrite that rebuilds the address from
    // (ip, port) turns `fe80::1%3` into the different address `fe80::1` (round 5, C16-r5m1) ----
    #[test]
    fn set_port_keeps_everything_but_the_port() {
        use std::net::SocketAddrV6;
        let scoped = SocketAddr::V6(SocketAddrV6::new("fe80::1".parse().unwrap(), 0, 0, 3));
        let flowed = SocketAddr::V6(SocketAddrV6::new("2001:db8::7".parse().unwrap(), 1, 0x1234, 0));
        let v4: SocketAddr = "192.0.2.1:9".parse().unwrap();
        for port in [0u16, 443, 65535] {
            let list = vec![v4, scoped, flowed, scoped];
            let mut addrs = SocketAddrs::from_iter(list.iter().copied());
            addrs.set_port(port);
            let got = drain(addrs);
            assert_eq!(got.len(), list.len());
            for (g, l) in got.iter().zip(list.iter()) {
                let mut want = *l;
                want.set_port(port);
                assert_eq!(*g, want, "set_port changed more than the port of {l:?}");
            }
        }
    }

    // ---- conn.*: `TcpTransport::connecting` seen through the public `connect_to_addrs` (one attempt at a time, so the
    // address that is tried FIRST is the one that gets the connection) ----
    mod connecting {
        use super::*;
        use crate::client::conn::transport::tcp::{TcpTransport, TcpTransportConfig};
        use crate::stream::tcp::TcpStream;
        use std::time::Duration;
        use tokio::net::TcpListener;

        async fn listeners() -> Option<(TcpListener, TcpListener)> {
            let l4 = TcpListener::bind((Ipv4Addr::LOCALHOST, 0)).await.ok()?;
            // no IPv6 loopback on this machine: nothing to observe
            let l6 = TcpListener::bind((Ipv6Addr::LOCALHOST, 0)).await.ok()?;
            Some((l4, l6))
        }

        fn transport(f: impl FnOnce(&mut TcpTransportConfig)) -> TcpTransport<GaiResolver, TcpStream> {
            let mut config = TcpTransportConfig::default();
            config.happy_eyeballs_concurrency = Some(1);
            config.connect_timeout = Some(Duration::from_secs(5));
            f(&mut config);
            TcpTransport::builder().with_config(config).with_gai_resolver().build()
        }

        async fn winner(t: &TcpTransport<GaiResolver, TcpStream>, addrs: Vec<SocketAddr>) -> SocketAddr {
            let stream = tokio::time::timeout(Duration::from_secs(20), t.connect_to_addrs(addrs))
                .await
                .expect("connect_to_addrs hangs")
                .expect("connect_to_addrs failed");
            stream.peer_addr().expect("peer_addr")
        }

        #[tokio::test]
        async fn sorted_list_is_used_when_happy_eyeballs_is_on() {
            let Some((l4, l6)) = listeners().await else { return };
            let (a4, a6) = (l4.local_addr().unwrap(), l6.local_addr().unwrap());
            // nothing bound: IPv6 first, whatever the resolver's order
            let t = transport(|c| c.happy_eyeballs_timeout = Some(Duration::from_secs(8)));
            assert_eq!(winner(&t, vec![a4, a6]).await, a6);
            assert_eq!(winner(&t, vec![a6, a4]).await, a6);
            // only an IPv4 local address bound: IPv4 first
            let t = transport(|c| {
                c.happy_eyeballs_timeout = Some(Duration::from_secs(8));
                c.local_address_ipv4 = Some(Ipv4Addr::LOCALHOST);
            });
            assert_eq!(winner(&t, vec![a6, a4]).await, a4);
            // both bound: IPv6 first
            let t = transport(|c| {
                c.happy_eyeballs_timeout = Some(Duration::from_secs(8));
                c.local_address_ipv4 = Some(Ipv4Addr::LOCALHOST);
                c.local_address_ipv6 = Some(Ipv6Addr::LOCALHOST);
            });
            assert_eq!(winner(&t, vec![a4, a6]).await, a6);
        }

        /// conn.sorted_list_is_used / pref.from_binding at the boundary values of the configuration (C16-r4m2: `connecting`
        /// filtered wildcard local addresses out of the arguments of `from_binding`): the family that is tried first is
        /// "IPv6 unless only an IPv4 local address is bound", and 0.0.0.0 / :: are bound local addresses like any other.
        #[tokio::test]
        async fn wildcard_local_addresses_count_as_bound() {
            let Some((l4, l6)) = listeners().await else { return };
            let (a4, a6) = (l4.local_addr().unwrap(), l6.local_addr().unwrap());
            let (any4, any6) = (Ipv4Addr::UNSPECIFIED, Ipv6Addr::UNSPECIFIED);
            for (v4, v6, want, what) in [
                (Some(any4), None, a4, "only 0.0.0.0 bound: IPv4 first"),
                (Some(Ipv4Addr::LOCALHOST), Some(any6), a6, "a concrete IPv4 address and :: bound: IPv6 first"),
                (None, Some(any6), a6, "only :: bound: IPv6 first"),
                (Some(any4), Some(any6), a6, "0.0.0.0 and :: bound: IPv6 first"),
                (Some(any4), Some(Ipv6Addr::LOCALHOST), a6, "0.0.0.0 and a concrete IPv6 address bound: IPv6 first"),
            ] {
                let t = transport(|c| {
                    c.happy_eyeballs_timeout = Some(Duration::from_secs(8));
                    c.local_address_ipv4 = v4;
                    c.local_address_ipv6 = v6;
                });
                for order in [vec![a4, a6], vec![a6, a4]] {
                    assert_eq!(winner(&t, order.clone()).await, want, "{what} (resolver order {order:?})");
                }
            }
        }

        /// a resolver that answers every host with the same addresses, all with port 0 (as a resolver does)
        #[derive(Clone)]
        struct FixedAnswer(Vec<SocketAddr>);
        impl tower::Service<Box<str>> for FixedAnswer {
            type Response = SocketAddrs;
            type Error = std::io::Error;
            type Future = std::future::Ready<Result<SocketAddrs, std::io::Error>>;
            fn poll_ready(&mut self, _: &mut Context<'_>) -> Poll<Result<(), Self::Error>> {
                Poll::Ready(Ok(()))
            }
            fn call(&mut self, _host: Box<str>) -> Self::Future {
                std::future::ready(Ok(SocketAddrs::from_iter(self.0.iter().map(|a| SocketAddr::new(a.ip(), 0)))))
            }
        }

        // ---- bounded stand-in A.tcp.connect_glue: `TcpTransport::connect` (async glue: resolve -> set_port -> connecting ->
        // connect), through the transport's public `Service::call`: the resolver's port-less answer gets the port of the
        // request URI, is sorted, and the first address of the sorted list is dialled ----
        #[tokio::test]
        async fn connect_glue_sets_the_uri_port_then_sorts() {
            use tower::Service as _;
            // two listeners on the SAME port, one per family
            let mut pair = None;
            for _ in 0..20 {
                let Ok(l4) = TcpListener::bind((Ipv4Addr::LOCALHOST, 0)).await else { return };
                let port = l4.local_addr().unwrap().port();
                match TcpListener::bind((Ipv6Addr::LOCALHOST, port)).await {
                    Ok(l6) => {
                        pair = Some((l4, l6));
                        break;
                    }
                    Err(e) if e.kind() == std::io::ErrorKind::AddrInUse => continue,
                    Err(_) => return, // no IPv6 loopback: nothing to observe
                }
            }
            let (l4, l6) = pair.expect("no port free in both families");
            let (a4, a6) = (l4.local_addr().unwrap(), l6.local_addr().unwrap());
            assert_eq!(a4.port(), a6.port());
            let uri = format!("http://replay.test:{}/", a4.port());
            for (answer, bind_v4, want) in [
                (vec![a4, a6], false, a6),
                (vec![a6, a4], false, a6),
                (vec![a6, a4], true, a4),
                (vec![a4, a6], true, a4),
            ] {
                let mut config = TcpTransportConfig::default();
                config.happy_eyeballs_concurrency = Some(1);
                config.happy_eyeballs_timeout = Some(Duration::from_secs(8));
                config.connect_timeout = Some(Duration::from_secs(5));
                if bind_v4 {
                    config.local_address_ipv4 = Some(Ipv4Addr::LOCALHOST);
                }
                let mut t: TcpTransport<FixedAnswer, TcpStream> =
                    TcpTransport::builder().with_config(config).with_resolver(FixedAnswer(answer.clone())).build();
                let (parts, _) = http::Request::get(uri.as_str()).body(()).unwrap().into_parts();
                let stream = tokio::time::timeout(Duration::from_secs(20), t.call(parts))
                    .await
                    .expect("transport call hangs")
                    .expect("transport call failed");
                assert_eq!(stream.peer_addr().expect("peer_addr"), want, "answer {:?}, v4 bound: {}", answer, bind_v4);
            }
        }

        #[tokio::test]
        async fn resolver_order_is_used_when_happy_eyeballs_is_off() {
            let Some((l4, l6)) = listeners().await else { return };
            let (a4, a6) = (l4.local_addr().unwrap(), l6.local_addr().unwrap());
            let t = transport(|c| c.happy_eyeballs_timeout = None);
            assert_eq!(winner(&t, vec![a4, a6]).await, a4);
            assert_eq!(winner(&t, vec![a6, a4]).await, a6);
        }
    }
}
