// Replay templates for the tls unit (C12, C17): concrete scenarios against the REAL crate.
// Compiled inside `crate::client::conn::transport::tls::verif_replays` (features tls, tls-ring, verif-hooks).
//
// Every scenario sends one request through the real `TlsTransportWrapper` (over an in-memory duplex
// transport) and looks at (a) what the caller gets - stream / error / panic - and (b) what the peer
// end of the stream receives first: a TLS ClientHello (parsed with rustls' own acceptor) and the
// server name in it.
use std::sync::Arc;
use std::time::Duration;

use futures_util::StreamExt as _;

use super::TlsTransportWrapper;
use crate::client::conn::transport::duplex::DuplexTransport;
use crate::fixtures;

#[derive(Debug, PartialEq, Eq)]
enum Caller {
    /// the connect future (or the task polling it) panicked
    Panicked,
    /// an error was returned to the caller
    Error(String),
    /// a stream was returned, or the handshake was still in progress when the observation ended
    HandshakeStartedOrDone,
}

#[derive(Debug, PartialEq, Eq)]
enum Wire {
    /// nothing was dialled
    NoConnection,
    /// the first bytes on the wire are a well-formed TLS ClientHello carrying this server name
    ClientHello { sni: Option<String> },
    /// the peer received something that is not a TLS ClientHello (or nothing at all)
    NotTls(String),
}

fn parts_for(uri: &str) -> Option<http::request::Parts> {
    let uri: http::Uri = uri.parse().ok()?;
    Some(http::Request::builder().uri(uri).body(()).ok()?.into_parts().0)
}

async fn drive(parts: http::request::Parts) -> (Caller, Wire) {
    fixtures::tls_install_default();
    let (client, incoming) = crate::stream::duplex::pair();
    let mut transport = TlsTransportWrapper::new(
        DuplexTransport::new(16 * 1024, client),
        Arc::new(fixtures::tls_client_config()),
    );

    // caller side, in its own task so that a panic is observed and not propagated
    let caller = tokio::spawn(async move {
        let fut = tower::Service::call(&mut transport, parts);
        tokio::time::timeout(Duration::from_millis(400), fut).await
    });

    // peer side: accept the raw duplex stream and let rustls parse what arrives first
    let peer = tokio::spawn(async move {
        let mut incoming = incoming.fuse();
        let io = match tokio::time::timeout(Duration::from_millis(300), incoming.next()).await {
            Ok(Some(Ok(io))) => io,
            _ => return Wire::NoConnection,
        };
        let acceptor = tokio_rustls::LazyConfigAcceptor::new(rustls::server::Acceptor::default(), io);
        match tokio::time::timeout(Duration::from_millis(300), acceptor).await {
            Ok(Ok(start)) => Wire::ClientHello {
                sni: start.client_hello().server_name().map(str::to_owned),
            },
            Ok(Err(e)) => Wire::NotTls(e.to_string()),
            Err(_) => Wire::NotTls("no complete TLS record within 300 ms".into()),
        }
    });

    let wire = peer.await.expect("peer task");
    let caller = match caller.await {
        Err(e) if e.is_panic() => Caller::Panicked,
        Err(e) => panic!("caller task: {e}"),
        Ok(Err(_elapsed)) => Caller::HandshakeStartedOrDone,
        Ok(Ok(Ok(_stream))) => Caller::HandshakeStartedOrDone,
        Ok(Ok(Err(e))) => Caller::Error(format!("{e:?}")),
    };
    (caller, wire)
}

/// every syntactically valid URI host, as `http::Uri` accepts it
const HOSTS: &[&str] = &[
    "example.com",
    "EXAMPLE.com",
    "localhost",
    "127.0.0.1",
    "[::1]",
    "[2001:db8::1]",
    "[::ffff:192.0.2.1]",
    "a_b.example",
    "xn--nxasmq6b.example",
    "1.2.3",
    "999.1.1.1",
    "a-.example",
    "-a.example",
    "exa~mple.com",
    "exa!mple.com",
    "a..b",
    "example.com.",
    "%41.example",
    "aaaaaaaaaaaaaaaaaaaaaaaaaaaaaaaaaaaaaaaaaaaaaaaaaaaaaaaaaaaaaaaaaaaaaaaaaaaaaaaa.example",
];

/// tls.no_panic [C12,C17]: whatever the host looks like, the caller gets a stream, a pending handshake
/// or an error - never a panic; and nothing but a TLS ClientHello is ever written to the transport.
#[tokio::test]
async fn no_panic_for_any_host() {
    let mut tried = 0;
    let mut bad = Vec::new();
    for scheme in ["https", "wss"] {
        for host in HOSTS {
            for port in ["", ":8443"] {
                let uri = format!("{scheme}://{host}{port}/path?q=1");
                let Some(parts) = parts_for(&uri) else { continue };
                tried += 1;
                let (caller, wire) = drive(parts).await;
                println!("{uri:60} caller={caller:?} wire={wire:?}");
                if caller == Caller::Panicked || matches!(wire, Wire::NotTls(_)) {
                    bad.push((uri, caller, wire));
                }
            }
        }
    }
    assert!(tried >= 20, "the URI parser rejected most of the host table ({tried} tried)");
    assert!(bad.is_empty(), "panicked / wrote plaintext for: {bad:#?}");
}

/// tls.sni_is_host [C12]: the server name in the ClientHello is the host of the URI - port, path and
/// user-info are not part of it; an IP literal (brackets removed) is dialled and carries no SNI.
#[tokio::test]
async fn sni_is_the_uri_host() {
    for (uri, sni) in [
        ("https://example.com/", Some("example.com")),
        ("https://example.com:8443/a/b?host=evil.example", Some("example.com")),
        ("wss://user@example.com:443/", Some("example.com")),
        ("https://a_b.example/", Some("a_b.example")),
        ("https://127.0.0.1/", None),
        ("https://[::1]/", None),
        ("https://[2001:db8::1]:8443/", None),
    ] {
        let (caller, wire) = drive(parts_for(uri).expect(uri)).await;
        println!("{uri:60} caller={caller:?} wire={wire:?}");
        assert_eq!(wire, Wire::ClientHello { sni: sni.map(str::to_owned) }, "{uri}");
        assert_ne!(caller, Caller::Panicked, "{uri}");
    }
    // a host that cannot be a server name is not replaced by some other name: nothing is dialled
    for uri in ["https://a-.example/", "https://1.2.3/", "wss://exa~mple.com:8443/"] {
        let Some(parts) = parts_for(uri) else { continue };
        let (caller, wire) = drive(parts).await;
        println!("{uri:60} caller={caller:?} wire={wire:?}");
        assert_eq!(wire, Wire::NoConnection, "{uri}");
    }
}

/// tls.no_host [C12]: without a host there is nothing to verify the certificate against: the request is
/// refused with `NoDomain` and nothing is dialled.
#[tokio::test]
async fn no_host_is_an_error() {
    let parts = http::Request::builder().uri("/only/a/path").body(()).unwrap().into_parts().0;
    let (caller, wire) = drive(parts).await;
    println!("caller={caller:?} wire={wire:?}");
    assert_eq!(caller, Caller::Error("NoDomain".into()));
    assert_eq!(wire, Wire::NoConnection);
}

/// tls.never_plain / tls.dials_valid [C12]: a valid host is dialled and the first thing the peer sees is
/// a TLS ClientHello; a host that cannot be a server name yields an error and no connection at all.
#[tokio::test]
async fn valid_hosts_handshake_invalid_hosts_error() {
    for uri in ["https://example.com/", "https://127.0.0.1:8443/", "wss://[::1]/"] {
        let (caller, wire) = drive(parts_for(uri).unwrap()).await;
        println!("{uri:40} caller={caller:?} wire={wire:?}");
        assert!(matches!(wire, Wire::ClientHello { .. }), "{uri}: {wire:?}");
        assert!(!matches!(caller, Caller::Panicked), "{uri}");
    }
    for uri in ["https://a-.example/", "https://1.2.3/"] {
        let Some(parts) = parts_for(uri) else { continue };
        let (caller, wire) = drive(parts).await;
        println!("{uri:40} caller={caller:?} wire={wire:?}");
        assert!(matches!(caller, Caller::Error(_)), "{uri}: {caller:?}");
        assert_eq!(wire, Wire::NoConnection, "{uri}");
    }
}

/// tls.new.sni / tls.stream.sni / tls.from.keeps_connect [C12]: `Stream::tls` / `TlsStream::new` start a
/// handshake for exactly the name they are given and write nothing before it.
#[tokio::test]
async fn stream_tls_offers_the_given_name() {
    use tokio::io::AsyncWriteExt as _;
    fixtures::tls_install_default();
    let (client, incoming) = crate::stream::duplex::pair();
    let peer = tokio::spawn(async move {
        let mut incoming = incoming.fuse();
        let io = incoming.next().await.unwrap().unwrap();
        let start = tokio_rustls::LazyConfigAcceptor::new(rustls::server::Acceptor::default(), io)
            .await
            .expect("first bytes must be a TLS ClientHello");
        start.client_hello().server_name().map(str::to_owned)
    });
    let io = client.connect(16 * 1024).await.unwrap();
    let mut stream = crate::client::conn::Stream::new(io).tls("replay.example", Arc::new(fixtures::tls_client_config()));
    // the first write drives the handshake; the application bytes must not reach the wire before it
    let _ = tokio::time::timeout(Duration::from_millis(300), stream.write_all(b"GET / HTTP/1.1\r\n\r\n")).await;
    assert_eq!(peer.await.unwrap().as_deref(), Some("replay.example"));
}

/// NOT an obligation (class A): the scheme -> TLS/plain decision of `TlsTransport::call` cannot be taken
/// by Verus (match arm with a guard and a `&mut` binding).  This scenario documents the assumed behaviour:
/// with a TLS configuration, https/wss start a handshake and other schemes go out without TLS.
#[tokio::test]
async fn assumed_scheme_decides_tls() {
    use crate::client::conn::transport::TlsTransport;
    use crate::info::HasTlsConnectionInfo as _;
    fixtures::tls_install_default();
    for (uri, tls) in [
        ("https://example.com/", true),
        ("wss://example.com/", true),
        ("http://example.com/", false),
        ("ws://example.com/", false),
        ("ftp://example.com/", false),
    ] {
        let (client, incoming) = crate::stream::duplex::pair();
        let mut transport = TlsTransport::new(DuplexTransport::new(16 * 1024, client))
            .with_tls(Arc::new(fixtures::tls_client_config()));
        let parts = parts_for(uri).unwrap();
        let caller = tokio::spawn(async move {
            let fut = tower::Service::call(&mut transport, parts);
            tokio::time::timeout(Duration::from_millis(300), fut).await
        });
        let peer = tokio::spawn(async move {
            let mut incoming = incoming.fuse();
            let io = incoming.next().await.unwrap().unwrap();
            let acceptor = tokio_rustls::LazyConfigAcceptor::new(rustls::server::Acceptor::default(), io);
            matches!(tokio::time::timeout(Duration::from_millis(300), acceptor).await, Ok(Ok(_)))
        });
        let saw_client_hello = peer.await.unwrap();
        let got = caller.await.expect("no panic");
        println!("{uri:30} client_hello={saw_client_hello} caller={:?}", got.as_ref().map(|r| r.as_ref().map(|s| s.tls_info().is_some()).map_err(|e| e.to_string())));
        assert_eq!(saw_client_hello, tls, "{uri}");
        if !tls {
            let stream = got.expect("plain connect completes").expect("plain connect succeeds");
            assert!(stream.tls_info().is_none(), "{uri}");
        }
    }
}

/// tls.sni_is_host with a caller-supplied Host header [C12]: the name offered and checked is the host of the
/// request URI, never the Host header
#[tokio::test]
async fn sni_ignores_host_header() {
    for (uri, host_hdr, sni) in [
        ("https://example.com/", "internal.test", Some("example.com")),
        ("wss://example.com:8443/x", "evil.example:8443", Some("example.com")),
        ("https://127.0.0.1/", "example.com", None),
    ] {
        let mut parts = parts_for(uri).expect(uri);
        parts.headers.insert(http::header::HOST, host_hdr.parse().unwrap());
        let (caller, wire) = drive(parts).await;
        assert_eq!(wire, Wire::ClientHello { sni: sni.map(str::to_owned) }, "{uri} with Host: {host_hdr}");
        assert_ne!(caller, Caller::Panicked, "{uri}");
    }
}

/// A.tls.scheme (bounded stand-in for `TlsTransport::call`, class A) [C12]: with a TLS configuration an https/wss
/// request to ANY syntactically valid host either starts a TLS handshake or fails - nothing else is ever written
/// to the transport and the caller never gets a plaintext stream; other schemes are not wrapped.
#[tokio::test]
async fn standin_scheme_never_plain() {
    use crate::client::conn::transport::TlsTransport;
    use crate::info::HasTlsConnectionInfo as _;
    fixtures::tls_install_default();
    for scheme in ["https", "wss", "http", "ws"] {
        for (hi, host) in HOSTS.iter().enumerate() {
            // every host without a port and with a neutral one; the first four hosts also with the ports that "mean" a
            // scheme elsewhere (80, 443) and port 1: the scheme alone decides, never the port
            let ports: &[&str] = if hi < 4 { &["", ":8443", ":80", ":443", ":1"] } else { &["", ":8443"] };
            for port in ports {
                let uri = format!("{scheme}://{host}{port}/p");
                let Some(parts) = parts_for(&uri) else { continue };
                let secure = scheme == "https" || scheme == "wss";
                let (client, incoming) = crate::stream::duplex::pair();
                let mut transport = TlsTransport::new(DuplexTransport::new(16 * 1024, client))
                    .with_tls(Arc::new(fixtures::tls_client_config()));
                let caller = tokio::spawn(async move {
                    let fut = tower::Service::call(&mut transport, parts);
                    tokio::time::timeout(Duration::from_millis(150), fut).await
                });
                let peer = tokio::spawn(async move {
                    let mut incoming = incoming.fuse();
                    let io = match tokio::time::timeout(Duration::from_millis(100), incoming.next()).await {
                        Ok(Some(Ok(io))) => io,
                        _ => return None,
                    };
                    let acceptor = tokio_rustls::LazyConfigAcceptor::new(rustls::server::Acceptor::default(), io);
                    Some(matches!(tokio::time::timeout(Duration::from_millis(100), acceptor).await, Ok(Ok(_))))
                });
                let wire = peer.await.unwrap();
                let got = caller.await;
                let got = match got { Err(e) if e.is_panic() => panic!("{uri}: connect panicked"), Err(e) => panic!("{e}"), Ok(g) => g };
                if secure {
                    assert_ne!(wire, Some(false), "{uri}: something other than a TLS ClientHello was sent for a secure scheme");
                    if let Ok(Ok(stream)) = &got {
                        assert!(stream.tls_info().is_some(), "{uri}: the caller received a plaintext stream for a secure scheme");
                    }
                    if wire.is_none() {
                        assert!(matches!(got, Ok(Err(_))), "{uri}: nothing dialled but no error reported");
                    }
                } else {
                    let stream = got.expect("plain connect completes").expect("plain connect succeeds");
                    assert!(stream.tls_info().is_none(), "{uri}: a non-TLS scheme was wrapped");
                }
            }
        }
    }
}


/// tls.sni_is_host across connects [C12]: one transport (and its clones - the pool clones the transport per connection)
/// used for several hosts offers, each time, the host of THAT request
#[tokio::test]
async fn sni_follows_each_request() {
    fixtures::tls_install_default();
    let (client, incoming) = crate::stream::duplex::pair();
    let transport = TlsTransportWrapper::new(DuplexTransport::new(16 * 1024, client), Arc::new(fixtures::tls_client_config()));
    let peer = tokio::spawn(async move {
        let mut incoming = incoming.fuse();
        let mut seen = vec![];
        for _ in 0..3 {
            let Ok(Some(Ok(io))) = tokio::time::timeout(Duration::from_millis(500), incoming.next()).await else { break };
            let acceptor = tokio_rustls::LazyConfigAcceptor::new(rustls::server::Acceptor::default(), io);
            match tokio::time::timeout(Duration::from_millis(300), acceptor).await {
                Ok(Ok(start)) => seen.push(start.client_hello().server_name().map(str::to_owned)),
                _ => seen.push(Some("<not tls>".into())),
            }
        }
        seen
    });
    let mut t1 = transport.clone();
    let mut t2 = transport.clone();
    let mut t3 = transport;
    for (t, uri) in [(&mut t1, "https://example.com/"), (&mut t2, "https://other.example/"), (&mut t3, "wss://third.example:8443/")] {
        let fut = tower::Service::call(t, parts_for(uri).unwrap());
        let _ = tokio::time::timeout(Duration::from_millis(150), fut).await;
    }
    let seen = peer.await.unwrap();
    assert_eq!(seen, vec![Some("example.com".to_string()), Some("other.example".to_string()), Some("third.example".to_string())],
        "the server name offered must be the host of each request's own URI");
}

/// what the peer of a client sees first when the client is asked for `uri`: the first five bytes on the wire
async fn first_bytes_on_the_wire(
    build: &dyn Fn(DuplexTransport) -> crate::client::Client,
    uri: &str,
) -> Result<[u8; 5], String> {
    use tokio::io::AsyncReadExt as _;
    let (tx, incoming) = crate::stream::duplex::pair();
    let mut client = build(DuplexTransport::new(16 * 1024, tx));
    let req = http::Request::builder()
        .uri(uri)
        .version(http::Version::HTTP_11)
        .header("x-secret", "hunter2")
        .body(crate::Body::from("hello world"))
        .unwrap();
    let request = tokio::spawn(async move { client.request(req).await.map(|_| ()).map_err(|e| format!("{e:?}")) });
    // the peer does not speak TLS (or anything): it only looks at the first bytes it is sent
    let wire = async {
        let mut incoming = incoming.fuse();
        let mut conn = match incoming.next().await {
            Some(Ok(conn)) => conn,
            _ => return Err("the client went away without connecting".to_string()),
        };
        let mut first = [0u8; 5];
        conn.read_exact(&mut first).await.map_err(|e| format!("connected, then: {e}"))?;
        Ok(first)
    };
    let seen = match tokio::time::timeout(Duration::from_secs(10), wire).await {
        Ok(seen) => seen,
        Err(_) => Err("nothing was sent within 10 s".to_string()),
    };
    request.abort();
    match (seen, request.await) {
        (Err(why), Ok(Err(e))) => Err(format!("{why}; the request failed with {e}")),
        (Err(why), Err(e)) if e.is_panic() => Err(format!("{why}; the request panicked")),
        (seen, _) => seen,
    }
}

/// A.builder.tls_wiring [C12] (bounded stand-in for `client::Builder`: every `with_*` method re-assembles the builder
/// field by field and `build_service` hands the TLS configuration to the transport - plain data plumbing through
/// generic tower types, no contract covers it): whatever the order of the builder calls that configure TLS and the
/// transport, an https / wss request through the built client starts with a TLS handshake record (0x16 0x03 ..),
/// never with the request in the clear.
#[tokio::test]
async fn standin_builder_tls_wiring() {
    use crate::client::conn::protocol::auto::HttpConnectionBuilder;
    use crate::client::conn::transport::tcp::TcpTransportConfig;
    use crate::client::{Builder, Client};
    use tower_http::follow_redirect::policy;
    fixtures::tls_install_default();
    let cfg = fixtures::tls_client_config;
    type Build = Box<dyn Fn(DuplexTransport) -> Client>;

    let orders: Vec<(&str, Build)> = vec![
        ("with_tls, with_protocol, with_default_pool, with_transport", Box::new(move |t| {
            Builder::new().with_tls(cfg()).with_protocol(hyper::client::conn::http1::Builder::new()).with_default_pool().with_transport(t).build()
        })),
        ("with_transport, with_tls", Box::new(move |t| {
            Builder::new().with_transport(t).with_tls(cfg()).with_auto_http().build()
        })),
        ("with_tls, with_transport", Box::new(move |t| {
            Builder::new().with_tls(cfg()).with_transport(t).with_auto_http().build()
        })),
        ("with_default_tls, with_transport", Box::new(|t| {
            Builder::new().with_default_tls().with_auto_http().with_transport(t).build()
        })),
        ("with_transport, with_default_tls", Box::new(|t| {
            Builder::new().with_auto_http().with_transport(t).with_default_tls().build()
        })),
        ("Builder::default(), with_transport", Box::new(|t| Builder::default().with_transport(t).build())),
        ("Client::build_tcp_http(), with_transport", Box::new(|t| Client::build_tcp_http().with_transport(t).build())),
        ("Builder::default(), with_tls, with_transport", Box::new(move |t| Builder::default().with_tls(cfg()).with_transport(t).build())),
        ("with_tls, with_tcp, with_transport", Box::new(move |t| {
            Builder::new().with_tls(cfg()).with_tcp(TcpTransportConfig::default()).with_auto_http().with_transport(t).build()
        })),
        ("*tls() = Some(..), with_transport", Box::new(move |t| {
            let mut b = Builder::new().with_auto_http();
            *b.tls() = Some(cfg());
            b.with_transport(t).build()
        })),
        ("without_tls, with_tls, with_transport", Box::new(move |t| {
            Builder::default().without_tls().with_tls(cfg()).with_transport(t).build()
        })),
        // TLS configured first, then every other method that re-assembles the builder, the transport last ...
        ("with_tls, <every re-assembling method>, with_transport", Box::new(move |t| {
            Builder::new()
                .with_tls(cfg())
                .with_auto_http()
                .with_protocol(HttpConnectionBuilder::default())
                .with_user_agent("replay/1".into())
                .with_redirect_policy(policy::Limited::default())
                .without_redirects()
                .with_standard_redirect_policy()
                .with_timeout(Duration::from_secs(30))
                .with_pool(Default::default())
                .with_body::<crate::Body, crate::Body>()
                .layer(tower::layer::util::Identity::new())
                .with_transport(t)
                .build()
        })),
        // ... and the transport first, TLS in the middle
        ("with_transport, with_tls, <every re-assembling method>", Box::new(move |t| {
            Builder::new()
                .with_transport(t)
                .with_tls(cfg())
                .with_auto_http()
                .with_protocol(HttpConnectionBuilder::default())
                .with_redirect_policy(policy::Limited::default())
                .without_redirects()
                .with_standard_redirect_policy()
                .with_optional_timeout(None)
                .without_pool()
                .with_body::<crate::Body, crate::Body>()
                .layer(tower::layer::util::Identity::new())
                .build()
        })),
    ];

    let mut wrong = Vec::new();
    for (order, build) in &orders {
        for uri in ["https://example.com/secret?token=hunter2", "wss://example.com:8443/secret?token=hunter2"] {
            let seen = first_bytes_on_the_wire(build.as_ref(), uri).await;
            println!("{order:62} {uri:45} -> {:02x?}", seen);
            match seen {
                Ok(first) if first[0] == 0x16 && first[1] == 0x03 => {}
                Ok(first) => wrong.push(format!("[{order}] {uri}: the peer received {:?} instead of a TLS handshake", String::from_utf8_lossy(&first))),
                Err(why) => wrong.push(format!("[{order}] {uri}: no TLS handshake was started: {why}")),
            }
        }
    }
    // the observation is able to see plaintext: an http request through the same clients starts with the request line
    for (order, build) in orders.iter().take(2) {
        let seen = first_bytes_on_the_wire(build.as_ref(), "http://example.com/public").await;
        assert_eq!(seen.as_ref().map(|b| &b[..]), Ok(&b"GET /"[..]), "[{order}] control: a plain http request is expected in the clear");
    }
    assert!(wrong.is_empty(), "TLS was configured, but https / wss traffic did not start with a TLS handshake:\n{}", wrong.join("\n"));
}

// =====================================================================================================================
// unit `tlsfuture` (C12, C17): `tls::future::TlsConnectionFuture::poll` and `future::TransportBraidFuture::poll` - the two
// connect futures that carry the TLS decision to the wire.  Scenarios through the public `TlsTransportWrapper` /
// `TlsTransport` over the in-memory duplex transport with a SCRIPTED peer.  Observed: what the caller gets (a stream -
// with or without a completed handshake -, which error variant, nothing, a panic) and every byte the peer received.
// =====================================================================================================================
mod tlsfuture {
    use std::sync::Arc;
    use std::time::Duration;

    use futures_util::StreamExt as _;
    use tokio::io::{AsyncReadExt as _, AsyncWriteExt as _};

    use super::{parts_for, TlsTransportWrapper};
    use crate::client::conn::transport::duplex::DuplexTransport;
    use crate::client::conn::transport::{TlsConnectionError, TlsTransport};
    use crate::fixtures;
    use crate::info::HasTlsConnectionInfo as _;
    use crate::stream::duplex::DuplexStream;

    /// The fixture certificate (CN example.com, SAN example.com + example.org, issued by tests/minica) has a fixed
    /// validity period (2023-12-28 .. 2026-01-27).  The scenarios are about names, not about dates: the client checks
    /// the chain, the signatures and the NAME as usual, at a point in time inside the validity period.
    #[derive(Debug)]
    struct MidValidity;
    impl rustls::time_provider::TimeProvider for MidValidity {
        fn current_time(&self) -> Option<rustls::pki_types::UnixTime> {
            // 2025-01-01T00:00:00Z
            Some(rustls::pki_types::UnixTime::since_unix_epoch(Duration::from_secs(1_735_689_600)))
        }
    }
    fn client_config() -> Arc<rustls::ClientConfig> {
        let mut cfg = fixtures::tls_client_config();
        cfg.time_provider = Arc::new(MidValidity);
        Arc::new(cfg)
    }

    /// which public entry the request goes through
    #[derive(Debug, Clone, Copy, PartialEq, Eq)]
    enum Via {
        /// `TlsTransportWrapper::call` -> `TlsConnectionFuture`
        Wrapper,
        /// `TlsTransport::with_tls(..)::call` -> `TransportBraidFuture` (Tls arm for https / wss, Plain arm otherwise)
        Braid,
    }

    /// what the scripted peer does with the connection it accepts
    #[derive(Debug, Clone, Copy, PartialEq, Eq)]
    enum Peer {
        /// the accepting side has gone away: the connect itself fails
        Gone,
        /// accept and close at once, before reading anything
        CloseAtOnce,
        /// read the first TLS record, then close
        CloseAfterHello,
        /// read the first TLS record, answer with bytes that are not TLS, keep reading until the client closes
        Garbage,
        /// read the first TLS record, answer with a well-formed TLS alert record (handshake_failure), keep reading
        Alert,
        /// a real TLS server with the fixture certificate (example.com / example.org)
        Tls,
        /// the same, but it does not touch the connection for the first 250 ms
        TlsLate,
        /// never answers (reads and discards)
        Silent,
    }

    #[derive(Debug)]
    enum Got {
        /// the connect future resolved to a stream; `handshaken`: the TLS handshake had completed when it was handed out
        /// (`tls_info()` is filled in by the handshake and by nothing else)
        Stream { handshaken: bool },
        Error(String),
        /// still pending when the observation ended
        Pending,
        Panicked,
    }

    #[derive(Debug, Default)]
    struct Seen {
        /// every byte the peer received on the accepted connection (scripts that read raw bytes)
        wire: Vec<u8>,
        /// the server name the real TLS server was offered
        sni: Option<String>,
        /// the real TLS server completed its side of the handshake
        server_handshake_ok: bool,
        accepted: bool,
    }

    fn error_variant<E: std::fmt::Debug>(e: &TlsConnectionError<E>) -> String {
        match e {
            TlsConnectionError::Connection(e) => format!("Connection({e:?})"),
            TlsConnectionError::Handshake(e) => format!("Handshake({e})"),
            TlsConnectionError::NoDomain => "NoDomain".into(),
            TlsConnectionError::InvalidDomain(d) => format!("InvalidDomain({d})"),
            TlsConnectionError::TlsDisabled => "TlsDisabled".into(),
            #[allow(unreachable_patterns)]
            other => format!("{other:?}"),
        }
    }

    /// the record types of a byte sequence that consists of complete TLS records and nothing else
    fn tls_record_types(mut b: &[u8]) -> Result<Vec<u8>, String> {
        let mut types = Vec::new();
        while !b.is_empty() {
            if b.len() < 5 {
                return Err(format!("trailing bytes that are no TLS record header: {:02x?}", b));
            }
            let (ty, major, minor, len) = (b[0], b[1], b[2], u16::from_be_bytes([b[3], b[4]]) as usize);
            if !(20..=23).contains(&ty) || major != 3 || minor > 4 || len > (1 << 14) + 256 {
                return Err(format!("not a TLS record header: {:02x?} ({:?})", &b[..5], String::from_utf8_lossy(&b[..b.len().min(24)])));
            }
            if b.len() < 5 + len {
                return Err(format!("truncated TLS record: header {:02x?}, {} of {} bytes", &b[..5], b.len() - 5, len));
            }
            types.push(ty);
            b = &b[5 + len..];
        }
        Ok(types)
    }

    async fn read_one_record(io: &mut DuplexStream, wire: &mut Vec<u8>) {
        let mut buf = [0u8; 4096];
        loop {
            if wire.len() >= 5 {
                let len = u16::from_be_bytes([wire[3], wire[4]]) as usize;
                if wire.len() >= 5 + len || wire[0] != 22 {
                    return;
                }
            }
            match tokio::time::timeout(Duration::from_millis(500), io.read(&mut buf)).await {
                Ok(Ok(n)) if n > 0 => wire.extend_from_slice(&buf[..n]),
                _ => return,
            }
        }
    }
    async fn read_until_closed(io: &mut DuplexStream, wire: &mut Vec<u8>, patience: Duration) {
        let mut buf = [0u8; 4096];
        loop {
            match tokio::time::timeout(patience, io.read(&mut buf)).await {
                Ok(Ok(n)) if n > 0 => wire.extend_from_slice(&buf[..n]),
                _ => return,
            }
        }
    }

    /// one request through the real transport against a scripted peer
    async fn connect(via: Via, uri: &str, peer: Peer, patience: Duration) -> (Got, Seen) {
        fixtures::tls_install_default();
        let (client, incoming) = crate::stream::duplex::pair();
        let inner = DuplexTransport::new(16 * 1024, client);
        let parts = parts_for(uri).expect(uri);

        let caller = tokio::spawn(async move {
            let res = match via {
                Via::Wrapper => {
                    let mut t = TlsTransportWrapper::new(inner, client_config());
                    let fut = tower::Service::call(&mut t, parts);
                    tokio::time::timeout(patience, fut).await
                }
                Via::Braid => {
                    let mut t = TlsTransport::new(inner).with_tls(client_config());
                    let fut = tower::Service::call(&mut t, parts);
                    tokio::time::timeout(patience, fut).await
                }
            };
            match res {
                Err(_elapsed) => (Got::Pending, None),
                // looked at BEFORE anything else touches the stream: the state in which the future handed it out
                // (the stream itself is kept open until the peer script has finished)
                Ok(Ok(stream)) => (Got::Stream { handshaken: stream.tls_info().is_some() }, Some(stream)),
                Ok(Err(e)) => (Got::Error(error_variant(&e)), None),
            }
        });

        let script = tokio::spawn(async move {
            let mut seen = Seen::default();
            if peer == Peer::Gone {
                drop(incoming);
                return seen;
            }
            let mut incoming = incoming.fuse();
            let mut io = match tokio::time::timeout(Duration::from_millis(500), incoming.next()).await {
                Ok(Some(Ok(io))) => io,
                _ => return seen,
            };
            seen.accepted = true;
            match peer {
                Peer::Gone => unreachable!(),
                Peer::CloseAtOnce => drop(io),
                Peer::CloseAfterHello => {
                    read_one_record(&mut io, &mut seen.wire).await;
                    drop(io);
                }
                Peer::Garbage => {
                    read_one_record(&mut io, &mut seen.wire).await;
                    let _ = io.write_all(b"HTTP/1.1 400 Bad Request\r\ncontent-length: 0\r\n\r\n").await;
                    let _ = io.flush().await;
                    read_until_closed(&mut io, &mut seen.wire, Duration::from_millis(300)).await;
                }
                Peer::Alert => {
                    read_one_record(&mut io, &mut seen.wire).await;
                    // alert(21), TLS 1.2, length 2: fatal(2) handshake_failure(40)
                    let _ = io.write_all(&[21, 3, 3, 0, 2, 2, 40]).await;
                    let _ = io.flush().await;
                    read_until_closed(&mut io, &mut seen.wire, Duration::from_millis(300)).await;
                }
                Peer::Silent => read_until_closed(&mut io, &mut seen.wire, Duration::from_millis(400)).await,
                Peer::Tls | Peer::TlsLate => {
                    if peer == Peer::TlsLate {
                        tokio::time::sleep(Duration::from_millis(250)).await;
                    }
                    let acceptor = tokio_rustls::LazyConfigAcceptor::new(rustls::server::Acceptor::default(), io);
                    if let Ok(Ok(start)) = tokio::time::timeout(Duration::from_millis(500), acceptor).await {
                        seen.sni = start.client_hello().server_name().map(str::to_owned);
                        let hs = start.into_stream(Arc::new(fixtures::tls_server_config()));
                        if let Ok(Ok(_tls)) = tokio::time::timeout(Duration::from_millis(500), hs).await {
                            seen.server_handshake_ok = true;
                        }
                    }
                }
            }
            seen
        });

        let (got, keep_open) = match caller.await {
            Err(e) if e.is_panic() => (Got::Panicked, None),
            Err(e) => panic!("caller task: {e}"),
            Ok(got) => got,
        };
        let seen = script.await.expect("peer task");
        drop(keep_open);
        println!("{via:?} {uri:32} peer={peer:?}: caller={got:?} accepted={} sni={:?} server_hs={} wire={} bytes", seen.accepted, seen.sni, seen.server_handshake_ok, seen.wire.len());
        (got, seen)
    }

    const SHORT: Duration = Duration::from_millis(1500);

    /// tf.handshake_result / tf.ok_only_after_handshake / bf.tls_passed_through / bf.tls_never_plain [C12]: a peer that does not
    /// complete the TLS handshake (garbage, alert, close) never makes the caller see a stream - the caller gets a
    /// `Handshake` error; and all the client ever wrote are TLS handshake / alert records (no application data, no plaintext).
    #[tokio::test]
    async fn tlsfuture_handshake_failure_is_an_error() {
        let mut bad = Vec::new();
        for via in [Via::Wrapper, Via::Braid] {
            for uri in ["https://example.com/secret?token=hunter2", "wss://example.com:8443/chat"] {
                for peer in [Peer::Garbage, Peer::Alert, Peer::CloseAfterHello, Peer::CloseAtOnce] {
                    let (got, seen) = connect(via, uri, peer, SHORT).await;
                    match &got {
                        Got::Error(e) if e.starts_with("Handshake(") => {}
                        other => bad.push(format!("{via:?} {uri} {peer:?}: expected a Handshake error, the caller got {other:?}")),
                    }
                    if !seen.accepted {
                        bad.push(format!("{via:?} {uri} {peer:?}: nothing was dialled"));
                    }
                    match tls_record_types(&seen.wire) {
                        Ok(types) => {
                            if peer != Peer::CloseAtOnce && types.first() != Some(&22) {
                                bad.push(format!("{via:?} {uri} {peer:?}: the first record is not a handshake record: {types:?}"));
                            }
                            if types.iter().any(|t| *t != 22 && *t != 21) {
                                bad.push(format!("{via:?} {uri} {peer:?}: something other than handshake / alert records was written before the handshake completed: {types:?}"));
                            }
                        }
                        Err(why) => bad.push(format!("{via:?} {uri} {peer:?}: the client wrote bytes that are no TLS records: {why}")),
                    }
                }
            }
        }
        assert!(bad.is_empty(), "{}", bad.join("\n"));
    }

    /// tf.own_domain / tf.handshake_entered_for_own_domain / th.stream.tls_session [C12]: the name offered and the name the
    /// certificate is checked against are the host of the request URI.  A server whose certificate is for another name is
    /// refused (`Handshake` error, never a stream); the same server is accepted under the names of its certificate, and then
    /// the stream is handed out with the handshake completed.
    #[tokio::test]
    async fn tlsfuture_certificate_for_another_name_is_refused() {
        for via in [Via::Wrapper, Via::Braid] {
            // control: the scenario is able to succeed
            for (uri, name) in [("https://example.com/", "example.com"), ("wss://example.org:8443/x", "example.org")] {
                let (got, seen) = connect(via, uri, Peer::Tls, SHORT).await;
                assert!(matches!(got, Got::Stream { handshaken: true }), "{via:?} {uri}: expected a stream with a completed handshake, got {got:?}");
                assert_eq!(seen.sni.as_deref(), Some(name), "{via:?} {uri}: server name offered");
                assert!(seen.server_handshake_ok, "{via:?} {uri}");
            }
            for (uri, name) in [("https://other.example/", "other.example"), ("https://example.net:8443/", "example.net"), ("wss://localhost/", "localhost")] {
                let (got, seen) = connect(via, uri, Peer::Tls, SHORT).await;
                assert_eq!(seen.sni.as_deref(), Some(name), "{via:?} {uri}: server name offered");
                match &got {
                    Got::Error(e) if e.starts_with("Handshake(") => {
                        assert!(e.contains("NotValidForName") || e.to_lowercase().contains("name"), "{via:?} {uri}: refused, but not because of the name: {e}");
                    }
                    other => panic!("{via:?} {uri}: the certificate is for example.com / example.org; expected a Handshake error, the caller got {other:?}"),
                }
            }
        }
    }

    /// tf.ok_only_after_handshake / tf.stays_live / tf.connect_pending [C12,C17]: while the peer has not answered the future is
    /// Pending (no stream, no error); polled on, the same future completes - with the handshake done.
    #[tokio::test]
    async fn tlsfuture_pending_until_the_handshake_completes() {
        for via in [Via::Wrapper, Via::Braid] {
            let (got, seen) = connect(via, "https://example.com/", Peer::Silent, Duration::from_millis(300)).await;
            assert!(matches!(got, Got::Pending), "{via:?}: a silent peer: expected Pending, got {got:?}");
            let types = tls_record_types(&seen.wire).unwrap_or_else(|why| panic!("{via:?}: not TLS records: {why}"));
            assert_eq!(types, vec![22], "{via:?}: a silent peer is sent one ClientHello and nothing else");

            let (got, seen) = connect(via, "https://example.com/", Peer::TlsLate, SHORT).await;
            assert!(matches!(got, Got::Stream { handshaken: true }), "{via:?}: a late peer: expected a stream with a completed handshake, got {got:?}");
            assert!(seen.server_handshake_ok && seen.sni.as_deref() == Some("example.com"), "{via:?}: {seen:?}");
        }
    }

    /// tf.connect_error / bf.plain_result / bf.tls_passed_through [C12]: a failure of the underlying connect is reported as
    /// `Connection(e)` - by the TLS future and by both arms of the braid future - and nothing is dialled.
    #[tokio::test]
    async fn tlsfuture_connect_failure_is_a_connection_error() {
        for (via, uri) in [
            (Via::Wrapper, "https://example.com/"),
            (Via::Braid, "https://example.com/"),
            (Via::Braid, "wss://example.com/"),
            (Via::Braid, "http://example.com/"),
            (Via::Braid, "ws://example.com:8080/"),
        ] {
            let (got, seen) = connect(via, uri, Peer::Gone, SHORT).await;
            assert!(matches!(&got, Got::Error(e) if e.starts_with("Connection(")), "{via:?} {uri}: expected a Connection error, got {got:?}");
            assert!(!seen.accepted);
        }
    }

    /// bf.plain_result / th.stream.new_is_plain [C12]: the Plain arm hands the connected stream on WITHOUT tls and writes nothing;
    /// bf.same_arm / bf.tls_never_plain: with the same transport an https request is never answered with such a stream.
    #[tokio::test]
    async fn tlsfuture_braid_arms_are_not_mixed_up() {
        for uri in ["http://example.com/", "ws://example.com:8080/chat"] {
            let (got, seen) = connect(Via::Braid, uri, Peer::Silent, SHORT).await;
            assert!(matches!(got, Got::Stream { handshaken: false }), "{uri}: expected a stream without TLS, got {got:?}");
            assert!(seen.accepted && seen.wire.is_empty(), "{uri}: connecting without TLS writes nothing: {:?}", String::from_utf8_lossy(&seen.wire));
        }
        for uri in ["https://example.com/", "wss://example.com:8080/chat"] {
            let (got, _) = connect(Via::Braid, uri, Peer::Silent, Duration::from_millis(300)).await;
            assert!(!matches!(got, Got::Stream { .. }), "{uri}: a stream was handed out although the peer never answered the ClientHello: {got:?}");
            let (got, _) = connect(Via::Braid, uri, Peer::Tls, SHORT).await;
            assert!(matches!(got, Got::Stream { handshaken: true }), "{uri}: {got:?}");
        }
    }

    /// tf.stored_error / tf.error.state / bf.tls_passed_through [C12,C17]: an error found by `call` (no host / a host that is no
    /// server name) comes out of the future unchanged, through both entries; nothing is dialled; polling does not panic.
    #[tokio::test]
    async fn tlsfuture_stored_error_is_returned_unchanged() {
        for via in [Via::Wrapper, Via::Braid] {
            let (got, seen) = connect(via, "https://a-.example/", Peer::Silent, SHORT).await;
            assert!(matches!(&got, Got::Error(e) if e == "InvalidDomain(a-.example)"), "{via:?}: {got:?}");
            assert!(!seen.accepted, "{via:?}: an unusable host must not be dialled");
        }
        // no host at all (only the wrapper can be asked: the braid needs a scheme to choose TLS)
        fixtures::tls_install_default();
        let (client, _incoming) = crate::stream::duplex::pair();
        let mut t = TlsTransportWrapper::new(DuplexTransport::new(1024, client), client_config());
        let parts = http::Request::builder().uri("/only/a/path").body(()).unwrap().into_parts().0;
        let got = tokio::time::timeout(SHORT, tower::Service::call(&mut t, parts)).await.expect("resolves at once");
        assert!(matches!(got, Err(TlsConnectionError::NoDomain)), "{:?}", got.map(|_| "a stream"));
    }

    /// tf.polled_live / tf.stays_live / tf.poll.no_panic / bf.* [C17]: polled by hand, one poll at a time, against every peer
    /// script: no poll panics, a Ready result is the last one asked for, and a future that returned Pending is still usable.
    #[tokio::test]
    async fn tlsfuture_never_panics_when_polled_to_completion() {
        for via in [Via::Wrapper, Via::Braid] {
            for uri in ["https://example.com/", "https://other.example/", "https://a-.example/", "https://[::1]:8443/", "http://example.com/"] {
                if via == Via::Wrapper && uri.starts_with("http://") {
                    continue;
                }
                for peer in [Peer::Gone, Peer::CloseAtOnce, Peer::CloseAfterHello, Peer::Garbage, Peer::Alert, Peer::Tls, Peer::TlsLate] {
                    let (got, _) = connect(via, uri, peer, SHORT).await;
                    assert!(!matches!(got, Got::Panicked), "{via:?} {uri} {peer:?}: the connect future panicked");
                    if let Got::Stream { handshaken } = got {
                        assert_eq!(handshaken, uri.starts_with("https://"), "{via:?} {uri} {peer:?}: TLS state of the stream handed out");
                    }
                }
            }
        }
    }
}
