// Replay templates for the accept unit (C09): concrete scenarios against the REAL crate.
// Compiled inside `crate::server::conn::drivers::verif_replays` (feature verif-hooks, test builds).
use super::*;
use crate::stream::duplex;
use std::future::poll_fn;

fn noop_cx_poll<F: Future + Unpin>(f: &mut F) -> Poll<F::Output> {
    let waker = futures_util::task::noop_waker();
    let mut cx = Context::from_waker(&waker);
    Pin::new(f).poll(&mut cx)
}

/// acc.err_only_closed / acc.skip_only_dead / acc.ok_acked [C09] (F2): a client queues a connect request and
/// gives up; a second, healthy client connects.  The listener is intact (a `DuplexClient` is alive), so
/// `poll_accept` must not report an error - it has to skip the dead request and hand out the healthy one.
#[tokio::test]
async fn acc_err_only_closed() {
    let (client, mut incoming) = duplex::pair();
    {
        let mut fut = Box::pin(client.connect(1024));
        // first poll: the request is queued; then the caller gives up
        assert!(futures_util::poll!(&mut fut).is_pending());
        drop(fut);
    }
    let c2 = client.clone();
    let good = tokio::spawn(async move { c2.connect(1024).await });
    let accepted = tokio::time::timeout(
        std::time::Duration::from_secs(5),
        poll_fn(|cx| Pin::new(&mut incoming).poll_accept(cx)),
    )
    .await
    .expect("poll_accept must complete once the healthy client has connected");
    assert!(
        accepted.is_ok(),
        "poll_accept reported {:?} although the listener is intact: one client cancelled its connect (F2)",
        accepted.as_ref().err()
    );
    // the stream that was handed out belongs to the healthy client
    let client_side = good.await.unwrap();
    assert!(client_side.is_ok(), "the healthy client was not served");
    drop(client);
}

/// acc.skip_only_dead [C09]: with only a cancelled request in the queue and the listener intact, the acceptor
/// keeps waiting (`Pending`), it neither fails nor invents a connection.
#[tokio::test]
async fn acc_dead_request_then_pending() {
    let (client, mut incoming) = duplex::pair();
    {
        let mut fut = Box::pin(client.connect(64));
        assert!(futures_util::poll!(&mut fut).is_pending());
        drop(fut);
    }
    let waker = futures_util::task::noop_waker();
    let mut cx = Context::from_waker(&waker);
    let r = Pin::new(&mut incoming).poll_accept(&mut cx);
    assert!(r.is_pending(), "expected Pending after skipping a cancelled connect, got {:?}", r.map(|x| x.map(|_| ())));
    drop(client);
}

/// acc.closed_reported: the loss of the listener itself (every `DuplexClient` dropped) *is* reported.
#[tokio::test]
async fn acc_listener_lost() {
    let (client, mut incoming) = duplex::pair();
    drop(client);
    let r = tokio::time::timeout(std::time::Duration::from_secs(5), poll_fn(|cx| Pin::new(&mut incoming).poll_accept(cx)))
        .await
        .expect("all clients are gone: poll_accept must complete (and report the loss of the listener)");
    assert!(r.is_err(), "all clients are gone: poll_accept must report the loss of the listener");
}

/// acc.ok_acked [C09]: the accepted stream is the other half of the pipe the connecting client received.
#[tokio::test]
async fn acc_ok_acked() {
    use tokio::io::{AsyncReadExt, AsyncWriteExt};
    let (client, mut incoming) = duplex::pair();
    let (c, s) = tokio::time::timeout(std::time::Duration::from_secs(5), async {
        tokio::join!(client.connect(1024), poll_fn(|cx| Pin::new(&mut incoming).poll_accept(cx)))
    })
    .await
    .expect("connect/accept pair completes");
    let (mut c, mut s) = (c.unwrap(), s.unwrap());
    c.write_all(b"ping").await.unwrap();
    let mut buf = [0u8; 4];
    s.read_exact(&mut buf).await.unwrap();
    assert_eq!(&buf, b"ping");
}

struct Script(Vec<Poll<Result<(), &'static str>>>, usize);
impl Future for Script {
    type Output = Result<(), &'static str>;
    fn poll(mut self: Pin<&mut Self>, _cx: &mut Context<'_>) -> Poll<Self::Output> {
        self.1 += 1;
        if self.0.is_empty() { Poll::Pending } else { self.0.remove(0) }
    }
}

/// cd.swallow [C09]: the driver is `Ready(())` exactly when the connection future is `Ready(_)` - `Ok` or `Err`
/// alike, without a panic - and it polls the connection once per call.
#[test]
fn cd_swallow() {
    let mut d: ConnectionDriver<Script, &'static str> =
        ConnectionDriver::new(Script(vec![Poll::Pending, Poll::Ready(Err("handler failed"))], 0));
    assert!(noop_cx_poll(&mut d).is_pending());
    assert_eq!(d.conn.1, 1);
    assert!(noop_cx_poll(&mut d).is_ready());
    assert_eq!(d.conn.1, 2);

    let mut d: ConnectionDriver<Script, &'static str> = ConnectionDriver::new(Script(vec![Poll::Ready(Ok(()))], 0));
    assert!(noop_cx_poll(&mut d).is_ready());
    assert_eq!(d.conn.1, 1);
}

/// unix.err_only_listener (replay only - `impl Accept for UnixListener` is outside Verus' subset): a client whose
/// own socket is bound to a path that is not UTF-8 connects.  The listener is intact, so `poll_accept` must not
/// report an error (any `Err` from `poll_accept` ends the serving future).
#[cfg(all(unix, feature = "client"))]
#[tokio::test]
async fn unix_peer_path_not_utf8() {
    use std::os::unix::ffi::OsStrExt;
    let dir = std::env::temp_dir().join(format!("verif-unix-{}", std::process::id()));
    let _ = std::fs::remove_dir_all(&dir);
    std::fs::create_dir_all(&dir).unwrap();
    let server_path = dir.join("server.sock");
    let mut listener = crate::stream::unix::UnixListener::bind(&server_path).unwrap();

    // client socket bound to a path that is not valid UTF-8 (perfectly legal on unix)
    let mut raw = dir.as_os_str().as_bytes().to_vec();
    raw.extend_from_slice(b"/client-\xff\xfe.sock");
    let client_path = std::path::PathBuf::from(std::ffi::OsStr::from_bytes(&raw));
    let sock = socket2::Socket::new(socket2::Domain::UNIX, socket2::Type::STREAM, None).unwrap();
    sock.bind(&socket2::SockAddr::unix(&client_path).unwrap()).unwrap();
    sock.connect(&socket2::SockAddr::unix(&server_path).unwrap()).unwrap();

    let r = tokio::time::timeout(
        std::time::Duration::from_secs(5),
        poll_fn(|cx| Pin::new(&mut listener).poll_accept(cx)),
    )
    .await
    .expect("accept completes");
    let _ = std::fs::remove_dir_all(&dir);
    assert!(
        r.is_ok(),
        "poll_accept reported {:?} for an intact listener: the peer's socket path is not UTF-8",
        r.as_ref().err()
    );
    // the accept loop records the connection info of every accepted stream (inside the serving future): that must
    // not panic for this peer either
    use crate::info::HasConnectionInfo as _;
    let stream = r.unwrap();
    let info = std::panic::catch_unwind(std::panic::AssertUnwindSafe(|| stream.info()));
    assert!(info.is_ok(), "info() of a stream accepted from a peer bound to a non-UTF-8 path panicked (inside the accept loop)");
}

/// acc.next_* [C09]: the `Stream` view of the listener: a cancelled connect yields no error item, the healthy
/// client is served, and the stream ends (`None`) only when every client handle is gone.
#[tokio::test]
async fn acc_next_no_err() {
    use futures_util::StreamExt;
    let (client, mut incoming) = duplex::pair();
    {
        let mut fut = Box::pin(client.connect(1024));
        assert!(futures_util::poll!(&mut fut).is_pending());
        drop(fut);
    }
    let c2 = client.clone();
    let good = tokio::spawn(async move { c2.connect(1024).await });
    let item = tokio::time::timeout(std::time::Duration::from_secs(5), incoming.next()).await.expect("item");
    assert!(matches!(item, Some(Ok(_))), "expected the healthy client's stream, got an error item or the end");
    assert!(good.await.unwrap().is_ok());
    drop(client);
    let end = tokio::time::timeout(std::time::Duration::from_secs(5), incoming.next()).await.expect("stream ends");
    assert!(end.is_none(), "all clients gone: the stream ends");
}

/// A scripted acceptor for the TLS wrapper: counts polls, never performs I/O.
#[cfg(feature = "tls")]
struct ScriptAccept(Vec<Poll<Result<duplex::DuplexStream, std::io::Error>>>, usize);
#[cfg(feature = "tls")]
impl crate::server::conn::Accept for ScriptAccept {
    type Conn = duplex::DuplexStream;
    type Error = std::io::Error;
    fn poll_accept(mut self: Pin<&mut Self>, _cx: &mut Context<'_>) -> Poll<Result<Self::Conn, Self::Error>> {
        self.1 += 1;
        if self.0.is_empty() { Poll::Pending } else { self.0.remove(0) }
    }
}

/// tls.err_is_listener / tls.lazy_handshake / tls.polls_once [C09]: the TLS acceptor hands a connection on at
/// once (no handshake I/O inside the accept loop: the peer never wrote a byte), passes the listener's own error
/// through, and is pending iff the listener is.
#[cfg(feature = "tls")]
#[test]
fn tls_accept_is_lazy() {
    use crate::server::conn::tls::TlsAcceptor;
    let _ = rustls::crypto::ring::default_provider().install_default();
    let config = std::sync::Arc::new(
        rustls::ServerConfig::builder()
            .with_no_client_auth()
            .with_cert_resolver(std::sync::Arc::new(rustls::server::ResolvesServerCertUsingSni::new())),
    );
    let (server_side, _silent_client) = duplex::DuplexStream::new(64);
    let script = ScriptAccept(
        vec![
            Poll::Pending,
            Poll::Ready(Ok(server_side)),
            Poll::Ready(Err(std::io::Error::new(std::io::ErrorKind::Other, "listener gone"))),
        ],
        0,
    );
    let mut acc = TlsAcceptor::new(config, script);
    let waker = futures_util::task::noop_waker();
    let mut cx = Context::from_waker(&waker);
    assert!(Pin::new(&mut acc).poll_accept(&mut cx).is_pending());
    // the client has not sent (and never sends) a ClientHello: the connection is returned all the same
    match Pin::new(&mut acc).poll_accept(&mut cx) {
        Poll::Ready(Ok(_tls_stream)) => {}
        other => panic!("expected the wrapped connection at once, got {:?}", other.map(|r| r.map(|_| ()))),
    }
    match Pin::new(&mut acc).poll_accept(&mut cx) {
        Poll::Ready(Err(e)) => assert_eq!(e.to_string(), "listener gone"),
        other => panic!("expected the listener's error, got {:?}", other.map(|r| r.map(|_| ()))),
    }
}

/// acc.pending_registered [C09]: a dead request followed - later - by a live one: after skipping the dead
/// request the acceptor must either look at the queue again or be woken by the next send; it must not stall.
#[tokio::test]
async fn acc_dead_request_then_live() {
    let (client, mut incoming) = duplex::pair();
    {
        let mut fut = Box::pin(client.connect(64));
        assert!(futures_util::poll!(&mut fut).is_pending());
        drop(fut);
    }
    let server = tokio::spawn(async move { poll_fn(|cx| Pin::new(&mut incoming).poll_accept(cx)).await.map(|_| ()) });
    // let the acceptor consume the dead request and go to sleep
    for _ in 0..5 { tokio::task::yield_now().await; }
    let c = tokio::time::timeout(std::time::Duration::from_secs(5), client.connect(64)).await;
    assert!(c.is_ok() && c.unwrap().is_ok(), "the live client was never accepted: the acceptor stalled");
    assert!(tokio::time::timeout(std::time::Duration::from_secs(5), server).await.expect("acceptor finished").unwrap().is_ok());
}

/// tcp.info.no_panic [C09]: a stream handed out by the TCP acceptor answers `info()` without consulting the OS for the
/// peer address (a client that reset its connection in the listen backlog makes getpeername() fail with ENOTCONN)
#[cfg(feature = "stream")]
#[tokio::test]
async fn tcp_info_after_peer_reset() {
    use crate::info::HasConnectionInfo as _;
    let listener = tokio::net::TcpListener::bind("127.0.0.1:0").await.unwrap();
    let addr = listener.local_addr().unwrap();
    // connect, then reset (SO_LINGER=0 close) while the connection still sits in the backlog
    let s = std::net::TcpStream::connect(addr).unwrap();
    let sock = socket2::Socket::from(s);
    sock.set_linger(Some(std::time::Duration::ZERO)).unwrap();
    drop(sock);
    tokio::time::sleep(std::time::Duration::from_millis(50)).await;
    let (inner, remote) = tokio::time::timeout(std::time::Duration::from_secs(5), listener.accept()).await.expect("accept timed out").unwrap();
    let stream = crate::stream::tcp::TcpStream::server(inner, remote);
    let r = std::panic::catch_unwind(std::panic::AssertUnwindSafe(|| stream.info()));
    assert!(r.is_ok(), "info() of an accepted stream panicked after the peer reset the connection");
}


/// tcp.accept.* [C09]: the TCP acceptor (`impl Accept for TcpListener`) hands out, for a peer that reset its
/// connection while it sat in the listen backlog and for an ordinary peer alike, `Ok(stream)` - never an error of its
/// own - and the stream answers `info()` / `peer_addr()` from the remembered address, which is the peer's.
#[cfg(feature = "stream")]
#[tokio::test]
async fn tcp_accept_through_trait() {
    use crate::info::HasConnectionInfo as _;
  // both address families: the remembered peer must not depend on the family of the peer's address
  for bind in ["127.0.0.1:0", "[::1]:0"] {
    let mut listener = match crate::stream::tcp::TcpListener::bind(bind).await {
        Ok(l) => l,
        Err(_) if bind.starts_with('[') => continue, // no IPv6 loopback on this machine
        Err(e) => panic!("bind {bind}: {e}"),
    };
    let addr = listener.local_addr().unwrap();
    // nothing to accept: Pending, not an error
    assert!(noop_cx_poll_accept(&mut listener).is_pending(), "an idle listener must answer Pending");
    let s = std::net::TcpStream::connect(addr).unwrap();
    let sock = socket2::Socket::from(s);
    sock.set_linger(Some(std::time::Duration::ZERO)).unwrap();
    drop(sock);
    tokio::time::sleep(std::time::Duration::from_millis(50)).await;
    let live = std::net::TcpStream::connect(addr).unwrap();
    let live_addr = live.local_addr().unwrap();
    for k in 0..2 {
        let r = tokio::time::timeout(std::time::Duration::from_secs(5), poll_fn(|cx| Pin::new(&mut listener).poll_accept(cx)))
            .await
            .expect("accept timed out");
        let stream = r.expect("the listener is intact: the acceptor must not report an error");
        let info = std::panic::catch_unwind(std::panic::AssertUnwindSafe(|| stream.info()));
        assert!(info.is_ok(), "info() of accepted stream {k} ({bind}) panicked");
        assert!(stream.peer_addr().is_ok(), "peer_addr() of accepted stream {k} ({bind}) consulted the OS and failed");
        if k == 1 {
            assert_eq!(stream.peer_addr().unwrap(), live_addr, "the remembered peer address is not the peer's");
        }
    }
  }
}

#[cfg(feature = "stream")]
fn noop_cx_poll_accept(l: &mut crate::stream::tcp::TcpListener) -> Poll<std::io::Result<crate::stream::tcp::TcpStream>> {
    let waker = futures_util::task::noop_waker();
    let mut cx = Context::from_waker(&waker);
    Pin::new(l).poll_accept(&mut cx)
}

/// core.* / braid.* [C09]: the `AcceptorCore` dispatch over each of its three listeners - an idle listener gives
/// Pending, a connected peer gives `Ok(braid)` of the listener's own kind (never an error of the dispatch), and the
/// loss of the duplex listener is reported, not hidden.
#[cfg(all(unix, feature = "stream"))]
#[tokio::test]
async fn core_dispatch_three_listeners() {
    use crate::info::{BraidAddr, HasConnectionInfo as _};
    use crate::server::conn::AcceptorCore;
    fn poll_once(a: &mut AcceptorCore) -> Poll<std::io::Result<crate::stream::Braid>> {
        let waker = futures_util::task::noop_waker();
        let mut cx = Context::from_waker(&waker);
        Pin::new(a).poll_accept(&mut cx)
    }
    async fn accept(a: &mut AcceptorCore) -> std::io::Result<crate::stream::Braid> {
        tokio::time::timeout(std::time::Duration::from_secs(5), poll_fn(|cx| Pin::new(&mut *a).poll_accept(cx)))
            .await
            .expect("accept timed out")
    }
    // TCP
    let l = crate::stream::tcp::TcpListener::bind("127.0.0.1:0").await.unwrap();
    let addr = l.local_addr().unwrap();
    let mut core = AcceptorCore::from(l);
    assert!(poll_once(&mut core).is_pending(), "core.pending_is_listener (tcp)");
    let peer = std::net::TcpStream::connect(addr).unwrap();
    let b = accept(&mut core).await.expect("core.err_is_listener (tcp): the listener is intact");
    match b.info().remote_addr() {
        BraidAddr::Tcp(a) => assert_eq!(*a, peer.local_addr().unwrap(), "core.same_conn (tcp)"),
        other => panic!("braid.from_tcp: a TCP connection came out as {other:?}"),
    }
    // duplex
    let (client, incoming) = duplex::pair();
    let mut core = AcceptorCore::from(incoming);
    assert!(poll_once(&mut core).is_pending(), "core.pending_is_listener (duplex)");
    let (c, s) = tokio::join!(client.connect(64), accept(&mut core));
    let (mut c, mut s) = (c.unwrap(), s.expect("core.err_is_listener (duplex): the listener is intact"));
    assert!(matches!(s.info().remote_addr(), BraidAddr::Duplex), "braid.from_duplex");
    {
        use tokio::io::{AsyncReadExt, AsyncWriteExt};
        c.write_all(b"ping").await.unwrap();
        let mut buf = [0u8; 4];
        s.read_exact(&mut buf).await.unwrap();
        assert_eq!(&buf, b"ping", "core.same_conn (duplex)");
    }
    drop(client);
    drop(c);
    assert!(accept(&mut core).await.is_err(), "core.err_is_listener (duplex): the loss of the listener was hidden");
    // Unix
    let dir = std::env::temp_dir().join(format!("verif-core-{}", std::process::id()));
    let _ = std::fs::remove_dir_all(&dir);
    std::fs::create_dir_all(&dir).unwrap();
    let path = dir.join("server.sock");
    let l = crate::stream::unix::UnixListener::bind(&path).unwrap();
    let mut core = AcceptorCore::from(l);
    assert!(poll_once(&mut core).is_pending(), "core.pending_is_listener (unix)");
    let _peer = std::os::unix::net::UnixStream::connect(&path).unwrap();
    let b = accept(&mut core).await.expect("core.err_is_listener (unix): the listener is intact");
    assert!(matches!(b.info().remote_addr(), BraidAddr::Unix(_)), "braid.from_unix");
    let _ = std::fs::remove_dir_all(&dir);
}

/// acc.pending_registered / acc.skip_only_dead [C09]: any number of stale connect requests in front of a live one -
/// one, a few, a whole queue (the channel holds 32), more than a queue - never stalls or ends the acceptor
#[tokio::test]
async fn acc_many_stale_then_live() {
    use futures_util::FutureExt as _;
    for stale in [1usize, 2, 5, 31, 32] {
        let (client, mut incoming) = duplex::pair();
        for _ in 0..stale {
            let _ = client.connect(64).now_or_never(); // queued, then the caller gives up
        }
        // the acceptor task sees the stale requests in its first poll and goes to sleep on the empty queue; only a
        // registered waker can bring it back when the live client arrives
        let acceptor = tokio::spawn(async move {
            let r = poll_fn(|cx| Pin::new(&mut incoming).poll_accept(cx)).await;
            r.map(|_| ())
        });
        for _ in 0..5 { tokio::task::yield_now().await; }
        assert!(!acceptor.is_finished(), "{stale} cancelled connects ended the acceptor");
        let c2 = client.clone();
        let good = tokio::spawn(async move { c2.connect(64).await });
        let accepted = tokio::time::timeout(std::time::Duration::from_secs(3), acceptor).await;
        assert!(matches!(accepted, Ok(Ok(Ok(())))), "after {stale} cancelled connects the acceptor no longer accepts a live client: {accepted:?}");
        assert!(good.await.unwrap().is_ok());
        drop(client);
    }
}

/// acc.err_only_closed / acc.skip_only_dead / acc.ok_acked / acc.next_no_err [C09], and the assumed contract of
/// `DuplexConnectionRequest::ack` (class A: "Err iff the connecting client went away"), at the boundary values of the
/// buffer size a client may ask for (0, 1, usize::MAX) and a server may cap it to (`with_max_buf_size`): a LIVE client with
/// an odd request is still a connection - the acceptor hands it out (what the client can do with a pipe without capacity is
/// its own problem), it never reports an error while the listener is intact, and the next, ordinary client is accepted too.
/// Through `Accept::poll_accept` and through the `Stream` view.  (C09-r4m2: `ack` refused size 0 with InvalidInput and
/// `poll_accept` returned every error other than ConnectionReset - one `connect(0)` ended the server.)
#[tokio::test]
async fn acc_odd_buffer_sizes() {
    use futures_util::StreamExt as _;
    use std::time::Duration;
    use tokio::io::{AsyncReadExt as _, AsyncWriteExt as _};
    for via_stream in [false, true] {
        for cap in [None, Some(0usize), Some(1), Some(usize::MAX)] {
            for size in [0usize, 1, usize::MAX, 1024] {
                let what = format!("client asks for {size} bytes, server cap {cap:?}, via {}", if via_stream { "Stream::poll_next" } else { "Accept::poll_accept" });
                let (client, incoming) = duplex::pair();
                let mut incoming = match cap {
                    Some(c) => incoming.with_max_buf_size(c),
                    None => incoming,
                };
                for (n, ask) in [size, 1024].into_iter().enumerate() {
                    let who = if n == 0 { "the client with the odd request" } else { "the ordinary client after it" };
                    let c = client.clone();
                    let connecting = tokio::spawn(async move { c.connect(ask).await });
                    let accepted = tokio::time::timeout(Duration::from_secs(5), async {
                        if via_stream {
                            incoming.next().await.unwrap_or_else(|| panic!("{what}: the stream of connections ended although a client handle is alive"))
                        } else {
                            poll_fn(|cx| Pin::new(&mut incoming).poll_accept(cx)).await
                        }
                    })
                    .await
                    .unwrap_or_else(|_| panic!("{what}: {who} is waiting in the queue, the acceptor does not hand it out"));
                    let mut server_side = accepted.unwrap_or_else(|e| {
                        panic!("{what}: the acceptor reported `{e}` for {who} although the listener is intact (an accept error ends the serving future)")
                    });
                    let mut client_side = tokio::time::timeout(Duration::from_secs(5), connecting)
                        .await
                        .unwrap_or_else(|_| panic!("{what}: {who} got no answer"))
                        .unwrap()
                        .unwrap_or_else(|e| panic!("{what}: {who} is alive and was accepted, but its connect() reported `{e}`"));
                    // the two ends belong together (whenever the pipe can carry a byte at all)
                    let effective = cap.map_or(ask, |c| c.min(ask));
                    if effective > 0 {
                        client_side.write_all(b"x").await.unwrap();
                        let mut byte = [0u8; 1];
                        tokio::time::timeout(Duration::from_secs(5), server_side.read_exact(&mut byte))
                            .await
                            .unwrap_or_else(|_| panic!("{what}: the accepted stream is not the other end of what {who} received"))
                            .unwrap();
                        assert_eq!(&byte, b"x");
                    }
                }
                drop(client);
            }
        }
    }
}

/// A.duplex.odd_sizes [C09] (bounded stand-in for `DuplexConnectionRequest::ack`, class A, on the accept path of a real
/// server; also a replay of acc.err_only_closed and of the accept-loop obligations so.err_only / sv.err_only /
/// sv.failure_reported): a client that asks for a nonsensical buffer (0 bytes; also 1 and usize::MAX) harms at most its own
/// connection.  The serving future is still pending afterwards and a fresh, well-behaved client is served.
#[tokio::test]
async fn standin_duplex_odd_size_client_then_served() {
    use std::future::IntoFuture as _;
    use std::time::Duration;
    use tokio::io::{AsyncReadExt as _, AsyncWriteExt as _};
    let (client, incoming) = duplex::pair();
    let server = crate::server::Server::builder()
        .with_incoming(incoming)
        .with_auto_http()
        .with_shared_service(tower::service_fn(|_: http::Request<crate::Body>| async {
            Ok::<_, std::convert::Infallible>(http::Response::new(crate::Body::from("hello")))
        }))
        .with_tokio();
    let serving = tokio::spawn(server.into_future());
    let mut kept = Vec::new();
    for size in [0usize, 1, usize::MAX, 0, 0] {
        // the misbehaving client: whatever it gets back - a useless stream or an error - is its own problem; the result is
        // kept alive so that nothing is cancelled
        let odd = tokio::time::timeout(Duration::from_secs(5), client.connect(size)).await.unwrap_or_else(|_| panic!("connect({size}) hangs"));
        kept.push(odd);
        tokio::time::sleep(Duration::from_millis(50)).await;
        assert!(
            !serving.is_finished(),
            "the serving future ended because one client asked for a buffer of {size} bytes: {:?}",
            serving.await.map(|r| r.map_err(|e| e.to_string()))
        );
        // a well-behaved client is still accepted and served
        let mut good = tokio::time::timeout(Duration::from_secs(5), client.connect(1024))
            .await
            .unwrap_or_else(|_| panic!("after connect({size}): the next client's connect hangs"))
            .unwrap_or_else(|e| panic!("after connect({size}): the server does not accept connections any more ({e})"));
        good.write_all(b"GET / HTTP/1.1\r\nHost: localhost\r\nConnection: close\r\n\r\n").await.unwrap();
        let mut response = Vec::new();
        tokio::time::timeout(Duration::from_secs(5), good.read_to_end(&mut response))
            .await
            .unwrap_or_else(|_| panic!("after connect({size}): the next client got no answer"))
            .unwrap();
        let response = String::from_utf8_lossy(&response);
        assert!(response.starts_with("HTTP/1.1 200") && response.ends_with("hello"), "after connect({size}): unexpected response {response:?}");
    }
    assert!(!serving.is_finished(), "the serving future ended");
    serving.abort();
    drop(kept);
}

// ---- A.tls.accept_garbage: the TLS acceptor in front of a transport whose streams are readable AT ONCE ----
/// Inner acceptor: every stream put into the channel is an incoming connection.  The streams are in-memory pipes,
/// so whatever the peer wrote before the server accepts is readable in the very first poll (with sockets the same
/// situation is a race against the I/O driver).
#[cfg(feature = "tls")]
struct QueueAccept(tokio::sync::mpsc::UnboundedReceiver<duplex::DuplexStream>);
#[cfg(feature = "tls")]
impl crate::server::conn::Accept for QueueAccept {
    type Conn = duplex::DuplexStream;
    type Error = std::io::Error;
    fn poll_accept(mut self: Pin<&mut Self>, cx: &mut Context<'_>) -> Poll<Result<Self::Conn, Self::Error>> {
        match self.0.poll_recv(cx) {
            Poll::Ready(Some(stream)) => Poll::Ready(Ok(stream)),
            Poll::Ready(None) => Poll::Ready(Err(std::io::ErrorKind::ConnectionAborted.into())),
            Poll::Pending => Poll::Pending,
        }
    }
}

/// The fixture certificate of the repository has a fixed validity period; the scenario is about the accept loop, not
/// about certificates: accept whatever the server presents (signatures are still checked).
#[cfg(feature = "tls")]
#[derive(Debug)]
struct AnyCert(std::sync::Arc<rustls::crypto::CryptoProvider>);
#[cfg(feature = "tls")]
impl rustls::client::danger::ServerCertVerifier for AnyCert {
    fn verify_server_cert(
        &self,
        _end_entity: &rustls::pki_types::CertificateDer<'_>,
        _intermediates: &[rustls::pki_types::CertificateDer<'_>],
        _server_name: &rustls::pki_types::ServerName<'_>,
        _ocsp: &[u8],
        _now: rustls::pki_types::UnixTime,
    ) -> Result<rustls::client::danger::ServerCertVerified, rustls::Error> {
        Ok(rustls::client::danger::ServerCertVerified::assertion())
    }
    fn verify_tls12_signature(
        &self,
        message: &[u8],
        cert: &rustls::pki_types::CertificateDer<'_>,
        dss: &rustls::DigitallySignedStruct,
    ) -> Result<rustls::client::danger::HandshakeSignatureValid, rustls::Error> {
        rustls::crypto::verify_tls12_signature(message, cert, dss, &self.0.signature_verification_algorithms)
    }
    fn verify_tls13_signature(
        &self,
        message: &[u8],
        cert: &rustls::pki_types::CertificateDer<'_>,
        dss: &rustls::DigitallySignedStruct,
    ) -> Result<rustls::client::danger::HandshakeSignatureValid, rustls::Error> {
        rustls::crypto::verify_tls13_signature(message, cert, dss, &self.0.signature_verification_algorithms)
    }
    fn supported_verify_schemes(&self) -> Vec<rustls::SignatureScheme> {
        self.0.signature_verification_algorithms.supported_schemes()
    }
}

/// what a misbehaving peer has done by the time the server accepts its connection
#[cfg(feature = "tls")]
#[derive(Debug, Clone, Copy)]
enum BadPeer {
    /// these bytes are readable, then end-of-stream
    BytesThenEof(&'static [u8]),
    /// these bytes are readable, then the peer stays connected and silent for the rest of the test
    BytesThenSilence(&'static [u8]),
}

#[cfg(feature = "tls")]
const BAD_PEERS: &[(&str, BadPeer)] = &[
    ("a plaintext HTTP request", BadPeer::BytesThenSilence(b"GET / HTTP/1.1\r\nHost: example.com\r\n\r\n")),
    ("a plaintext HTTP request, then gone", BadPeer::BytesThenEof(b"GET / HTTP/1.1\r\nHost: example.com\r\n\r\n")),
    ("gone before the accept (end-of-stream)", BadPeer::BytesThenEof(b"")),
    ("binary garbage", BadPeer::BytesThenSilence(&[0xff; 64])),
    ("a handshake record of impossible length", BadPeer::BytesThenSilence(&[0x16, 0x03, 0x01, 0xff, 0xff, 0x01, 0x02, 0x03])),
    ("an alert instead of a hello", BadPeer::BytesThenSilence(&[0x15, 0x03, 0x03, 0x00, 0x02, 0x02, 0x28])),
    ("the start of a hello, then gone", BadPeer::BytesThenEof(&[0x16, 0x03, 0x01, 0x00, 0xc8, 0x01, 0x00, 0x00])),
    ("half a record header, then silence (stalled)", BadPeer::BytesThenSilence(&[0x16, 0x03])),
    ("nothing at all (stalled)", BadPeer::BytesThenSilence(b"")),
];

/// A.tls.accept_garbage [C09] (bounded stand-in for `TlsAcceptor::poll_accept` -> `Stream::from(TlsStream)` ->
/// `Serving::poll_once`, the accept path of a TLS server: pin-projected enums and `.into()` chains the contracts
/// do not reach): a connection whose TLS handshake is bound to fail or to stall - garbage, end-of-stream, a truncated
/// hello ALREADY readable when the server accepts it - neither panics in the accept path, nor ends the serving
/// future, nor keeps the next, well-behaved TLS client (hello already readable, or sent later) from being served.
#[cfg(feature = "tls")]
#[tokio::test]
async fn standin_tls_accept_garbage() {
    use crate::info::HasConnectionInfo as _;
    use crate::server::conn::tls::TlsAcceptor;
    use http_body_util::BodyExt as _;
    use std::future::IntoFuture as _;
    use std::sync::Arc;
    use std::time::Duration;
    use tokio::io::{AsyncReadExt as _, AsyncWriteExt as _};

    crate::fixtures::tls_install_default();
    let server_config = Arc::new(crate::fixtures::tls_server_config());
    let client_config = {
        let mut cfg = crate::fixtures::tls_client_config();
        let provider = rustls::crypto::CryptoProvider::get_default().expect("crypto provider installed").clone();
        cfg.dangerous().set_certificate_verifier(Arc::new(AnyCert(provider)));
        cfg.alpn_protocols = vec![b"http/1.1".to_vec()];
        Arc::new(cfg)
    };

    async fn preloaded(peer: BadPeer) -> (Option<duplex::DuplexStream>, duplex::DuplexStream) {
        let (mut theirs, ours) = duplex::DuplexStream::new(4096);
        match peer {
            BadPeer::BytesThenEof(bytes) => {
                theirs.write_all(bytes).await.unwrap();
                drop(theirs);
                (None, ours)
            }
            BadPeer::BytesThenSilence(bytes) => {
                theirs.write_all(bytes).await.unwrap();
                (Some(theirs), ours)
            }
        }
    }

    // (1) a whole server: after each misbehaving connection a well-behaved TLS client is served
    let (incoming, connections) = tokio::sync::mpsc::unbounded_channel();
    let server = crate::server::Server::builder()
        .with_acceptor(crate::server::conn::Acceptor::new(QueueAccept(connections)).with_tls(server_config.clone()))
        .with_auto_http()
        .with_shared_service(tower::service_fn(|req: http::Request<crate::Body>| async move {
            let data = req.into_body().collect().await?.to_bytes();
            Ok::<_, crate::BoxError>(http::Response::new(crate::Body::from(data)))
        }))
        .with_tokio();
    let serving = tokio::spawn(server.into_future());

    let mut still_connected = Vec::new();
    for (n, (what, peer)) in BAD_PEERS.iter().enumerate() {
        let (theirs, ours) = preloaded(*peer).await;
        incoming.send(ours).expect("the server dropped its acceptor");
        // give the server the chance to accept it and to fail its handshake: a peer that is still connected sees the
        // connection closed (or a TLS alert) once that has happened; for the stalled ones there is nothing to wait for
        if let Some(mut theirs) = theirs {
            let mut sink = [0u8; 64];
            let _ = tokio::time::timeout(Duration::from_millis(200), theirs.read(&mut sink)).await;
            still_connected.push(theirs);
        } else {
            for _ in 0..20 { tokio::task::yield_now().await; }
        }
        assert!(!serving.is_finished(), "peer sent {what}: the serving future ended ({:?})", serving.await.map(|r| r.map_err(|e| e.to_string())));

        // the well-behaved client; every other time its hello is already readable when the server accepts
        let hello_first = n % 2 == 0;
        let (good, good_server_side) = duplex::DuplexStream::new(4096);
        let connector = tokio_rustls::TlsConnector::from(client_config.clone());
        let mut connect = Box::pin(connector.connect("example.com".try_into().unwrap(), good));
        if hello_first {
            assert!(futures_util::poll!(&mut connect).is_pending()); // the hello is written by the first poll
        }
        incoming.send(good_server_side).expect("the server dropped its acceptor");
        let tls = tokio::time::timeout(Duration::from_secs(10), connect)
            .await
            .unwrap_or_else(|_| panic!("after a peer that sent {what}: the next client's TLS handshake got no answer within 10 s - the server does not accept connections any more (serving future finished: {})", serving.is_finished()))
            .unwrap_or_else(|e| panic!("after a peer that sent {what}: the next client's TLS handshake failed: {e}"));
        let (mut send, conn) = hyper::client::conn::http1::Builder::new()
            .handshake::<_, crate::Body>(crate::bridge::io::TokioIo::new(tls))
            .await
            .expect("http/1 client handshake");
        let driver = tokio::spawn(conn);
        let request = http::Request::builder()
            .method(http::Method::POST)
            .uri("/hello")
            .header(http::header::HOST, "example.com")
            .body(crate::Body::from(format!("hello {n}")))
            .unwrap();
        let response = tokio::time::timeout(Duration::from_secs(10), send.send_request(request))
            .await
            .unwrap_or_else(|_| panic!("after a peer that sent {what}: the next client's request got no response within 10 s"))
            .unwrap_or_else(|e| panic!("after a peer that sent {what}: the next client's request failed: {e}"));
        assert_eq!(response.status(), http::StatusCode::OK, "after a peer that sent {what}");
        let data = response.into_body().collect().await.expect("response body").to_bytes();
        assert_eq!(&*data, format!("hello {n}").as_bytes(), "after a peer that sent {what}");
        println!("peer sent {what:50} -> next TLS client (hello {}) served", if hello_first { "already readable" } else { "sent later" });
        driver.abort();
    }
    assert!(!serving.is_finished(), "the serving future ended");
    serving.abort();
    drop(still_connected);

    // (2) the accept step itself, without a server around it: the acceptor hands the connection on and the accept loop can ask for its info
    for (what, peer) in BAD_PEERS {
        let (_keep, ours) = preloaded(*peer).await;
        let mut acc = TlsAcceptor::new(server_config.clone(), ScriptAccept(vec![Poll::Ready(Ok(ours))], 0));
        let accepted = std::panic::catch_unwind(std::panic::AssertUnwindSafe(|| {
            let waker = futures_util::task::noop_waker();
            let mut cx = Context::from_waker(&waker);
            match Pin::new(&mut acc).poll_accept(&mut cx) {
                Poll::Ready(Ok(stream)) => {
                    let _ = stream.info();
                    // what `Acceptor<A>::poll_accept` does with it
                    let _ = crate::server::conn::Stream::from(stream).info();
                    Ok(())
                }
                Poll::Ready(Err(e)) => Err(format!("the listener is intact, but accepting reported {e}")),
                Poll::Pending => Err("the listener had a connection, but accepting is pending".to_string()),
            }
        }));
        match accepted {
            Ok(Ok(())) => {}
            Ok(Err(why)) => panic!("peer sent {what}: {why}"),
            Err(_) => panic!("peer sent {what}: the accept path panicked (inside the serving future this ends the server)"),
        }
    }
}

/// acc.ack.buf_size / acc.ok_buf_size / acc.next_ok_buf_size / acc.ack.ends_paired [C09]: the pipe `ack` creates holds
/// min(size the client asked for, server cap) bytes - the client's size when the server has no cap - in BOTH directions,
/// and the accepted stream is the other end of what the client got.  Measured on the real streams: how many bytes one
/// end takes before the other end has read anything.
#[tokio::test]
async fn acc_ack_buffer_size() {
    use futures_util::StreamExt as _;
    use std::time::Duration;
    use tokio::io::{AsyncReadExt as _, AsyncWrite};
    fn room<W: AsyncWrite + Unpin>(w: &mut W) -> usize {
        let waker = futures_util::task::noop_waker();
        let mut cx = Context::from_waker(&waker);
        let chunk = [7u8; 64];
        let mut taken = 0usize;
        loop {
            match Pin::new(&mut *w).poll_write(&mut cx, &chunk) {
                Poll::Ready(Ok(0)) | Poll::Pending => return taken,
                Poll::Ready(Ok(n)) => taken += n,
                Poll::Ready(Err(e)) => panic!("write on a fresh duplex stream failed: {e}"),
            }
            assert!(taken <= 1 << 20, "the pipe takes more than 1 MiB unread: not bounded by any of the sizes under test");
        }
    }
    for via_stream in [false, true] {
        for (cap, ask) in [(None, 48usize), (Some(16usize), 48), (Some(48), 16), (Some(32), 32), (None, 1), (Some(5), 1000)] {
            let want = cap.map_or(ask, |c: usize| c.min(ask));
            let what = format!("client asks for {ask} bytes, server cap {cap:?}, via {}", if via_stream { "Stream::poll_next" } else { "Accept::poll_accept" });
            let (client, incoming) = duplex::pair();
            let mut incoming = match cap {
                Some(c) => incoming.with_max_buf_size(c),
                None => incoming,
            };
            let (c, s) = tokio::time::timeout(Duration::from_secs(5), async {
                tokio::join!(client.connect(ask), async {
                    if via_stream {
                        incoming.next().await.expect("a client handle is alive")
                    } else {
                        poll_fn(|cx| Pin::new(&mut incoming).poll_accept(cx)).await
                    }
                })
            })
            .await
            .unwrap_or_else(|_| panic!("{what}: connect/accept pair does not complete"));
            let mut c = c.unwrap_or_else(|e| panic!("{what}: connect() of a live client reported `{e}`"));
            let mut s = s.unwrap_or_else(|e| panic!("{what}: the acceptor reported `{e}` for a live client"));
            let up = room(&mut c);
            assert_eq!(up, want, "{what}: the client's end takes {up} unread bytes, expected min(requested, cap) = {want}");
            let down = room(&mut s);
            assert_eq!(down, want, "{what}: the server's end takes {down} unread bytes, expected min(requested, cap) = {want}");
            // the two ends are one pipe: exactly the bytes written at one end arrive at the other
            let mut got = vec![0u8; want];
            tokio::time::timeout(Duration::from_secs(5), s.read_exact(&mut got))
                .await
                .unwrap_or_else(|_| panic!("{what}: the accepted stream is not the other end of what the client received"))
                .unwrap();
            assert!(got.iter().all(|b| *b == 7));
            tokio::time::timeout(Duration::from_secs(5), c.read_exact(&mut got))
                .await
                .unwrap_or_else(|_| panic!("{what}: the client's stream is not the other end of the accepted one"))
                .unwrap();
        }
    }
}
