// Replay templates for the accept unit (C09): concrete scenarios against the REAL crate.
// Compiled inside `crate::server::conn::drivers::verif_replays` (feature verif-hooks, test builds).
use super::*;
use crate::server::conn::Accept as _;
use crate::stream::duplex;
use std::future::poll_fn;

fn noop_cx_poll<F: Future + Unpin>(f: &mut F) -> Poll<F::Output> {
    let waker = futures_util::task::noop_waker();
    let mut cx = Context::from_waker(&waker);
    Pin::new(f).poll(&mut cx)
}

/// acc.err_only_closed / acc.skip_only_dead / acc.ok_acked [C09] (F2): a client queues a connect request and
/// gives up; a second, healthy client connects.  The listener is intact (a `DuplexClient` is alive), so
/// `poll_accept` must not report an error - it has to skip the dead request and hand out the healthy one.
#[tokio::test]
async fn acc_err_only_closed() {
    let (client, mut incoming) = duplex::pair();
    {
        let mut fut = Box::pin(client.connect(1024));
        // first poll: the request is queued; then the caller gives up
        assert!(futures_util::poll!(&mut fut).is_pending());
        drop(fut);
    }
    let c2 = client.clone();
    let good = tokio::spawn(async move { c2.connect(1024).await });
    let accepted = tokio::time::timeout(
        std::time::Duration::from_secs(5),
        poll_fn(|cx| Pin::new(&mut incoming).poll_accept(cx)),
    )
    .await
    .expect("poll_accept must complete once the healthy client has connected");
    assert!(
        accepted.is_ok(),
        "poll_accept reported {:?} although the listener is intact: one client cancelled its connect (F2)",
        accepted.as_ref().err()
    );
    // the stream that was handed out belongs to the healthy client
    let client_side = good.await.unwrap();
    assert!(client_side.is_ok(), "the healthy client was not served");
    drop(client);
}

/// acc.skip_only_dead [C09]: with only a cancelled request in the queue and the listener intact, the acceptor
/// keeps waiting (`Pending`), it neither fails nor invents a connection.
#[tokio::test]
async fn acc_dead_request_then_pending() {
    let (client, mut incoming) = duplex::pair();
    {
        let mut fut = Box::pin(client.connect(64));
        assert!(futures_util::poll!(&mut fut).is_pending());
        drop(fut);
    }
    let waker = futures_util::task::noop_waker();
    let mut cx = Context::from_waker(&waker);
    let r = Pin::new(&mut incoming).poll_accept(&mut cx);
    assert!(r.is_pending(), "expected Pending after skipping a cancelled connect, got {:?}", r.map(|x| x.map(|_| ())));
    drop(client);
}

/// acc.closed_reported: the loss of the listener itself (every `DuplexClient` dropped) *is* reported.
#[tokio::test]
async fn acc_listener_lost() {
    let (client, mut incoming) = duplex::pair();
    drop(client);
    let r = poll_fn(|cx| Pin::new(&mut incoming).poll_accept(cx)).await;
    assert!(r.is_err(), "all clients are gone: poll_accept must report the loss of the listener");
}

/// acc.ok_acked [C09]: the accepted stream is the other half of the pipe the connecting client received.
#[tokio::test]
async fn acc_ok_acked() {
    use tokio::io::{AsyncReadExt, AsyncWriteExt};
    let (client, mut incoming) = duplex::pair();
    let (c, s) = tokio::join!(client.connect(1024), poll_fn(|cx| Pin::new(&mut incoming).poll_accept(cx)));
    let (mut c, mut s) = (c.unwrap(), s.unwrap());
    c.write_all(b"ping").await.unwrap();
    let mut buf = [0u8; 4];
    s.read_exact(&mut buf).await.unwrap();
    assert_eq!(&buf, b"ping");
}

struct Script(Vec<Poll<Result<(), &'static str>>>, usize);
impl Future for Script {
    type Output = Result<(), &'static str>;
    fn poll(mut self: Pin<&mut Self>, _cx: &mut Context<'_>) -> Poll<Self::Output> {
        self.1 += 1;
        if self.0.is_empty() { Poll::Pending } else { self.0.remove(0) }
    }
}

/// cd.swallow [C09]: the driver is `Ready(())` exactly when the connection future is `Ready(_)` - `Ok` or `Err`
/// alike, without a panic - and it polls the connection once per call.
#[test]
fn cd_swallow() {
    let mut d: ConnectionDriver<Script, &'static str> =
        ConnectionDriver::new(Script(vec![Poll::Pending, Poll::Ready(Err("handler failed"))], 0));
    assert!(noop_cx_poll(&mut d).is_pending());
    assert_eq!(d.conn.1, 1);
    assert!(noop_cx_poll(&mut d).is_ready());
    assert_eq!(d.conn.1, 2);

    let mut d: ConnectionDriver<Script, &'static str> = ConnectionDriver::new(Script(vec![Poll::Ready(Ok(()))], 0));
    assert!(noop_cx_poll(&mut d).is_ready());
    assert_eq!(d.conn.1, 1);
}
