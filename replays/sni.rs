// Replay templates of unit `sni` (property C20), compiled into
// hyperdriver::server::conn::tls::sni::verif_replays (feature verif-hooks, test builds).
// Each test builds the smallest request the obligation speaks about and calls the REAL `handle`.
use super::*;

fn tls_req(version: http::Version, uri: &str, host: Option<&str>, sni: Option<&str>) -> Request<()> {
    let mut req = Request::builder().version(version).uri(uri).body(()).unwrap();
    if let Some(h) = host {
        req.headers_mut().insert(header::HOST, h.parse().unwrap());
    }
    req.extensions_mut().insert(TlsConnectionInfo {
        server_name: sni.map(Into::into),
        ..TlsConnectionInfo::default()
    });
    req
}

/// every version constant the `http` crate has: the middleware must decide the same way for all of them (only HTTP/2
/// reads the host from somewhere else); a version-dependent shortcut in front of `handle` shows up here
const ALL_VERSIONS: [http::Version; 5] = [
    http::Version::HTTP_09,
    http::Version::HTTP_10,
    http::Version::HTTP_11,
    http::Version::HTTP_2,
    http::Version::HTTP_3,
];

fn flag(req: &Request<()>) -> Option<bool> {
    req.extensions().get::<TlsConnectionInfo>().map(|t| t.validated_server_name)
}

/// sni.no_tls: no TLS info => passed on, nothing inserted or marked
#[test]
fn sni_no_tls() {
    for v in [http::Version::HTTP_11, http::Version::HTTP_2] {
        let mut req = Request::builder().version(v).uri("https://example.com/").body(()).unwrap();
        req.headers_mut().insert(header::HOST, "other.example".parse().unwrap());
        assert!(handle(&mut req).is_none());
        assert!(req.extensions().get::<TlsConnectionInfo>().is_none());
        assert_eq!(req.headers().get(header::HOST).unwrap(), "other.example");
    }
}

/// sni.missing: TLS info present, server name absent or unparsable => MissingSNI, nothing marked
#[test]
fn sni_missing() {
    for sni in [None, Some("not a host name"), Some("")] {
        let mut req = tls_req(http::Version::HTTP_11, "/", Some("example.com"), sni);
        let r = handle(&mut req);
        assert!(matches!(r, Some(ValidateSNIError::MissingSNI { .. })), "sni={sni:?} -> {r:?}");
        assert_eq!(flag(&req), Some(false));
    }
    // also when the request names no host at all
    let mut req = tls_req(http::Version::HTTP_11, "/", None, None);
    assert!(matches!(handle(&mut req), Some(ValidateSNIError::MissingSNI { .. })));
}

/// sni.mismatch: a different host (HTTP/1 Host header, HTTP/2 authority) => InvalidSNI, nothing marked
#[test]
fn sni_mismatch() {
    let mut req = tls_req(http::Version::HTTP_11, "/", Some("example.org:8443"), Some("example.com"));
    assert_eq!(
        handle(&mut req),
        Some(ValidateSNIError::InvalidSNI { host: "example.org:8443".into(), sni: "example.com".into() })
    );
    assert_eq!(flag(&req), Some(false));

    let mut req = tls_req(http::Version::HTTP_2, "https://example.org/x", None, Some("example.com"));
    assert!(matches!(handle(&mut req), Some(ValidateSNIError::InvalidSNI { .. })));
    assert_eq!(flag(&req), Some(false));

    // the authority wins over a Host header on HTTP/2
    let mut req = tls_req(http::Version::HTTP_2, "https://example.org/x", Some("example.com"), Some("example.com"));
    assert!(matches!(handle(&mut req), Some(ValidateSNIError::InvalidSNI { .. })));
}

/// sni.accept: the host equals the server name up to ASCII case, port ignored => passed on and marked
#[test]
fn sni_accept() {
    for (host, sni) in [
        ("example.com", "example.com"),
        ("example.com:8443", "example.com"),
        ("EXAMPLE.com", "example.com"),
        ("example.com", "Example.COM"),
        ("ExAmPlE.CoM:443", "example.com"),
    ] {
        let mut req = tls_req(http::Version::HTTP_11, "/", Some(host), Some(sni));
        let r = handle(&mut req);
        assert!(r.is_none(), "Host {host:?} with SNI {sni:?} was rejected: {r:?}");
        assert_eq!(flag(&req), Some(true), "Host {host:?} with SNI {sni:?} not marked as validated");
    }
    let mut req = tls_req(http::Version::HTTP_2, "https://EXAMPLE.com:8443/x", None, Some("example.com"));
    let r = handle(&mut req);
    assert!(r.is_none(), "h2 authority EXAMPLE.com:8443 with SNI example.com was rejected: {r:?}");
    assert_eq!(flag(&req), Some(true));
}

/// sni.h2_fallback: HTTP/2 without :authority => the Host header is validated
#[test]
fn sni_h2_fallback() {
    let mut req = tls_req(http::Version::HTTP_2, "/path", Some("evil.example"), Some("example.com"));
    let r = handle(&mut req);
    assert!(
        matches!(r, Some(ValidateSNIError::InvalidSNI { .. })),
        "HTTP/2 request naming another host in its Host header was passed on: {r:?} validated={:?}",
        flag(&req)
    );
    assert_eq!(flag(&req), Some(false));

    for host in ["example.com:8443", "EXAMPLE.com"] {
        let mut req = tls_req(http::Version::HTTP_2, "/path", Some(host), Some("example.com"));
        let r = handle(&mut req);
        assert!(r.is_none(), "HTTP/2 request with Host {host:?} and SNI example.com was rejected: {r:?}");
        assert_eq!(flag(&req), Some(true), "HTTP/2 request naming the server name in its Host header is not marked");
    }
}

/// sni.no_host: the request names no host => passed on, nothing marked
#[test]
fn sni_no_host() {
    for v in [http::Version::HTTP_11, http::Version::HTTP_2] {
        let mut req = tls_req(v, "/", None, Some("example.com"));
        assert!(handle(&mut req).is_none());
        assert_eq!(flag(&req), Some(false));
    }
}

/// sweep over the small input space the property speaks about, against an oracle written from the property text:
/// version x URI authority x Host header x TLS info.  (host named by the request: HTTP/2 -> :authority, failing that
/// the Host header; HTTP/1.x -> the Host header.)
#[test]
fn sni_decision_sweep() {
    let sni_name = "example.com";
    let uris: [(&str, Option<&str>); 4] = [
        ("/path", None),
        ("https://example.com/path", Some("example.com")),
        ("https://EXAMPLE.com:8443/path", Some("EXAMPLE.com")),
        ("https://evil.example/path", Some("evil.example")),
    ];
    let hosts: [Option<&str>; 5] = [None, Some("example.com"), Some("Example.COM:443"), Some("evil.example"), Some("example.com.evil.example")];
    let tls: [Option<Option<&str>>; 3] = [None, Some(None), Some(Some(sni_name))];
    for v in ALL_VERSIONS {
        for (uri, auth_host) in uris {
            for host in hosts {
                for t in tls {
                    let mut req = Request::builder().version(v).uri(uri).body(()).unwrap();
                    if let Some(h) = host { req.headers_mut().insert(header::HOST, h.parse().unwrap()); }
                    if let Some(s) = t {
                        req.extensions_mut().insert(TlsConnectionInfo { server_name: s.map(Into::into), ..TlsConnectionInfo::default() });
                    }
                    let named: Option<String> = if v == http::Version::HTTP_2 && auth_host.is_some() {
                        auth_host.map(|s| s.to_string())
                    } else {
                        host.map(|h| h.rsplit_once(':').map(|(a, _)| a).unwrap_or(h).to_string())
                    };
                    let r = handle(&mut req);
                    let ctx = format!("version={v:?} uri={uri} host={host:?} tls={t:?}");
                    match t {
                        None => { assert!(r.is_none(), "{ctx}: not a TLS request, must be passed on"); }
                        Some(None) => { assert!(matches!(r, Some(ValidateSNIError::MissingSNI { .. })), "{ctx}: no server name was sent, must be rejected, got {r:?}"); }
                        Some(Some(s)) => match named {
                            None => { assert!(r.is_none(), "{ctx}: names no host, got {r:?}"); assert_eq!(flag(&req), Some(false), "{ctx}: marked validated without a host"); }
                            Some(n) if n.eq_ignore_ascii_case(s) => {
                                assert!(r.is_none(), "{ctx}: host equals the server name, must never be rejected, got {r:?}");
                                assert_eq!(flag(&req), Some(true), "{ctx}: forwarded but not marked validated");
                            }
                            Some(_) => {
                                assert!(matches!(r, Some(ValidateSNIError::InvalidSNI { .. })), "{ctx}: host differs from the server name, must be rejected, got {r:?}");
                                assert_eq!(flag(&req), Some(false), "{ctx}: rejected request marked validated");
                            }
                        },
                    }
                }
            }
        }
    }
}

/// ti.recv.some [C20] (unit tlsinfo): every request on a TLS connection obtains the connection's TLS information, also
/// when several requests ask for it concurrently before the handshake result has been published.
#[tokio::test]
async fn tls_info_for_concurrent_requests() {
    use crate::info::tls::channel;
    for n in [2usize, 3, 5] {
        let (mut tx, rx) = channel();
        let handles: Vec<_> = (0..n).map(|_| { let rx = rx.clone(); tokio::spawn(async move { rx.recv().await }) }).collect();
        for _ in 0..3 { tokio::task::yield_now().await; }
        tx.send(TlsConnectionInfo { server_name: Some("example.com".into()), ..TlsConnectionInfo::default() });
        for h in handles {
            let got = tokio::time::timeout(std::time::Duration::from_secs(2), h).await.expect("recv hangs").expect("recv panicked");
            assert_eq!(got.and_then(|i| i.server_name), Some("example.com".to_string()),
                "a request on a TLS connection was told that the connection has no TLS information");
        }
        // later requests, too
        assert!(rx.recv().await.is_some());
    }
}

/// A.sni.service [C20] (bounded stand-in for `ValidateSNIService::call`): the decision sweep driven through
/// the public middleware - all five `http::Version` constants x 3 URIs x 4 Host headers x 3 TLS states = 180 requests -
/// with ONE service instance (and a clone of it) serving all requests in two different orders: the verdict on a request
/// must not depend on what the service saw before, nor on a version older / newer than the ones in common use.
#[tokio::test]
async fn standin_sni_service_sweep() {
    use tower::{Layer as _, Service as _, ServiceExt as _};
    #[derive(Clone)]
    struct Echo;
    impl tower::Service<Request<()>> for Echo {
        type Response = http::Response<bool>;
        type Error = std::io::Error;
        type Future = std::future::Ready<Result<Self::Response, Self::Error>>;
        fn poll_ready(&mut self, _: &mut std::task::Context<'_>) -> std::task::Poll<Result<(), Self::Error>> { std::task::Poll::Ready(Ok(())) }
        fn call(&mut self, req: Request<()>) -> Self::Future {
            // report whether the request arrived marked as validated
            let marked = req.extensions().get::<TlsConnectionInfo>().map(|t| t.validated_server_name).unwrap_or(false);
            std::future::ready(Ok(http::Response::new(marked)))
        }
    }
    let sni_name = "example.com";
    let mut cases = vec![];
    for v in ALL_VERSIONS {
        for (uri, auth_host) in [("/path", None), ("https://example.com/path", Some("example.com")), ("https://evil.example/path", Some("evil.example"))] {
            for host in [None, Some("example.com"), Some("EXAMPLE.com:8443"), Some("evil.example")] {
                for t in [None, Some(None), Some(Some(sni_name))] {
                    cases.push((v, uri, auth_host, host, t));
                }
            }
        }
    }
    let mut order: Vec<usize> = (0..cases.len()).collect();
    let mut svc = ValidateSNI.layer(Echo);
    for round in 0..2 {
        if round == 1 { order.reverse(); svc = svc.clone(); }
        for &i in &order {
            let (v, uri, auth_host, host, t): (http::Version, &str, Option<&str>, Option<&str>, Option<Option<&str>>) = cases[i];
            let mut req = Request::builder().version(v).uri(uri).body(()).unwrap();
            if let Some(h) = host { req.headers_mut().insert(header::HOST, h.parse().unwrap()); }
            if let Some(s) = t {
                req.extensions_mut().insert(TlsConnectionInfo { server_name: s.map(Into::into), ..TlsConnectionInfo::default() });
            }
            let named: Option<String> = if v == http::Version::HTTP_2 && auth_host.is_some() {
                auth_host.map(|s| s.to_string())
            } else {
                host.map(|h| h.rsplit_once(':').map(|(a, _)| a).unwrap_or(h).to_string())
            };
            let ctx = format!("round {round} version={v:?} uri={uri} host={host:?} tls={t:?}");
            let r = svc.ready().await.unwrap().call(req).await;
            match t {
                None => assert!(matches!(&r, Ok(resp) if !*resp.body()), "{ctx}: not a TLS request, must be passed on unmarked"),
                Some(None) => assert!(r.is_err(), "{ctx}: no server name was sent, must be rejected"),
                Some(Some(s)) => match named {
                    None => assert!(matches!(&r, Ok(resp) if !*resp.body()), "{ctx}: names no host: passed on, not marked"),
                    Some(n) if n.eq_ignore_ascii_case(s) => assert!(matches!(&r, Ok(resp) if *resp.body()), "{ctx}: host equals the server name: must be forwarded AND marked validated, got {:?}", r.as_ref().map(|x| *x.body()).map_err(|e| e.to_string())),
                    Some(_) => assert!(r.is_err(), "{ctx}: host differs from the server name: must be rejected"),
                },
            }
        }
    }
}

/// sni.call.rejects / sni.call.forwards / sni.call.always_handles / sni.ready_is_inner [C20] (`ValidateSNIService::call`
/// and `poll_ready`): for every version constant and every request of the sweep, the middleware does what `handle` says
/// about that very request and nothing else -
///   * `handle` reports an error: the inner service is NOT called and the returned future is ready with exactly that error;
///   * otherwise: the inner service is called exactly once, with the request AS LEFT BY `handle` (marked validated
///     exactly when `handle` marks it; version, URI, headers untouched);
///   * there is no request that reaches the inner service without `handle` having run on it: a request `handle` rejects is
///     never seen by the inner service, whatever its version;
///   * `poll_ready` asks the inner service exactly once and hands its answer on (an inner error arrives as `Inner`).
#[tokio::test]
async fn sni_call_is_handle_then_forward() {
    use std::sync::{Arc, Mutex};
    use tower::{Layer as _, Service as _};
    type Seen = (http::Version, String, Option<String>, Option<bool>);
    #[derive(Clone, Default)]
    struct Recorder { calls: Arc<Mutex<Vec<Seen>>>, ready: Arc<Mutex<(usize, bool)>> }
    impl tower::Service<Request<()>> for Recorder {
        type Response = http::Response<()>;
        type Error = std::io::Error;
        type Future = std::future::Ready<Result<Self::Response, Self::Error>>;
        fn poll_ready(&mut self, _: &mut std::task::Context<'_>) -> std::task::Poll<Result<(), Self::Error>> {
            let mut r = self.ready.lock().unwrap();
            r.0 += 1;
            if r.1 { std::task::Poll::Ready(Err(std::io::Error::other("inner not ready"))) } else { std::task::Poll::Ready(Ok(())) }
        }
        fn call(&mut self, req: Request<()>) -> Self::Future {
            self.calls.lock().unwrap().push((
                req.version(),
                req.uri().to_string(),
                req.headers().get(header::HOST).map(|h| h.to_str().unwrap().to_string()),
                req.extensions().get::<TlsConnectionInfo>().map(|t| t.validated_server_name),
            ));
            std::future::ready(Ok(http::Response::new(())))
        }
    }
    let build = |v: http::Version, uri: &str, host: Option<&str>, t: Option<Option<&str>>| {
        let mut req = Request::builder().version(v).uri(uri).body(()).unwrap();
        if let Some(h) = host { req.headers_mut().insert(header::HOST, h.parse().unwrap()); }
        if let Some(s) = t {
            req.extensions_mut().insert(TlsConnectionInfo { server_name: s.map(Into::into), ..TlsConnectionInfo::default() });
        }
        req
    };
    let rec = Recorder::default();
    let mut svc = ValidateSNI.layer(rec.clone());
    let mut wrong = Vec::new();
    let mut n = 0usize;
    for v in ALL_VERSIONS {
        for uri in ["/path", "https://example.com/path", "https://evil.example/path"] {
            for host in [None, Some("example.com"), Some("EXAMPLE.com:8443"), Some("evil.example")] {
                for t in [None, Some(None), Some(Some("example.com"))] {
                    n += 1;
                    let ctx = format!("version={v:?} uri={uri} host={host:?} tls={t:?}");
                    // what `handle` says about this very request, and how it leaves it
                    let mut reference = build(v, uri, host, t);
                    let verdict = handle(&mut reference);
                    let before = rec.calls.lock().unwrap().len();
                    let mut fut = std::pin::pin!(svc.call(build(v, uri, host, t)));
                    // both arms of the returned future are ready at once with this inner service
                    let out = futures_util::FutureExt::now_or_never(&mut fut);
                    let calls = rec.calls.lock().unwrap();
                    match verdict {
                        Some(error) => {
                            if calls.len() != before {
                                wrong.push(format!("{ctx}: handle rejects it ({error}), but the inner service was called with {:?}", calls.last()));
                            }
                            match out {
                                Some(Err(SNIMiddlewareError::SNI(e))) if e == error => {}
                                Some(Err(e)) => wrong.push(format!("{ctx}: rejected with `{e}` instead of `{error}`")),
                                Some(Ok(_)) => wrong.push(format!("{ctx}: handle rejects it ({error}), the middleware answered with a response")),
                                None => wrong.push(format!("{ctx}: handle rejects it ({error}), the returned future is not ready")),
                            }
                        }
                        None => {
                            if calls.len() != before + 1 {
                                wrong.push(format!("{ctx}: handle passes it on, the inner service was called {} times", calls.len() - before));
                            } else {
                                let want: Seen = (reference.version(), reference.uri().to_string(),
                                    reference.headers().get(header::HOST).map(|h| h.to_str().unwrap().to_string()), flag(&reference));
                                if calls[before] != want {
                                    wrong.push(format!("{ctx}: the inner service received {:?}, handle leaves the request as {want:?}", calls[before]));
                                }
                            }
                            if !matches!(out, Some(Ok(_))) {
                                wrong.push(format!("{ctx}: handle passes it on, the middleware did not hand back the inner response"));
                            }
                        }
                    }
                }
            }
        }
    }
    assert_eq!(n, 180);
    // poll_ready: the inner service's, asked once per call
    let waker = futures_util::task::noop_waker();
    let mut cx = std::task::Context::from_waker(&waker);
    let polls0 = rec.ready.lock().unwrap().0;
    if !matches!(svc.poll_ready(&mut cx), std::task::Poll::Ready(Ok(()))) { wrong.push("poll_ready: inner is ready, the middleware is not".to_string()); }
    rec.ready.lock().unwrap().1 = true;
    match svc.poll_ready(&mut cx) {
        std::task::Poll::Ready(Err(SNIMiddlewareError::Inner(e))) if e.to_string() == "inner not ready" => {}
        other => wrong.push(format!("poll_ready: the inner service's error did not arrive as Inner(..): {:?}", other.map(|r| r.map_err(|e| e.to_string())))),
    }
    if rec.ready.lock().unwrap().0 != polls0 + 2 { wrong.push(format!("poll_ready: inner asked {} times for 2 polls", rec.ready.lock().unwrap().0 - polls0)); }
    assert!(wrong.is_empty(), "ValidateSNIService does not do `handle`, then forward:\n{}", wrong.join("\n"));
}

/// ti.recv.some / ti.keeps_kind [C20] (unit tlsinfo): the race between the read-locked check and the write lock of `recv`.
/// N = 2..4 requests ask a fresh receiver of a TLS connection at the same time on a current-thread runtime.  All but the
/// last task first use up `k` units of tokio's cooperative budget, so that for some `k` of the sweep they are descheduled
/// exactly between "not received yet" (read lock released) and `write().await`; the last task then completes the receive,
/// and the delayed ones find `Received` under the write lock.  The handshake result is published before the race, or
/// after every task has started.  Whatever the interleaving: EVERY recv - the racing ones and one made later - answers
/// Some(info); the slot of a TLS connection is never left in a state that makes a later request look like plaintext.
#[test]
fn tls_info_race_between_check_and_write_lock() {
    use crate::info::tls::channel;
    use std::sync::atomic::{AtomicUsize, Ordering};
    use std::sync::Arc;
    /// every successful semaphore acquisition costs one unit of the task's cooperative budget (128 per poll)
    async fn burn(n: usize) {
        let sem = tokio::sync::Semaphore::new(n);
        for _ in 0..n { sem.acquire().await.unwrap().forget(); }
    }
    let rt = tokio::runtime::Builder::new_current_thread().enable_all().build().unwrap();
    let mut wrong = Vec::new();
    let mut interleaved = Vec::new();
    for n in 2..=4usize {
        for k in 0..=140usize {
            for sent_first in [true, false] {
                rt.block_on(async {
                    let (mut tx, rx) = channel();
                    let info = TlsConnectionInfo { server_name: Some("example.com".into()), ..TlsConnectionInfo::default() };
                    if sent_first { tx.send(info.clone()); }
                    let finished = Arc::new(AtomicUsize::new(0));
                    let handles: Vec<_> = (0..n).map(|i| {
                        let rx = rx.clone();
                        let finished = finished.clone();
                        tokio::spawn(async move {
                            if i + 1 < n { burn(k).await; }
                            let got = rx.recv().await;
                            (got, finished.fetch_add(1, Ordering::SeqCst))
                        })
                    }).collect();
                    if !sent_first {
                        for _ in 0..3 { tokio::task::yield_now().await; }
                        tx.send(info.clone());
                    }
                    for (i, h) in handles.into_iter().enumerate() {
                        match tokio::time::timeout(std::time::Duration::from_secs(5), h).await {
                            Err(_) => wrong.push(format!("n={n} k={k} sent_first={sent_first}: recv of task {i} hangs")),
                            Ok(Err(e)) => wrong.push(format!("n={n} k={k} sent_first={sent_first}: recv of task {i} panicked: {e}")),
                            Ok(Ok((got, order))) => {
                                if got.as_ref().and_then(|g| g.server_name.as_deref()) != Some("example.com") {
                                    wrong.push(format!("n={n} k={k} sent_first={sent_first}: racing request {i} got {got:?} instead of the connection's TLS information"));
                                }
                                if i == 0 && order != 0 && sent_first { interleaved.push((n, k)); }
                            }
                        }
                    }
                    for later in 0..2 {
                        match tokio::time::timeout(std::time::Duration::from_secs(5), rx.recv()).await {
                            Ok(Some(g)) if g.server_name.as_deref() == Some("example.com") => {}
                            other => wrong.push(format!("n={n} k={k} sent_first={sent_first}: request {later} AFTER the race got {other:?}: the connection no longer hands out its TLS information")),
                        }
                    }
                });
            }
        }
    }
    println!("sweep values (n, k) at which the first task finished after a later one (k = 127: descheduled exactly between its check and its write lock): {interleaved:?}");
    wrong.truncate(12);
    assert!(wrong.is_empty(), "a request on a TLS connection was told that the connection has no TLS information:\n{}", wrong.join("\n"));
}
